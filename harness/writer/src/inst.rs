//! One running discret database instance (the real `GraphDatabaseService`) with
//!  * a way to hold the writer thread so that a chosen list of requests lands in ONE batch,
//!  * SQL-level fault injection on the writer's own connection (TEMP triggers calling a user function,
//!    installed through the public `Writeable` interface — the failing statement is a real SQLite error
//!    raised inside the real `write` functions, so it travels the real error path of each arm),
//!  * canonical dumps of what a later reader sees.
use discret::verif_hooks as vh;
use rusqlite::functions::FunctionFlags;
use rusqlite::Connection;
use std::collections::{BTreeMap, HashMap};
use std::path::PathBuf;
use std::sync::{Arc, Mutex};
use std::time::Duration;
use tokio::sync::{mpsc, oneshot};
use vh::configuration::Configuration;
use vh::database::deletion::DeletionQuery;
use vh::database::edge::Edge;
use vh::database::graph_database::{DbMessage, GraphDatabaseService};
use vh::database::mutation_query::MutationQuery;
use vh::database::node::{Node, NodeDeletionEntry, NodeToInsert};
use vh::database::query_language::parameter::{Parameters, ParametersAdd};
use vh::database::sqlite_database::{WriteMessage, WriteStmt, Writeable};
use vh::database::Error as DbError;
use vh::event_service::EventService;
use vh::fault;
use vh::security::{base64_encode, uid_encode, Ed25519SigningKey, SigningKey, Uid};

pub const DATA_MODEL: &str = "{
    Item { key: String, val: String, alt: String default \"a0\", parents: [Item], pet: Item nullable }
}";
pub const DAY: i64 = 86_400_000;
pub const BASE: i64 = 19_676 * DAY; // 2023-11-15T00:00:00Z

pub fn day_of(ms: i64) -> i64 {
    (ms - BASE).div_euclid(DAY)
}

pub fn secret_of(n: u64) -> [u8; 32] {
    let mut s = [0u8; 32];
    s[..8].copy_from_slice(&n.to_be_bytes());
    s[31] = 0xC3;
    s
}

pub fn config() -> Configuration {
    let mut c = Configuration::default();
    c.parallelism = 1;
    c.read_cache_size_in_kb = 512;
    c.write_cache_size_in_kb = 512;
    c
}

// ------------------------------------------------------------------------------------------------
// SQL-level fault injection (harness side, on the writer thread's connection)

#[derive(Clone, Copy, Debug, PartialEq, Eq)]
pub enum SqlTarget {
    None,
    /// j-th SQL write statement (0-based) executed while the group with absolute number `g`
    /// (count of `batch.group.before`) is running and `ga` groups have completed
    Group { g: u64, ga: u64, j: u64 },
    /// j-th SQL write of the marks phase of the batch whose `batch.before_marks` count is `m`
    Marks { m: u64, c: u64, j: u64 },
    /// the COMMIT of the batch whose `batch.before_commit` count is `c` (real failure through sqlite's commit hook:
    /// sqlite turns the COMMIT into a ROLLBACK)
    CommitHook { c: u64 },
    /// a deferred foreign-key violation planted by the first SQL write of the batch (groups numbered > `g`,
    /// before the commit numbered `c`): the real COMMIT fails and sqlite keeps the transaction open
    CommitFk { g: u64, c: u64 },
}

pub struct SqlFault {
    pub target: SqlTarget,
    pub abort: bool,
    pub inner: u64,
    pub fired: bool,
}
impl Default for SqlFault {
    fn default() -> Self {
        Self {
            target: SqlTarget::None,
            abort: false,
            inner: 0,
            fired: false,
        }
    }
}

fn cnt(c: &HashMap<String, u64>, k: &str) -> u64 {
    c.get(k).copied().unwrap_or(0)
}

fn on_sql(state: &Arc<Mutex<SqlFault>>, name: &str) -> bool {
    let _ = fault::hit(&format!("sql.{}", name));
    let c = fault::counts();
    let mut st = state.lock().unwrap();
    if st.fired {
        return false;
    }
    let here = match st.target {
        SqlTarget::Group { g, ga, .. } => {
            cnt(&c, "batch.group.before") == g && cnt(&c, "batch.group.after") == ga
        }
        SqlTarget::Marks { m, c: cc, .. } => {
            cnt(&c, "batch.before_marks") == m && cnt(&c, "batch.before_commit") == cc
        }
        _ => false,
    };
    if !here {
        return false;
    }
    let j = match st.target {
        SqlTarget::Group { j, .. } | SqlTarget::Marks { j, .. } => j,
        _ => 0,
    };
    st.inner += 1;
    if st.inner == j + 1 {
        st.fired = true;
        if st.abort {
            std::process::abort();
        }
        return true;
    }
    false
}

fn on_commit(state: &Arc<Mutex<SqlFault>>) -> bool {
    let c = fault::counts();
    let mut st = state.lock().unwrap();
    if st.fired {
        return false;
    }
    if let SqlTarget::CommitHook { c: cc } = st.target {
        if cnt(&c, "batch.before_commit") == cc {
            st.fired = true;
            if st.abort {
                std::process::abort();
            }
            return true;
        }
    }
    false
}

fn on_fk(state: &Arc<Mutex<SqlFault>>) -> bool {
    let c = fault::counts();
    let mut st = state.lock().unwrap();
    if st.fired {
        return false;
    }
    if let SqlTarget::CommitFk { g, c: cc } = st.target {
        if cnt(&c, "batch.group.before") > g && cnt(&c, "batch.before_commit") == cc {
            st.fired = true;
            return true;
        }
    }
    false
}

const TRIGGER_TABLES: &[(&str, &[&str])] = &[
    ("_node", &["INSERT", "UPDATE", "DELETE"]),
    ("_edge", &["INSERT", "DELETE"]),
    ("_node_deletion_log", &["INSERT"]),
    ("_edge_deletion_log", &["INSERT"]),
    ("_daily_log", &["INSERT", "UPDATE"]),
    ("_room_changelog", &["INSERT", "UPDATE"]),
    ("_configuration", &["INSERT"]),
];

struct InstallFaults(Arc<Mutex<SqlFault>>);
impl Writeable for InstallFaults {
    fn write(&mut self, conn: &Connection) -> Result<(), rusqlite::Error> {
        let st = self.0.clone();
        conn.create_scalar_function("verif_hit", 1, FunctionFlags::SQLITE_UTF8, move |ctx| {
            let name: String = ctx.get(0)?;
            Ok(on_sql(&st, &name))
        })?;
        let st = self.0.clone();
        conn.create_scalar_function("verif_fk", 0, FunctionFlags::SQLITE_UTF8, move |_ctx| Ok(on_fk(&st)))?;
        conn.execute_batch(
            "CREATE TEMP TABLE IF NOT EXISTS vf_parent(id INTEGER PRIMARY KEY);
             CREATE TEMP TABLE IF NOT EXISTS vf_child(p INTEGER REFERENCES vf_parent(id) DEFERRABLE INITIALLY DEFERRED);",
        )?;
        for (table, ops) in TRIGGER_TABLES {
            for op in *ops {
                let tag = format!("{}.{}", &table[1..], op.to_lowercase());
                conn.execute(
                    &format!(
                        "CREATE TEMP TRIGGER IF NOT EXISTS vf{}_{} BEFORE {} ON {} BEGIN \
                         SELECT RAISE(ABORT, 'verif sql fault') WHERE verif_hit('{}'); \
                         INSERT INTO vf_child(p) SELECT -1 WHERE verif_fk(); END",
                        table,
                        op.to_lowercase(),
                        op,
                        table,
                        tag
                    ),
                    [],
                )?;
            }
        }
        let st = self.0.clone();
        conn.commit_hook(Some(move || on_commit(&st)));
        Ok(())
    }
}

/// holds the writer thread inside its current batch until released
struct Blocker {
    entered: Option<oneshot::Sender<()>>,
    release: std::sync::mpsc::Receiver<()>,
}
impl Writeable for Blocker {
    fn write(&mut self, _conn: &Connection) -> Result<(), rusqlite::Error> {
        if let Some(e) = self.entered.take() {
            let _ = e.send(());
        }
        let _ = self.release.recv_timeout(Duration::from_secs(60));
        Ok(())
    }
}

struct Noop;
impl Writeable for Noop {
    fn write(&mut self, _conn: &Connection) -> Result<(), rusqlite::Error> {
        Ok(())
    }
}

/// the generic `Write` message of the workloads: one row in `_configuration`
struct ConfigWrite(u64);
impl Writeable for ConfigWrite {
    fn write(&mut self, conn: &Connection) -> Result<(), rusqlite::Error> {
        conn.execute(
            "INSERT OR REPLACE INTO _configuration(key, value) VALUES (?, 'x')",
            [format!("dv_wr_{}", self.0)],
        )?;
        Ok(())
    }
}

// ------------------------------------------------------------------------------------------------

/// the reply of one request of a batch
pub enum Reply {
    Mutation(oneshot::Receiver<Result<MutationQuery, DbError>>),
    Stream(mpsc::Receiver<Result<MutationQuery, DbError>>),
    Deletion(oneshot::Receiver<Result<DeletionQuery, DbError>>),
    Uids(oneshot::Receiver<Result<Vec<Uid>, DbError>>),
    Unit(oneshot::Receiver<Result<(), DbError>>),
    Write(oneshot::Receiver<Result<WriteStmt, DbError>>),
    /// no acknowledgement is observable (ComputeDailyLog)
    None,
}

#[derive(Clone, Copy, PartialEq, Eq, Debug)]
pub enum Ack {
    Ok,
    Err,
    /// rejected before reaching the writer (validation) — never expected in the workloads
    Rejected,
    Missing,
    Silent,
}
impl Ack {
    pub fn ch(&self) -> char {
        match self {
            Ack::Ok => 'o',
            Ack::Err => 'e',
            Ack::Rejected => 'r',
            Ack::Missing => '-',
            Ack::Silent => 's',
        }
    }
}

async fn take_reply(r: Reply, wait: Duration) -> (Ack, String) {
    async fn one<T>(r: oneshot::Receiver<Result<T, DbError>>, wait: Duration) -> (Ack, String) {
        match tokio::time::timeout(wait, r).await {
            Ok(Ok(Ok(_))) => (Ack::Ok, String::new()),
            Ok(Ok(Err(e))) => match e {
                DbError::DatabaseWrite(m) => (Ack::Err, m),
                other => (Ack::Rejected, format!("{:?}", other)),
            },
            _ => (Ack::Missing, String::new()),
        }
    }
    match r {
        Reply::Mutation(r) => one(r, wait).await,
        Reply::Deletion(r) => one(r, wait).await,
        Reply::Uids(r) => one(r, wait).await,
        Reply::Unit(r) => one(r, wait).await,
        Reply::Write(r) => one(r, wait).await,
        Reply::Stream(mut r) => match tokio::time::timeout(wait, r.recv()).await {
            Ok(Some(Ok(_))) => (Ack::Ok, String::new()),
            Ok(Some(Err(DbError::DatabaseWrite(m)))) => (Ack::Err, m),
            Ok(Some(Err(other))) => (Ack::Rejected, format!("{:?}", other)),
            _ => (Ack::Missing, String::new()),
        },
        Reply::None => (Ack::Silent, String::new()),
    }
}

/// what a later reader sees (canonical)
#[derive(Default, Clone, Debug, PartialEq, Eq)]
pub struct Dump {
    pub rows: Vec<(u64, u64, i64, String)>, // key, val, day, alt
    pub tombs: Vec<(u64, i64)>,             // key, deletion day
    pub aux: Vec<String>,
    pub log: Vec<(i64, u32, bool)>, // day, entry_number, dirty
    pub stale_hash_days: Vec<i64>,
    pub stale_count_days: Vec<i64>,
}
impl Dump {
    pub fn line(&self) -> String {
        let rows: Vec<String> = self
            .rows
            .iter()
            .map(|(k, v, d, _)| format!("{}:{}:{}", k, v, d))
            .collect();
        let tombs: Vec<String> = self.tombs.iter().map(|(k, d)| format!("{}:{}", k, d)).collect();
        let log: Vec<String> = self
            .log
            .iter()
            .map(|(d, n, dirty)| {
                if *dirty {
                    format!("{}:?", d)
                } else {
                    format!("{}:{}", d, n)
                }
            })
            .collect();
        format!(
            "rows={} tombs={} aux={} log={}",
            rows.join(","),
            tombs.join(","),
            self.aux.join(","),
            log.join(",")
        )
    }
}

pub struct Inst {
    pub svc: GraphDatabaseService,
    pub me: Vec<u8>,
    pub room: Uid,
    /// a second room with the same rights; in the C13 op files a day `100 + d` means "day d of room 2"
    pub room2: Uid,
    pub peer: Ed25519SigningKey,
    pub folder: PathBuf,
    pub secret: [u8; 32],
    pub seq: i64,
    pub sql: Arc<Mutex<SqlFault>>,
    pub ids: HashMap<u64, Uid>,    // key -> id of the row (every row ever seen)
    pub keys: HashMap<Uid, u64>,   // id -> key
    pub entity_short: String,
    pub template_json: String, // _json of row 0 ("k0"/"v0"), used to build peer rows
    pub acklog: Option<PathBuf>,
}

pub fn peer_key() -> Ed25519SigningKey {
    let mut s = [0u8; 32];
    s[0] = 0x50;
    s[31] = 0x11;
    Ed25519SigningKey::create_from(&s)
}

fn idmap_path(folder: &PathBuf) -> PathBuf {
    folder.join("dv_idmap.txt")
}

impl Inst {
    pub async fn start(folder: PathBuf, secret: [u8; 32]) -> Result<Inst, DbError> {
        std::fs::create_dir_all(&folder)?;
        let (svc, me, _private_room) = GraphDatabaseService::start(
            "dv writer",
            DATA_MODEL,
            &secret,
            &[9u8; 32],
            folder.clone(),
            &config(),
            EventService::new(),
        )
        .await?;
        let sql = Arc::new(Mutex::new(SqlFault::default()));
        let mut inst = Inst {
            svc,
            me,
            room: [0u8; 16],
            room2: [0u8; 16],
            peer: peer_key(),
            folder,
            secret,
            seq: 0,
            sql,
            ids: HashMap::new(),
            keys: HashMap::new(),
            entity_short: String::new(),
            template_json: String::new(),
            acklog: None,
        };
        inst.svc
            .db
            .writer
            .write(Box::new(InstallFaults(inst.sql.clone())))
            .await?;
        // side file of a previous life of this folder: room id and key -> id map
        if let Ok(txt) = std::fs::read_to_string(idmap_path(&inst.folder)) {
            // the logical clock of the previous life advanced by one per request: stay ahead of it
            inst.seq = 100_000;
            for l in txt.lines() {
                let t: Vec<&str> = l.split(' ').collect();
                if t.len() == 2 && t[0] == "room" {
                    inst.room = vh::security::uid_decode(t[1]).unwrap();
                } else if t.len() == 2 && t[0] == "room2" {
                    inst.room2 = vh::security::uid_decode(t[1]).unwrap();
                } else if t.len() == 3 && t[0] == "tpl" {
                    inst.entity_short = t[1].to_string();
                    inst.template_json =
                        String::from_utf8(vh::security::base64_decode(t[2].as_bytes()).unwrap()).unwrap();
                } else if t.len() == 3 && t[0] == "id" {
                    let k: u64 = t[1].parse().unwrap();
                    let id = vh::security::uid_decode(t[2]).unwrap();
                    inst.ids.insert(k, id);
                    inst.keys.insert(id, k);
                }
            }
        }
        Ok(inst)
    }

    fn remember(&mut self, line: String) {
        use std::io::Write;
        let mut f = std::fs::OpenOptions::new()
            .create(true)
            .append(true)
            .open(idmap_path(&self.folder))
            .unwrap();
        let _ = writeln!(f, "{}", line);
        let _ = f.flush();
    }

    /// logical time of the next request: day `d`, strictly increasing within the day
    pub fn set_clock(&mut self, day: i64) -> i64 {
        self.seq += 1;
        let t = BASE + day * DAY + 3_600_000 + self.seq;
        vh::clock::set(t);
        t
    }

    pub fn room_of(&self, idx: i64) -> Uid {
        if idx == 0 {
            self.room
        } else {
            self.room2
        }
    }
    pub fn room_idx(&self, r: &Uid) -> i64 {
        if *r == self.room {
            0
        } else if *r == self.room2 {
            1
        } else {
            9
        }
    }

    /// two rooms with two users each (this instance and the peer key), row k0 in room 1, a recompute
    pub async fn setup(&mut self) -> Result<(), String> {
        self.set_clock(0);
        let mut p = Parameters::default();
        p.add("me", base64_encode(&self.me)).unwrap();
        p.add("peer", base64_encode(&self.peer.export_verifying_key())).unwrap();
        let q = self
            .svc
            .mutate_raw(
                r#"mutate {
                sys.Room{
                    admin: [{ verif_key:$me }]
                    authorisations:[{
                        name:"main"
                        rights:[{ entity:"Item" mutate_self:true mutate_all:true }]
                        users:[{ verif_key:$me },{ verif_key:$peer }]
                    }]
                }
            }"#,
                Some(p),
            )
            .await
            .map_err(|e| format!("room creation: {:?}", e))?;
        self.room = q.mutate_entities[0].node_to_mutate.id;
        self.remember(format!("room {}", uid_encode(&self.room)));
        self.set_clock(0);
        let mut p = Parameters::default();
        p.add("me", base64_encode(&self.me)).unwrap();
        p.add("peer", base64_encode(&self.peer.export_verifying_key())).unwrap();
        let q = self
            .svc
            .mutate_raw(
                r#"mutate {
                sys.Room{
                    admin: [{ verif_key:$me }]
                    authorisations:[{
                        name:"second"
                        rights:[{ entity:"Item" mutate_self:true mutate_all:true }]
                        users:[{ verif_key:$me },{ verif_key:$peer }]
                    }]
                }
            }"#,
                Some(p),
            )
            .await
            .map_err(|e| format!("room 2 creation: {:?}", e))?;
        self.room2 = q.mutate_entities[0].node_to_mutate.id;
        self.remember(format!("room2 {}", uid_encode(&self.room2)));
        self.set_clock(0);
        let mut p = Parameters::default();
        p.add("room", uid_encode(&self.room)).unwrap();
        self.svc
            .mutate_raw(
                r#"mutate { Item { room_id:$room key:"k0" val:"v0" } }"#,
                Some(p),
            )
            .await
            .map_err(|e| format!("row 0: {:?}", e))?;
        self.recompute_and_wait().await;
        self.load_template().await;
        if self.template_json.is_empty() {
            return Err("template row not found".into());
        }
        self.remember(format!(
            "tpl {} {}",
            self.entity_short,
            base64_encode(self.template_json.as_bytes())
        ));
        self.dump().await; // learns the id of row 0
        Ok(())
    }

    async fn load_template(&mut self) {
        let room = self.room;
        let res = self
            .read(move |conn| {
                let mut st = conn
                    .prepare("SELECT _entity, _json FROM _node WHERE room_id = ? AND _json LIKE '%\"k0\"%'")
                    .unwrap();
                let mut rows = st.query([room]).unwrap();
                if let Some(r) = rows.next().unwrap() {
                    let e: String = r.get(0).unwrap();
                    let j: String = r.get(1).unwrap();
                    Some((e, j))
                } else {
                    None
                }
            })
            .await;
        if let Some((e, j)) = res {
            self.entity_short = e;
            self.template_json = j;
        }
    }

    /// run a closure on the real reader connection (what any later query sees)
    pub async fn read<T: Send + 'static>(
        &self,
        f: impl FnOnce(&Connection) -> T + Send + 'static,
    ) -> T {
        let (tx, rx) = oneshot::channel::<T>();
        self.svc
            .db
            .reader
            .send_async(Box::new(move |conn| {
                let _ = tx.send(f(conn));
            }))
            .await
            .expect("reader");
        rx.await.expect("reader reply")
    }

    /// a `Write` that does nothing: Ok iff the writer can still run a batch
    pub async fn probe(&self) -> bool {
        let (tx, rx) = oneshot::channel();
        let _ = self
            .svc
            .db
            .writer
            .send(WriteMessage::Write(Box::new(Noop), tx))
            .await;
        matches!(
            tokio::time::timeout(Duration::from_secs(20), rx).await,
            Ok(Ok(Ok(_)))
        )
    }

    /// ComputeDailyLog through the service, then a barrier
    pub async fn recompute_and_wait(&self) -> bool {
        let base = cnt(&fault::counts(), "writer.enqueued");
        self.svc.compute_daily_log().await;
        wait_enqueued(base + 1).await;
        self.probe().await
    }

    // -------------------------------------------------------------------------------- requests

    fn item_json(&self, key: u64, val: u64) -> String {
        self.template_json
            .replace("\"k0\"", &format!("\"k{}\"", key))
            .replace("\"v0\"", &format!("\"v{}\"", val))
    }

    /// issue one request of the workload; returns its reply handle. `tok` is one message token of the op file.
    pub async fn issue(&mut self, tok: &str) -> Result<Reply, String> {
        let parts: Vec<&str> = tok.split('.').collect();
        let kind = parts[0];
        match kind {
            "pm" | "ps" => {
                let day: i64 = parts[1].parse().map_err(|_| "day")?;
                self.set_clock(day % 100);
                let mut text = String::from("mutate {\n");
                let mut p = Parameters::default();
                p.add("room", uid_encode(&self.room_of(day / 100))).unwrap();
                for (n, kv) in parts[2].split('+').enumerate() {
                    let (k, v) = kv.split_once('-').ok_or("kv")?;
                    let k: u64 = k.parse().map_err(|_| "key")?;
                    let v: u64 = v.parse().map_err(|_| "val")?;
                    match self.ids.get(&k) {
                        Some(id) => {
                            p.add(&format!("id{}", n), uid_encode(id)).unwrap();
                            text.push_str(&format!(
                                "  a{}: Item {{ id:$id{} room_id:$room val:\"v{}\" }}\n",
                                n, n, v
                            ));
                        }
                        None => text.push_str(&format!(
                            "  a{}: Item {{ room_id:$room key:\"k{}\" val:\"v{}\" }}\n",
                            n, k, v
                        )),
                    }
                }
                text.push('}');
                if kind == "pm" {
                    let (tx, rx) = oneshot::channel();
                    let _ = self.svc.sender.send(DbMessage::Mutate(text, p, tx)).await;
                    Ok(Reply::Mutation(rx))
                } else {
                    let (tx, rx) = mpsc::channel(2);
                    let _ = self
                        .svc
                        .sender
                        .send(DbMessage::MutateStream(text, p, tx))
                        .await;
                    Ok(Reply::Stream(rx))
                }
            }
            "pn" => {
                // rows written by the peer, received through synchronisation
                let day: i64 = parts[1].parse().map_err(|_| "day")?;
                let t = self.set_clock(day % 100);
                let room = self.room_of(day / 100);
                let mut nodes = vec![];
                for kv in parts[2].split('+') {
                    let (k, v) = kv.split_once('-').ok_or("kv")?;
                    let k: u64 = k.parse().map_err(|_| "key")?;
                    let v: u64 = v.parse().map_err(|_| "val")?;
                    let mut id = [0u8; 16];
                    id[..8].copy_from_slice(&k.to_be_bytes());
                    id[8] = 0xEE;
                    id[15] = 1;
                    let mut node = Node {
                        id,
                        room_id: Some(room),
                        cdate: t,
                        mdate: t,
                        _entity: self.entity_short.clone(),
                        _json: Some(self.item_json(k, v)),
                        ..Default::default()
                    };
                    node.sign(&self.peer).map_err(|e| format!("{:?}", e))?;
                    nodes.push(NodeToInsert {
                        id,
                        node: Some(node),
                        index: false,
                        ..Default::default()
                    });
                }
                let (tx, rx) = oneshot::channel();
                let _ = self
                    .svc
                    .sender
                    .send(DbMessage::AddNodes(room, nodes, tx))
                    .await;
                Ok(Reply::Uids(rx))
            }
            "dl" => {
                let day: i64 = parts[1].parse().map_err(|_| "day")?;
                self.set_clock(day % 100);
                let mut text = String::from("delete {\n");
                let mut p = Parameters::default();
                for (n, k) in parts[2].split('+').enumerate() {
                    let k: u64 = k.parse().map_err(|_| "key")?;
                    let id = self.ids.get(&k).ok_or("unknown key")?;
                    p.add(&format!("id{}", n), uid_encode(id)).unwrap();
                    text.push_str(&format!("  Item {{ $id{} }}\n", n));
                }
                text.push('}');
                let (tx, rx) = oneshot::channel();
                let _ = self.svc.sender.send(DbMessage::Delete(text, p, tx)).await;
                Ok(Reply::Deletion(rx))
            }
            "dn" => {
                // deletion records signed by the peer, received through synchronisation
                let day: i64 = parts[1].parse().map_err(|_| "day")?;
                let t = self.set_clock(day % 100);
                let mut entries = vec![];
                for k in parts[2].split('+') {
                    let k: u64 = k.parse().map_err(|_| "key")?;
                    let id = *self.ids.get(&k).ok_or("unknown key")?;
                    let (r1, r2) = (self.room, self.room2);
                    let ent = self.entity_short.clone();
                    let node = self
                        .read(move |conn| {
                            Node::get_in_room(&id, &r1, &ent, conn)
                                .ok()
                                .flatten()
                                .or_else(|| Node::get_in_room(&id, &r2, &ent, conn).ok().flatten())
                        })
                        .await
                        .ok_or("row to delete not found")?;
                    let room = node.room_id.ok_or("row without a room")?;
                    entries.push(NodeDeletionEntry::build(room, &node, t, &self.peer));
                }
                let (tx, rx) = oneshot::channel();
                let _ = self
                    .svc
                    .sender
                    .send(DbMessage::DeleteNodes(entries, tx))
                    .await;
                Ok(Reply::Unit(rx))
            }
            "ed" => {
                let (a, b) = parts[1].split_once('-').ok_or("edge")?;
                let a: u64 = a.parse().map_err(|_| "key")?;
                let b: u64 = b.parse().map_err(|_| "key")?;
                let t = self.set_clock(0);
                let mut e = Edge {
                    src: *self.ids.get(&a).ok_or("unknown key")?,
                    src_entity: self.entity_short.clone(),
                    label: self.parents_label(),
                    dest: *self.ids.get(&b).ok_or("unknown key")?,
                    cdate: t,
                    ..Default::default()
                };
                e.sign(&self.peer).map_err(|e| format!("{:?}", e))?;
                let (tx, rx) = oneshot::channel();
                let _ = self
                    .svc
                    .sender
                    .send(DbMessage::AddEdges(self.room, vec![e], tx))
                    .await;
                Ok(Reply::Uids(rx))
            }
            "rm" | "rs" => {
                let id: u64 = parts[1].parse().map_err(|_| "id")?;
                self.set_clock(0);
                let mut p = Parameters::default();
                p.add("me", base64_encode(&self.me)).unwrap();
                let text = format!(
                    r#"mutate {{
                    sys.Room{{
                        admin: [{{ verif_key:$me }}]
                        authorisations:[{{
                            name:"rm{}"
                            rights:[{{ entity:"Item" mutate_self:true mutate_all:true }}]
                            users:[{{ verif_key:$me }}]
                        }}]
                    }}
                }}"#,
                    id
                );
                if kind == "rs" {
                    let (tx, rx) = mpsc::channel(2);
                    let _ = self
                        .svc
                        .sender
                        .send(DbMessage::MutateStream(text, p, tx))
                        .await;
                    return Ok(Reply::Stream(rx));
                }
                let (tx, rx) = oneshot::channel();
                let _ = self.svc.sender.send(DbMessage::Mutate(text, p, tx)).await;
                Ok(Reply::Mutation(rx))
            }
            "wr" => {
                let id: u64 = parts[1].parse().map_err(|_| "id")?;
                let (tx, rx) = oneshot::channel();
                let _ = self
                    .svc
                    .db
                    .writer
                    .send(WriteMessage::Write(Box::new(ConfigWrite(id)), tx))
                    .await;
                Ok(Reply::Write(rx))
            }
            "rc" => {
                self.svc.compute_daily_log().await;
                Ok(Reply::None)
            }
            _ => Err(format!("unknown message kind {}", kind)),
        }
    }

    fn parents_label(&self) -> String {
        // short name of the field `parents`: the 4th declared field; read from the data model is not possible
        // from outside, so it is recovered from the template row's json key order (key, val) + declaration order.
        // The label only has to be a stable string for the edge table.
        "35".to_string()
    }

    // -------------------------------------------------------------------------------- batches

    /// Make `toks` land in one batch of the real writer, with an optional fault, and collect the acks.
    pub async fn batch(&mut self, toks: &[&str], fault_spec: &FaultSpec) -> Result<BatchResult, String> {
        let wait = Duration::from_secs(20);
        if !self.probe().await {
            // the writer cannot run a batch any more: every request fails on its own
            let mut replies = vec![];
            for tok in toks {
                replies.push(self.issue(tok).await?);
            }
            let mut acks = vec![];
            let mut errors = vec![];
            for (i, r) in replies.into_iter().enumerate() {
                let (a, m) = take_reply(r, wait).await;
                self.log_ack(i, a);
                if !m.is_empty() {
                    errors.push(m);
                }
                acks.push(a);
            }
            return Ok(BatchResult {
                acks,
                fired: false,
                one_batch: false,
                wedged_before: true,
                errors,
            });
        }
        // 1. hold the writer thread inside a batch of its own
        let (etx, erx) = oneshot::channel::<()>();
        let (rtx, rrx) = std::sync::mpsc::channel();
        let (btx, brx) = oneshot::channel();
        let _ = self
            .svc
            .db
            .writer
            .send(WriteMessage::Write(
                Box::new(Blocker {
                    entered: Some(etx),
                    release: rrx,
                }),
                btx,
            ))
            .await;
        if tokio::time::timeout(wait, erx).await.is_err() {
            let _ = rtx.send(());
            return Err("the writer did not take the blocker".into());
        }
        // 2. queue the requests one at a time; each one is waited for in the write buffer
        let mut replies = vec![];
        let mut early: Vec<Option<(Ack, String)>> = vec![];
        for tok in toks {
            let base = cnt(&fault::counts(), "writer.enqueued");
            let mut reply = self.issue(tok).await?;
            let mut state = None;
            for _ in 0..100_000 {
                if cnt(&fault::counts(), "writer.enqueued") > base {
                    state = Some(None);
                    break;
                }
                if let Some(r) = try_early(&mut reply) {
                    state = Some(Some(r));
                    break;
                }
                tokio::time::sleep(Duration::from_micros(100)).await;
            }
            match state {
                Some(e) => early.push(e),
                None => {
                    let _ = rtx.send(());
                    return Err(format!("request {} never reached the write buffer", tok));
                }
            }
            replies.push(reply);
        }
        // 3. arm the fault relative to the current counters (the blocker's batch is still open:
        //    it has passed before_begin and its group.before, nothing else)
        let c = fault::counts();
        {
            let mut st = self.sql.lock().unwrap();
            *st = SqlFault::default();
            st.abort = fault_spec.abort;
            st.target = match fault_spec.point {
                Point::Stmt(i, j) => SqlTarget::Group {
                    g: cnt(&c, "batch.group.before") + 1 + i,
                    ga: cnt(&c, "batch.group.after") + 1 + i,
                    j,
                },
                Point::SqlMarks(j) => SqlTarget::Marks {
                    m: cnt(&c, "batch.before_marks") + 2,
                    c: cnt(&c, "batch.before_commit") + 1,
                    j,
                },
                Point::CommitHook => SqlTarget::CommitHook {
                    c: cnt(&c, "batch.before_commit") + 2,
                },
                Point::Commit if !fault_spec.abort => SqlTarget::CommitFk {
                    g: cnt(&c, "batch.group.before"),
                    c: cnt(&c, "batch.before_commit") + 1,
                },
                _ => SqlTarget::None,
            };
        }
        let action = if fault_spec.abort {
            fault::Action::Abort
        } else {
            fault::Action::Fail
        };
        match fault_spec.point {
            Point::Begin => fault::arm("batch.before_begin", cnt(&c, "batch.before_begin") + 1, action),
            // statement error of the marks write: injected inside DailyMutations::write (real error path of the caller);
            // crash: the point before the marks write
            Point::Marks if !fault_spec.abort => fault::arm("marks.write", cnt(&c, "marks.write") + 2, action),
            Point::Marks => fault::arm("batch.before_marks", cnt(&c, "batch.before_marks") + 2, action),
            // a failing COMMIT is a real one (deferred foreign key, see CommitFk); crash: the point before COMMIT
            Point::Commit if fault_spec.abort => {
                fault::arm("batch.before_commit", cnt(&c, "batch.before_commit") + 2, action)
            }
            Point::GroupBefore(i) => {
                fault::arm("batch.group.before", cnt(&c, "batch.group.before") + 1 + i, action)
            }
            Point::GroupAfter(i) => {
                fault::arm("batch.group.after", cnt(&c, "batch.group.after") + 2 + i, action)
            }
            Point::AfterCommit => fault::arm("batch.after_commit", cnt(&c, "batch.after_commit") + 2, action),
            Point::Ack => fault::arm("batch.before_ack", cnt(&c, "batch.before_ack") + 2, action),
            _ => fault::disarm(),
        }
        let begin0 = cnt(&c, "batch.before_begin");
        let ack0 = cnt(&c, "batch.before_ack");
        let queued = early.iter().filter(|e| e.is_none()).count();
        // 4. release and collect the acknowledgements as they come
        let _ = rtx.send(());
        let _ = tokio::time::timeout(wait, brx).await;
        let mut acks = vec![];
        let mut errors = vec![];
        for (i, (r, e)) in replies.into_iter().zip(early.into_iter()).enumerate() {
            let (a, m) = match e {
                Some(x) => x,
                None => take_reply(r, wait).await,
            };
            self.log_ack(i, a);
            if !m.is_empty() {
                errors.push(m);
            }
            acks.push(a);
        }
        // wait until the batch is over (a recompute has no observable acknowledgement)
        if queued > 0 {
            for _ in 0..100_000 {
                if cnt(&fault::counts(), "batch.before_ack") >= ack0 + 2 {
                    break;
                }
                tokio::time::sleep(Duration::from_micros(100)).await;
            }
        }
        fault::disarm();
        let mut fired = {
            let mut st = self.sql.lock().unwrap();
            st.target = SqlTarget::None;
            st.fired
        };
        // a fault of the repo-side facility fired iff the point is no longer armed and the batch failed;
        // the trace is the reference
        // the repo-side points: the fault fired iff the batch stopped right there (the next point was not reached)
        {
            let c2 = fault::counts();
            if fault_spec.point == Point::Begin {
                fired = cnt(&c2, "batch.group.before") == cnt(&c, "batch.group.before");
            }
            if fault_spec.point == Point::Marks && !fault_spec.abort {
                fired = cnt(&c2, "batch.before_commit") == cnt(&c, "batch.before_commit") + 1;
            }
        }
        if fault_spec.point == Point::Commit && !fault_spec.abort {
            // the violation was planted and the batch did not get past its COMMIT
            let c2 = fault::counts();
            fired = fired && cnt(&c2, "batch.after_commit") == cnt(&c, "batch.after_commit") + 1;
        }
        let c2 = fault::counts();
        let batches = cnt(&c2, "batch.before_begin") - begin0;
        Ok(BatchResult {
            acks,
            fired,
            one_batch: queued == 0 || batches == 1,
            wedged_before: false,
            errors,
        })
    }

    fn log_ack(&self, i: usize, a: Ack) {
        if a == Ack::Silent {
            return; // not an acknowledgement: the request has no observable reply
        }
        if let Some(p) = &self.acklog {
            use std::io::Write;
            if let Ok(mut f) = std::fs::OpenOptions::new().create(true).append(true).open(p) {
                let _ = writeln!(f, "{} {}", i, a.ch());
                let _ = f.flush();
            }
        }
    }

    // -------------------------------------------------------------------------------- dumps

    pub async fn dump(&mut self) -> Dump {
        let (room1, room2) = (self.room, self.room2);
        let ent = self.entity_short.clone();
        type RowT = (Uid, Option<Uid>, String, i64);
        let (rows, tombs, edges, confs, rooms, log, sigs) = self
            .read(move |conn| {
                let mut rows: Vec<RowT> = vec![];
                let mut st = conn
                    .prepare("SELECT id, room_id, _json, mdate FROM _node WHERE _entity = ? AND room_id IN (?, ?)")
                    .unwrap();
                let mut q = st.query((&ent, room1, room2)).unwrap();
                while let Some(r) = q.next().unwrap() {
                    rows.push((
                        r.get(0).unwrap(),
                        r.get(1).unwrap(),
                        r.get::<_, Option<String>>(2).unwrap().unwrap_or_default(),
                        r.get(3).unwrap(),
                    ));
                }
                let mut tombs: Vec<(Uid, i64, Uid)> = vec![];
                let mut st = conn
                    .prepare("SELECT id, deletion_date, room_id FROM _node_deletion_log WHERE room_id IN (?, ?)")
                    .unwrap();
                let mut q = st.query((room1, room2)).unwrap();
                while let Some(r) = q.next().unwrap() {
                    tombs.push((r.get(0).unwrap(), r.get(1).unwrap(), r.get(2).unwrap()));
                }
                let mut edges: Vec<(Uid, Uid)> = vec![];
                let mut st = conn.prepare("SELECT src, dest FROM _edge WHERE src_entity = ?").unwrap();
                let mut q = st.query([&ent]).unwrap();
                while let Some(r) = q.next().unwrap() {
                    edges.push((r.get(0).unwrap(), r.get(1).unwrap()));
                }
                let mut confs: Vec<String> = vec![];
                let mut st = conn
                    .prepare("SELECT key FROM _configuration WHERE key LIKE 'dv_wr_%'")
                    .unwrap();
                let mut q = st.query([]).unwrap();
                while let Some(r) = q.next().unwrap() {
                    confs.push(r.get(0).unwrap());
                }
                let mut rooms: Vec<String> = vec![];
                let mut st = conn
                    .prepare("SELECT _json FROM _node WHERE _json LIKE '%\"rm%'")
                    .unwrap();
                let mut q = st.query([]).unwrap();
                while let Some(r) = q.next().unwrap() {
                    rooms.push(r.get(0).unwrap());
                }
                let mut log: Vec<(Uid, i64, u32, bool, Option<Vec<u8>>)> = vec![];
                let mut st = conn
                    .prepare(
                        "SELECT room_id, date, entry_number, need_recompute, daily_hash FROM _daily_log \
                         WHERE room_id IN (?, ?) AND entity = ? ORDER BY room_id, date",
                    )
                    .unwrap();
                let mut q = st.query((room1, room2, &ent)).unwrap();
                while let Some(r) = q.next().unwrap() {
                    log.push((
                        r.get(0).unwrap(),
                        r.get(1).unwrap(),
                        r.get(2).unwrap(),
                        r.get::<_, Option<bool>>(3).unwrap().unwrap_or(false),
                        r.get(4).unwrap(),
                    ));
                }
                // from-scratch content of every (room, day): signatures of rows, row tombstones, reference tombstones
                let mut sigs: Vec<(Uid, i64, Vec<u8>)> = vec![];
                for sql in [
                    "SELECT room_id, mdate, _signature FROM _node WHERE room_id IN (?1, ?2) AND _entity = ?3",
                    "SELECT room_id, deletion_date, signature FROM _node_deletion_log WHERE room_id IN (?1, ?2) AND entity = ?3",
                    "SELECT room_id, deletion_date, signature FROM _edge_deletion_log WHERE room_id IN (?1, ?2) AND src_entity = ?3",
                ] {
                    let mut st = conn.prepare(sql).unwrap();
                    let mut q = st.query((room1, room2, &ent)).unwrap();
                    while let Some(r) = q.next().unwrap() {
                        sigs.push((r.get(0).unwrap(), r.get(1).unwrap(), r.get(2).unwrap()));
                    }
                }
                (rows, tombs, edges, confs, rooms, log, sigs)
            })
            .await;
        // a log key of the op files: 100 * (room index) + day
        let key_of = |room: &Uid, t: i64| -> i64 { self.room_idx(room) * 100 + day_of(t) };
        let mut d = Dump::default();
        let mut learned: Vec<(u64, Uid)> = vec![];
        for (id, room, json, mdate) in rows {
            let v: serde_json::Value = serde_json::from_str(&json).unwrap_or(serde_json::Value::Null);
            let (mut k, mut val, mut alt) = (u64::MAX, u64::MAX, String::new());
            if let Some(o) = v.as_object() {
                for x in o.values() {
                    if let Some(s) = x.as_str() {
                        if let Some(n) = s.strip_prefix('k').and_then(|t| t.parse().ok()) {
                            k = n;
                        } else if let Some(n) = s.strip_prefix('v').and_then(|t| t.parse().ok()) {
                            val = n;
                        } else if s.starts_with('a') {
                            alt = s.to_string();
                        }
                    }
                }
            }
            if !self.ids.contains_key(&k) || self.ids[&k] != id {
                learned.push((k, id));
            }
            d.rows.push((k, val, key_of(&room.unwrap_or([0u8; 16]), mdate), alt));
        }
        d.rows.sort();
        for (id, dd, room) in &tombs {
            d.tombs.push((
                self.keys
                    .get(id)
                    .copied()
                    .or_else(|| learned.iter().find(|x| x.1 == *id).map(|x| x.0))
                    .unwrap_or(u64::MAX),
                key_of(room, *dd),
            ));
        }
        d.tombs.sort();
        let mut by_day: BTreeMap<i64, Vec<Vec<u8>>> = BTreeMap::new();
        for (room, t, s) in sigs {
            by_day.entry(key_of(&room, t)).or_default().push(s);
        }
        let log: Vec<(i64, u32, bool, Option<Vec<u8>>)> = log
            .into_iter()
            .map(|(room, date, n, dirty, hash)| (key_of(&room, date), n, dirty, hash))
            .collect();
        for (k, id) in learned {
            self.ids.insert(k, id);
            self.keys.insert(id, k);
            self.remember(format!("id {} {}", k, uid_encode(&id)));
        }
        for (s, t) in edges {
            d.aux.push(format!(
                "e{}-{}",
                self.keys.get(&s).copied().unwrap_or(u64::MAX),
                self.keys.get(&t).copied().unwrap_or(u64::MAX)
            ));
        }
        for c in confs {
            d.aux.push(format!("w{}", c.trim_start_matches("dv_wr_")));
        }
        for j in rooms {
            if let Some(p) = j.find("\"rm") {
                let n: String = j[p + 3..].chars().take_while(|c| c.is_ascii_digit()).collect();
                d.aux.push(format!("r{}", n));
            }
        }
        d.aux.sort();
        let mut log = log;
        log.sort_by_key(|x| x.0);
        for (dd, n, dirty, hash) in log {
            d.log.push((dd, n, dirty));
            if !dirty {
                let mut sg = by_day.get(&dd).cloned().unwrap_or_default();
                sg.sort();
                if sg.len() as u32 != n {
                    d.stale_count_days.push(dd);
                }
                let fresh = if sg.is_empty() {
                    None
                } else {
                    let mut h = blake3::Hasher::new();
                    for s in &sg {
                        h.update(s);
                    }
                    Some(h.finalize().as_bytes().to_vec())
                };
                if fresh != hash {
                    d.stale_hash_days.push(dd);
                }
            }
        }
        // days with content but no log row at all
        for (dd, sg) in &by_day {
            if !sg.is_empty() && !d.log.iter().any(|(x, _, _)| x == dd) {
                d.stale_count_days.push(*dd);
            }
        }
        d
    }
}

fn try_early(r: &mut Reply) -> Option<(Ack, String)> {
    fn cls<T>(x: Result<T, DbError>) -> (Ack, String) {
        match x {
            Ok(_) => (Ack::Ok, String::new()),
            Err(DbError::DatabaseWrite(m)) => (Ack::Err, m),
            Err(o) => (Ack::Rejected, format!("{:?}", o)),
        }
    }
    match r {
        Reply::Mutation(rx) => rx.try_recv().ok().map(cls),
        Reply::Deletion(rx) => rx.try_recv().ok().map(cls),
        Reply::Uids(rx) => rx.try_recv().ok().map(cls),
        Reply::Unit(rx) => rx.try_recv().ok().map(cls),
        Reply::Write(rx) => rx.try_recv().ok().map(cls),
        Reply::Stream(rx) => rx.try_recv().ok().map(cls),
        Reply::None => None,
    }
}

pub async fn wait_enqueued(target: u64) -> bool {
    for _ in 0..50_000 {
        if cnt(&fault::counts(), "writer.enqueued") >= target {
            return true;
        }
        tokio::time::sleep(Duration::from_micros(200)).await;
    }
    false
}

/// the writer thread held inside a batch of its own (see `Inst::hold`)
pub struct Hold {
    rtx: std::sync::mpsc::Sender<()>,
    brx: oneshot::Receiver<Result<WriteStmt, DbError>>,
}
impl Hold {
    pub async fn release(self) {
        let _ = self.rtx.send(());
        let _ = tokio::time::timeout(Duration::from_secs(20), self.brx).await;
    }
}
impl Inst {
    /// holds the writer thread: requests validated from now on accumulate in the write buffer and are
    /// written in ONE batch, in their order of arrival, when the hold is released
    pub async fn hold(&self) -> Result<Hold, String> {
        let (etx, erx) = oneshot::channel::<()>();
        let (rtx, rrx) = std::sync::mpsc::channel();
        let (btx, brx) = oneshot::channel();
        let _ = self
            .svc
            .db
            .writer
            .send(WriteMessage::Write(
                Box::new(Blocker {
                    entered: Some(etx),
                    release: rrx,
                }),
                btx,
            ))
            .await;
        if tokio::time::timeout(Duration::from_secs(20), erx).await.is_err() {
            let _ = rtx.send(());
            return Err("the writer did not take the blocker".into());
        }
        Ok(Hold { rtx, brx })
    }
}

pub fn enqueued() -> u64 {
    cnt(&fault::counts(), "writer.enqueued")
}

#[derive(Clone, Copy, Debug, PartialEq, Eq)]
pub enum Point {
    None,
    Begin,
    GroupBefore(u64),
    GroupAfter(u64),
    Stmt(u64, u64),
    Marks,
    SqlMarks(u64),
    Commit,
    CommitHook,
    AfterCommit,
    Ack,
}

#[derive(Clone, Copy, Debug)]
pub struct FaultSpec {
    pub point: Point,
    pub abort: bool,
}

pub fn parse_point(s: &str) -> Option<Point> {
    let t: Vec<&str> = s.split('.').collect();
    let n = |i: usize| t.get(i).and_then(|x| x.parse::<u64>().ok());
    Some(match t[0] {
        "none" => Point::None,
        "begin" => Point::Begin,
        "gb" => Point::GroupBefore(n(1)?),
        "ga" => Point::GroupAfter(n(1)?),
        "stmt" => Point::Stmt(n(1)?, n(2)?),
        "marks" => Point::Marks,
        "sqlmarks" => Point::SqlMarks(n(1)?),
        "commit" => Point::Commit,
        "commithook" => Point::CommitHook,
        "acommit" => Point::AfterCommit,
        "ack" => Point::Ack,
        _ => return None,
    })
}

pub struct BatchResult {
    pub acks: Vec<Ack>,
    pub fired: bool,
    pub one_batch: bool,
    pub wedged_before: bool,
    pub errors: Vec<String>,
}
