//! Engine `writer` (C13, C16): drives the REAL batch writer of discret.
//!
//!   dv-writer enum --tier quick|thorough --out FILE --work DIR     exhaustive fault/crash points of the fixed workloads (C13)
//!   dv-writer gen  --seed S --n N --out FILE                       random workloads with one random fault (C13)
//!   dv-writer run  --ops FILE --out FILE [--stats FILE] [--work DIR]
//!   dv-writer child …                                              (internal) runs a case prefix and is killed at a crash point
//!   dv-writer enum16 / gen16 / run (C16 cases start with `case … prop=c16`)      see c16.rs
//!
//! C13 op file (shared with the Lean driver `dmodel_writer`):
//!   case id=<n>
//!   (a day `100 + d` in a message means day d of the SECOND room: an update naming it moves the row there)
//!   batch msgs=<m>,<m>,… [fault=<point>] [crash=<point>]
//!   recompute
//! messages:  pm.<day>.<k>-<v>+<k>-<v>…   one local mutation writing the listed rows (insert or update by key)
//!            ps.…                         the same through the mutation stream
//!            pn.<day>.<k>-<v>+…          rows signed by the peer, written through add_nodes (synchronised batch)
//!            dl.<day>.<k>+<k>…           local deletion        dn.<day>.<k>+…   deletion records signed by the peer
//!            ed.<k>-<k>                   reference signed by the peer (add_edges)
//!            rm.<id>  new room (rs.<id>: through the mutation stream)     wr.<id>  generic write       rc  daily-log recomputation
//! points:    begin | stmt.<i>.<j> | marks | sqlmarks.<j> | commit | commithook        (fault=: statement error)
//!            gb.<i> | ga.<i> | stmt.<i>.<j> | marks | sqlmarks.<j> | commit | acommit | ack   (crash=: process abort)
//! observation of a batch / recompute line:
//!   acks=<o|e|-|s per message> rows=<k>:<v>:<day>,… tombs=<k>:<day>,… aux=… log=<day>:<n|?>,… wedged=<0|1>
mod c16;
mod inst;

use dvcommon::{parse_kv, Args, Gen, Stats};
use inst::*;
use std::io::Write;
use std::path::{Path, PathBuf};

pub fn rt() -> tokio::runtime::Runtime {
    tokio::runtime::Builder::new_multi_thread()
        .worker_threads(2)
        .enable_all()
        .build()
        .unwrap()
}

pub struct CaseOut {
    pub lines: Vec<String>,
    pub oracle: Vec<(String, String)>,
}

fn state_line(acks: Option<&str>, d: &Dump, wedged: bool, extra: &str) -> String {
    let mut s = String::new();
    if let Some(a) = acks {
        s.push_str(&format!("acks={} ", a));
    }
    s.push_str(&d.line());
    s.push_str(&format!(" wedged={}", if wedged { 1 } else { 0 }));
    s.push_str(extra);
    s
}

fn dump_oracle(d: &Dump, out: &mut Vec<(String, String)>, at: &str) {
    for day in &d.stale_hash_days {
        out.push((
            "daily-hash-stale".into(),
            format!("day {} is not marked but its stored daily hash differs from the from-scratch hash ({})", day, at),
        ));
    }
    for day in &d.stale_count_days {
        out.push((
            "daily-count-stale".into(),
            format!("day {} is not marked but its entry count differs from the stored content ({})", day, at),
        ));
    }
}

/// executes the C13 lines `lines[from..]` of one case on `inst`; a line with `crash=` only when `child` is set
async fn run_lines(
    inst: &mut Inst,
    lines: &[String],
    from: usize,
    upto: usize,
    child: bool,
    out: &mut dyn FnMut(String),
    oracle: &mut Vec<(String, String)>,
    stats: &mut Stats,
) {
    for (li, line) in lines.iter().enumerate().take(upto).skip(from) {
        let (kind, kv) = parse_kv(line);
        match kind.as_str() {
            "batch" => {
                let msgs = kv.get("msgs").cloned().unwrap_or_default();
                let toks: Vec<&str> = msgs.split(',').filter(|s| !s.is_empty()).collect();
                let spec = if let Some(p) = kv.get("fault") {
                    parse_point(p).map(|point| FaultSpec { point, abort: false })
                } else if let Some(p) = kv.get("crash") {
                    if !child {
                        out("bad-op crash-outside-child".into());
                        continue;
                    }
                    parse_point(p).map(|point| FaultSpec { point, abort: true })
                } else {
                    Some(FaultSpec {
                        point: Point::None,
                        abort: false,
                    })
                };
                let spec = match spec {
                    Some(s) if !toks.is_empty() => s,
                    _ => {
                        out("bad-op".into());
                        continue;
                    }
                };
                for t in &toks {
                    stats.inc(&format!("msg.{}", t.split('.').next().unwrap_or("")));
                }
                stats.inc(&format!("batch.size.{}", toks.len()));
                match inst.batch(&toks, &spec).await {
                    Ok(r) => {
                        let acks: String = r.acks.iter().map(|a| a.ch()).collect();
                        let wedged = !inst.probe().await;
                        let d = inst.dump().await;
                        dump_oracle(&d, oracle, &format!("after line {}", li));
                        let mut extra = String::new();
                        if spec.point != Point::None && !r.fired && !r.wedged_before {
                            extra.push_str(" notfired");
                        }
                        if !r.one_batch && !r.wedged_before {
                            extra.push_str(" harness-error=not-one-batch");
                        }
                        if spec.point != Point::None {
                            stats.inc(&format!(
                                "{}.{}",
                                if spec.abort { "crash" } else { "fault" },
                                kv.get("fault").or(kv.get("crash")).unwrap().split('.').next().unwrap()
                            ));
                        }
                        if wedged {
                            stats.inc("wedged");
                        }
                        if let Some(m) = r.errors.first() {
                            stats.sample(serde_json::json!({"line": line, "first_error": m}));
                        }
                        out(state_line(Some(&acks), &d, wedged, &extra));
                    }
                    Err(e) => out(format!("harness-error {}", e.replace(' ', "_"))),
                }
            }
            "recompute" => {
                let ok = inst.recompute_and_wait().await;
                let d = inst.dump().await;
                dump_oracle(&d, oracle, &format!("after line {}", li));
                stats.inc("recompute");
                out(state_line(None, &d, !ok, ""));
            }
            _ => out("bad-op".into()),
        }
    }
}

fn case_dir(work: &Path, n: usize) -> PathBuf {
    work.join(format!("dvw_{}_{}", std::process::id(), n))
}

/// one C13 case: in-process, except that a case with a `crash=` line runs its prefix in a child process
fn run_case13(lines: &[String], work: &Path, n: usize, stats: &mut Stats) -> CaseOut {
    let dir = case_dir(work, n);
    let _ = std::fs::remove_dir_all(&dir);
    std::fs::create_dir_all(&dir).unwrap();
    let mut res = CaseOut {
        lines: vec![],
        oracle: vec![],
    };
    let (_, kv) = parse_kv(&lines[0]);
    let id = kv.get("id").cloned().unwrap_or_default();
    if kv.get("id").and_then(|v| v.parse::<u64>().ok()).is_none() {
        res.lines = lines.iter().map(|_| "bad-op".to_string()).collect();
        return res;
    }
    res.lines.push(format!("case {}", id));
    let crash_at = lines.iter().position(|l| l.starts_with("batch ") && l.contains(" crash="));
    let secret = secret_of(n as u64 + 1);
    let mut from = 1;
    let mut crashed_acks: Option<String> = None;
    if let Some(ci) = crash_at {
        // child: lines[1..=ci]
        let ops = dir.join("child.ops");
        std::fs::write(&ops, lines.join("\n") + "\n").unwrap();
        let obs = dir.join("child.obs");
        let acks = dir.join("child.acks");
        let st = std::process::Command::new(std::env::current_exe().unwrap())
            .args([
                "child",
                "--dir",
                dir.join("db").to_str().unwrap(),
                "--ops",
                ops.to_str().unwrap(),
                "--upto",
                &format!("{}", ci + 1),
                "--out",
                obs.to_str().unwrap(),
                "--acks",
                acks.to_str().unwrap(),
                "--secret",
                &format!("{}", n + 1),
            ])
            .stdout(std::process::Stdio::null())
            .stderr(std::process::Stdio::null())
            .status();
        let child_lines: Vec<String> = std::fs::read_to_string(&obs)
            .unwrap_or_default()
            .lines()
            .map(|s| s.to_string())
            .collect();
        let died = match &st {
            Ok(s) => !s.success(),
            Err(_) => false,
        };
        stats.inc(if died { "child.killed" } else { "child.survived" });
        if !died {
            // the crash point was never reached: the child wrote every line itself
            res.lines.extend(child_lines.into_iter().take(ci));
            while res.lines.len() <= ci {
                res.lines.push("harness-error child-lost-lines".into());
            }
            let l = res.lines.len() - 1;
            res.lines[l].push_str(" crash-not-fired");
            from = ci + 1;
        } else {
            res.lines.extend(child_lines.into_iter().take(ci - 1));
            while res.lines.len() < ci {
                res.lines.push("harness-error child-lost-lines".into());
            }
            let (_, ckv) = parse_kv(&lines[ci]);
            let nmsg = ckv.get("msgs").map(|m| m.split(',').count()).unwrap_or(0);
            let mut a = vec!['-'; nmsg];
            for l in std::fs::read_to_string(&acks).unwrap_or_default().lines() {
                let t: Vec<&str> = l.split(' ').collect();
                if t.len() == 2 {
                    if let (Ok(i), Some(c)) = (t[0].parse::<usize>(), t[1].chars().next()) {
                        if i < nmsg {
                            a[i] = c;
                        }
                    }
                }
            }
            crashed_acks = Some(a.into_iter().collect());
            from = ci; // the crash line itself is observed after the restart
        }
    }
    let r = rt();
    r.block_on(async {
        let mut inst = match Inst::start(dir.join("db"), secret).await {
            Ok(i) => i,
            Err(e) => {
                while res.lines.len() < lines.len() {
                    res.lines.push(format!("harness-error start:{:?}", e).replace(' ', "_"));
                }
                return;
            }
        };
        if crash_at.is_none() {
            if let Err(e) = inst.setup().await {
                while res.lines.len() < lines.len() {
                    res.lines.push(format!("harness-error setup:{}", e).replace(' ', "_"));
                }
                return;
            }
        }
        let mut from = from;
        if let Some(a) = &crashed_acks {
            // restart of the crashed folder: start-up recomputation, then what a reader sees
            let ok = inst.probe().await;
            let d = inst.dump().await;
            dump_oracle(&d, &mut res.oracle, "after restart");
            res.lines.push(state_line(Some(a), &d, !ok, ""));
            from += 1;
        }
        let mut buf: Vec<String> = vec![];
        let mut orc = vec![];
        run_lines(
            &mut inst,
            lines,
            from,
            lines.len(),
            false,
            &mut |s| buf.push(s),
            &mut orc,
            stats,
        )
        .await;
        res.lines.extend(buf);
        res.oracle.extend(orc);
    });
    r.shutdown_timeout(std::time::Duration::from_millis(200));
    let _ = std::fs::remove_dir_all(&dir);
    res
}

fn child_main(a: &Args) {
    let dir = PathBuf::from(a.str_or("dir", ""));
    let ops: Vec<String> = std::fs::read_to_string(a.str_or("ops", ""))
        .unwrap()
        .lines()
        .map(|s| s.to_string())
        .collect();
    let upto = a.usize_or("upto", 0);
    let out_path = a.str_or("out", "");
    let secret = secret_of(a.u64_or("secret", 1));
    let acks = PathBuf::from(a.str_or("acks", ""));
    let r = rt();
    r.block_on(async {
        let mut inst = Inst::start(dir, secret).await.expect("child start");
        inst.setup().await.expect("child setup");
        let mut stats = Stats::default();
        let mut orc = vec![];
        // everything before the crash line, observations flushed line by line
        let mut f = std::fs::File::create(&out_path).unwrap();
        let mut sink = |s: String| {
            let _ = writeln!(f, "{}", s);
            let _ = f.flush();
        };
        run_lines(&mut inst, &ops, 1, upto - 1, true, &mut sink, &mut orc, &mut stats).await;
        inst.acklog = Some(acks);
        run_lines(&mut inst, &ops, upto - 1, upto, true, &mut sink, &mut orc, &mut stats).await;
    });
    std::process::exit(0);
}

fn run(a: &Args) {
    let ops_path = a.str_or("ops", "cases.ops");
    let out_path = a.str_or("out", "impl.out");
    let work = PathBuf::from(a.str_or(
        "work",
        Path::new(&out_path).parent().and_then(|p| p.to_str()).unwrap_or("."),
    ));
    let text = std::fs::read_to_string(&ops_path).expect("ops file");
    let lines: Vec<String> = text.lines().map(|s| s.to_string()).collect();
    let mut stats = Stats::default();
    let mut out = std::io::BufWriter::new(std::fs::File::create(&out_path).unwrap());
    let mut oracle_lines: Vec<String> = vec![];
    // split into cases
    let mut cases: Vec<Vec<String>> = vec![];
    for l in lines {
        if l.starts_with("case ") || cases.is_empty() {
            cases.push(vec![]);
        }
        cases.last_mut().unwrap().push(l);
    }
    let is16 = |c: &Vec<String>| c[0].starts_with("case ") && c[0].contains("prop=c16");
    let mut ci = 0;
    while ci < cases.len() {
        let mut results: Vec<CaseOut> = vec![];
        let first = ci;
        if is16(&cases[ci]) {
            // consecutive C16 cases share one instance
            let mut j = ci;
            while j < cases.len() && is16(&cases[j]) {
                j += 1;
            }
            let group: Vec<&Vec<String>> = cases[ci..j].iter().collect();
            results = c16::run_cases(&group, &work, ci, &mut stats);
            ci = j;
        } else {
            let case = &cases[ci];
            results.push(if !case[0].starts_with("case ") {
                CaseOut {
                    lines: case.iter().map(|_| "bad-op".to_string()).collect(),
                    oracle: vec![],
                }
            } else {
                run_case13(case, &work, ci, &mut stats)
            });
            ci += 1;
        }
        for (k, r) in results.into_iter().enumerate() {
            let case = &cases[first + k];
            stats.inc("cases");
            let mut ls = r.lines;
            ls.truncate(case.len());
            while ls.len() < case.len() {
                ls.push("harness-error missing-line".into());
            }
            for l in ls {
                writeln!(out, "{}", l).unwrap();
            }
            for (sig, detail) in r.oracle {
                oracle_lines.push(format!("{} {} {}", first + k, sig, detail));
            }
        }
    }
    out.flush().unwrap();
    if !oracle_lines.is_empty() {
        std::fs::write(format!("{}.oracle", out_path), oracle_lines.join("\n") + "\n").unwrap();
    }
    if let Some(p) = a.get("stats") {
        stats.write(p);
    }
}

// ------------------------------------------------------------------------------------------------
// C13 generators

/// fixed workloads: (batches, index of the batch that receives the fault)
fn workloads(tier: &str) -> Vec<(Vec<&'static str>, usize)> {
    let mut w = vec![
        (
            vec![
                "pm.0.1-1+2-1,rm.1,pn.0.3-1,pm.100.9-1",
                // … row 0 moves to room 2 (day key 101), row 9 moves from room 2 to room 1
                "pm.1.1-2+4-1,dl.1.2,pn.1.5-1+6-1,ed.1-3,wr.1,rc,ps.1.7-1,dn.2.3,rs.2,pm.101.0-4,pm.2.9-2",
                "wr.2,pm.2.8-1",
            ],
            1,
        ),
        (vec!["pm.0.1-1", "pm.0.1-2"], 1),
    ];
    if tier != "quick" {
        w.push((
            vec![
                "pm.0.1-1+2-1+3-1,pn.1.4-1",
                "rc,dl.2.1+2,pm.2.3-2,rm.2,rc,ps.0.9-1",
                "pm.3.3-3",
            ],
            1,
        ));
        w.push((vec!["pm.0.1-1,wr.1", "rm.1,rm.2,ed.1-0", "pm.1.1-2"], 1));
        w.push((vec!["pm.0.1-1", "dl.1.1,pn.1.2-1,dn.1.0"], 1));
        w.push((
            vec!["pm.100.1-1+2-1,pn.101.3-1", "dl.102.1,pm.3.2-2,dn.102.3,ps.101.0-1", "rc,pm.100.2-3"],
            1,
        ));
    }
    w
}

/// dry run of a workload on the real code: the number of SQL write statements of each group of the
/// target batch and of its marks phase (from the fault-point trace)
fn calibrate(batches: &[&str], target: usize, work: &Path) -> (Vec<u64>, u64) {
    let dir = case_dir(work, 999_000 + target);
    let _ = std::fs::remove_dir_all(&dir);
    let r = rt();
    let res = r.block_on(async {
        let mut inst = Inst::start(dir.join("db"), secret_of(77)).await.expect("start");
        inst.setup().await.expect("setup");
        let none = FaultSpec {
            point: Point::None,
            abort: false,
        };
        for b in &batches[..target] {
            let toks: Vec<&str> = b.split(',').collect();
            inst.batch(&toks, &none).await.expect("batch");
            inst.dump().await;
        }
        let t0 = vh_trace_len();
        let toks: Vec<&str> = batches[target].split(',').collect();
        inst.batch(&toks, &none).await.expect("batch");
        let tr = discret::verif_hooks::fault::trace();
        let seg = &tr[t0..];
        // skip to the second batch.before_begin?  the blocker's batch began before t0; the first
        // before_begin in the segment is the target batch (the probe's batch precedes the blocker)
        let mut groups: Vec<u64> = vec![];
        let mut marks = 0u64;
        let mut phase = 0; // 0 before, 1 in target batch groups, 2 marks, 3 done
        let mut begins = 0;
        for name in seg {
            match name.as_str() {
                "batch.before_begin" => {
                    begins += 1;
                    // probe batch, blocker batch, target batch
                    if begins == 3 {
                        phase = 1;
                    }
                }
                "batch.group.before" if phase == 1 => groups.push(0),
                "batch.before_marks" if phase == 1 => phase = 2,
                "batch.before_commit" if phase == 2 => phase = 3,
                n if n.starts_with("sql.") => {
                    if phase == 1 {
                        if let Some(g) = groups.last_mut() {
                            *g += 1;
                        }
                    } else if phase == 2 {
                        marks += 1;
                    }
                }
                _ => {}
            }
        }
        (groups, marks)
    });
    r.shutdown_timeout(std::time::Duration::from_millis(200));
    let _ = std::fs::remove_dir_all(&dir);
    res
}

fn vh_trace_len() -> usize {
    discret::verif_hooks::fault::trace().len()
}

fn enumerate13(tier: &str, out: &str, work: &Path) {
    let mut w = std::io::BufWriter::new(std::fs::File::create(out).unwrap());
    let mut id = 0u64;
    let mut summary = vec![];
    for (batches, target) in workloads(tier) {
        let (groups, marks) = calibrate(&batches, target, work);
        let n = batches[target].split(',').count();
        assert_eq!(groups.len(), n, "calibration: one group per message");
        let mut faults: Vec<String> = vec!["begin".into(), "marks".into(), "commit".into(), "commithook".into()];
        let mut crashes: Vec<String> = vec!["marks".into(), "commit".into(), "acommit".into(), "ack".into()];
        for (i, g) in groups.iter().enumerate() {
            crashes.push(format!("gb.{}", i));
            crashes.push(format!("ga.{}", i));
            for j in 0..*g {
                faults.push(format!("stmt.{}.{}", i, j));
                crashes.push(format!("stmt.{}.{}", i, j));
            }
        }
        for j in 0..marks {
            faults.push(format!("sqlmarks.{}", j));
            crashes.push(format!("sqlmarks.{}", j));
        }
        summary.push(serde_json::json!({"batch": batches[target], "sql_statements_per_group": groups,
            "marks_statements": marks, "fault_points": faults.len(), "crash_points": crashes.len()}));
        let mut emit = |spec: String| {
            writeln!(w, "case id={}", id).unwrap();
            id += 1;
            for (bi, b) in batches.iter().enumerate() {
                if bi == target {
                    writeln!(w, "batch msgs={} {}", b, spec).unwrap();
                } else {
                    writeln!(w, "batch msgs={}", b).unwrap();
                }
            }
            writeln!(w, "batch msgs=wr.99").unwrap();
            writeln!(w, "recompute").unwrap();
        };
        emit("fault=none".into());
        for f in faults {
            emit(format!("fault={}", f));
        }
        for c in crashes {
            emit(format!("crash={}", c));
        }
    }
    w.flush().unwrap();
    println!("{}", serde_json::json!({"cases": id, "workloads": summary}));
}

/// random workloads, 1..N requests per batch, one random fault or crash (statement indices chosen so
/// that they exist: every row of pm/ps/pn is one statement, every row of dl/dn two)
fn gen13(seed: u64, n: usize, out: &str) {
    let mut g = Gen::new(seed);
    let mut w = std::io::BufWriter::new(std::fs::File::create(out).unwrap());
    for id in 0..n {
        writeln!(w, "case id={}", id).unwrap();
        let mut live: Vec<u64> = vec![0]; // keys of rows that exist (committed), row 0 from the setup
        let mut room_of: std::collections::HashMap<u64, i64> = std::collections::HashMap::new(); // 0 = first room
        room_of.insert(0, 0);
        let mut next_key = 1u64;
        let mut next_aux = 1u64;
        let nb = 1 + g.below(3);
        let faulty = g.below(nb);
        let mut wedged = false;
        for b in 0..nb {
            let nm = 1 + g.below(6);
            let mut msgs: Vec<String> = vec![];
            let mut stmts: Vec<u64> = vec![]; // known lower bound of SQL statements per message
            let mut used: Vec<u64> = vec![];
            let mut created: Vec<u64> = vec![];
            let mut deleted: Vec<u64> = vec![];
            let mut moved: Vec<(u64, i64)> = vec![];
            let mut marking = false;
            for _ in 0..nm {
                let day = g.below(3) as i64 + b as i64;
                match g.weighted(&[6, 2, 3, 3, 1, 1, 1, 2, 2]) {
                    0 | 1 => {
                        let kind = if g.chance(1, 4) { "ps" } else { "pm" };
                        let ri: i64 = if g.chance(1, 5) { 1 } else { 0 };
                        let day = ri * 100 + day;
                        let rows = 1 + g.below(3);
                        let mut kv = vec![];
                        for _ in 0..rows {
                            let free: Vec<u64> = live.iter().filter(|k| !used.contains(k)).copied().collect();
                            if !free.is_empty() && g.chance(1, 2) {
                                let k = *g.pick(&free);
                                used.push(k);
                                moved.push((k, ri));
                                kv.push(format!("{}-{}", k, 1 + g.below(9)));
                            } else {
                                let k = next_key;
                                next_key += 1;
                                created.push(k);
                                moved.push((k, ri));
                                kv.push(format!("{}-1", k));
                            }
                        }
                        stmts.push(kv.len() as u64);
                        msgs.push(format!("{}.{}.{}", kind, day, kv.join("+")));
                        marking = true;
                    }
                    2 => {
                        let ri: i64 = if g.chance(1, 5) { 1 } else { 0 };
                        let day = ri * 100 + day;
                        let rows = 1 + g.below(3);
                        let mut kv = vec![];
                        for _ in 0..rows {
                            let k = next_key;
                            next_key += 1;
                            created.push(k);
                            moved.push((k, ri));
                            kv.push(format!("{}-1", k));
                        }
                        stmts.push(kv.len() as u64);
                        msgs.push(format!("pn.{}.{}", day, kv.join("+")));
                        marking = true;
                    }
                    3 | 4 => {
                        let free: Vec<u64> = live.iter().filter(|k| !used.contains(k) && **k != 0).copied().collect();
                        if free.is_empty() {
                            stmts.push(1);
                            msgs.push(format!("wr.{}", next_aux));
                            next_aux += 1;
                            continue;
                        }
                        let k = *g.pick(&free);
                        used.push(k);
                        deleted.push(k);
                        let kind = if g.chance(1, 3) { "dn" } else { "dl" };
                        stmts.push(2);
                        // the deletion record lands in the row's room
                        let day = room_of.get(&k).copied().unwrap_or(0) * 100 + day;
                        msgs.push(format!("{}.{}.{}", kind, day, k));
                        marking = true;
                    }
                    5 => {
                        stmts.push(1);
                        msgs.push(format!("{}.{}", if g.chance(1, 2) { "rm" } else { "rs" }, next_aux));
                        next_aux += 1;
                    }
                    6 => {
                        let free: Vec<u64> = live.iter().filter(|k| !used.contains(k)).copied().collect();
                        if free.len() >= 2 {
                            stmts.push(1);
                            msgs.push(format!("ed.{}-{}", free[0], free[free.len() - 1]));
                        } else {
                            stmts.push(1);
                            msgs.push(format!("wr.{}", next_aux));
                            next_aux += 1;
                        }
                    }
                    7 => {
                        stmts.push(1);
                        msgs.push(format!("wr.{}", next_aux));
                        next_aux += 1;
                    }
                    _ => {
                        stmts.push(0);
                        msgs.push("rc".into());
                    }
                }
            }
            let mut spec = String::new();
            let mut applied = !wedged;
            if b == faulty && g.chance(5, 6) {
                let crash = g.chance(1, 3);
                let cands: Vec<usize> = (0..msgs.len()).filter(|i| stmts[*i] > 0).collect();
                let pick = g.below(if crash { 9 } else { 7 });
                let p = match pick {
                    0 if !cands.is_empty() => {
                        let i = *g.pick(&cands);
                        format!("stmt.{}.{}", i, g.below(stmts[i] as usize))
                    }
                    1 if !cands.is_empty() => {
                        let i = *g.pick(&cands);
                        format!("stmt.{}.0", i)
                    }
                    2 => "marks".to_string(),
                    3 if marking => "sqlmarks.0".to_string(),
                    // a failing COMMIT needs a transaction that wrote something
                    4 if crash || !cands.is_empty() => "commit".to_string(),
                    5 if crash => "ack".to_string(),
                    5 if !cands.is_empty() => "commithook".to_string(),
                    6 => {
                        if crash {
                            format!("gb.{}", g.below(msgs.len()))
                        } else {
                            "begin".to_string()
                        }
                    }
                    7 => "acommit".to_string(),
                    _ => {
                        if crash {
                            format!("ga.{}", g.below(msgs.len()))
                        } else {
                            "begin".to_string()
                        }
                    }
                };
                applied = !wedged && crash && (p == "ack" || p == "acommit");
                // (before the fix 6475b84 a failed marks write / COMMIT left the writer unusable; the generator no
                //  longer assumes that: after such a fault the next batches run normally)
                if crash {
                    wedged = false;
                }
                spec = format!(" {}={}", if crash { "crash" } else { "fault" }, p);
            }
            writeln!(w, "batch msgs={}{}", msgs.join(","), spec).unwrap();
            if applied {
                live.retain(|k| !deleted.contains(k));
                live.extend(created);
                for (k, r) in moved {
                    room_of.insert(k, r);
                }
            }
            if g.chance(1, 3) {
                writeln!(w, "recompute").unwrap();
            }
        }
        writeln!(w, "batch msgs=wr.99").unwrap();
        writeln!(w, "recompute").unwrap();
    }
    w.flush().unwrap();
}

/// reports the pragmas in force on a connection opened by the real `create_connection` (trusted-base probe of C13)
fn pragmas(a: &Args) {
    let dir = PathBuf::from(a.str_or("work", "/tmp"));
    std::fs::create_dir_all(&dir).unwrap();
    let path = dir.join("pragma_probe.db");
    let _ = std::fs::remove_file(&path);
    let secret = [7u8; 32];
    let conn = discret::verif_hooks::database::sqlite_database::create_connection(&path, &secret, 1024, false).unwrap();
    for p in ["journal_mode", "synchronous", "busy_timeout", "foreign_keys", "auto_vacuum", "temp_store", "cache_size"] {
        let v: String = conn
            .query_row(&format!("PRAGMA {}", p), [], |r| r.get::<_, rusqlite::types::Value>(0))
            .map(|v| format!("{:?}", v))
            .unwrap_or_else(|e| format!("err {}", e));
        println!("{} = {}", p, v);
    }
    let _ = std::fs::remove_file(&path);
}

fn main() {
    let a = Args::parse();
    match a.cmd.as_str() {
        "run" => run(&a),
        "child" => child_main(&a),
        "enum" => enumerate13(
            &a.str_or("tier", "quick"),
            &a.str_or("out", "cases.ops"),
            Path::new(&a.str_or("work", "/tmp")),
        ),
        "gen" => gen13(a.u64_or("seed", 1), a.usize_or("n", 20), &a.str_or("out", "cases.ops")),
        "pragmas" => pragmas(&a),
        "enum16" => c16::enumerate(&a),
        "gen16" => c16::gen(&a),
        _ => {
            eprintln!("usage: dv-writer enum|gen|run|enum16|gen16 …");
            std::process::exit(2);
        }
    }
}
