//! Engine `serve` (C08, C19): the serving side of a connection and the handshake, on the real code.
//!
//!   dv-serve enum08 --out FILE                       exhaustive product (membership state × position × room × request)
//!   dv-serve gen08  --seed S --n N --out FILE        random sequences
//!   dv-serve memb08 --out FILE                       membership changing between requests on live connections
//!   dv-serve enum19 --out FILE | gen19 --seed S --n N --out FILE
//!   dv-serve run --ops FILE --out FILE [--stats FILE]
//! Op lines are described in c08.rs / c19.rs; a `case id=<n> prop=<C08|C19>` line starts a fresh world.
mod c08;
mod c19;
use dvcommon::{parse_kv, Args, Gen, Stats};
use std::io::{BufRead, BufWriter, Write};
use std::path::PathBuf;

const C08_OPS: &[&str] = &["now", "room", "group", "member", "row", "ref", "delref", "delrow", "open", "auth", "q"];

async fn run(ops: &str, out: &str, stats_path: Option<&str>) {
    std::panic::set_hook(Box::new(|_| {}));
    let f = std::fs::File::open(ops).expect("ops file");
    let mut w = BufWriter::new(std::fs::File::create(out).expect("out file"));
    let mut stats = Stats::default();
    // databases live on tmpfs when there is one (an fsync-bound build is ~6x slower on disk); removed at the end
    let shm = std::path::Path::new("/dev/shm");
    let base = if std::env::var("DV_DB_ON_DISK").is_err() && shm.is_dir() {
        shm.join(format!("dv-serve-{}", std::process::id()))
    } else {
        PathBuf::from(format!("{}.db{}", out, std::process::id()))
    };
    let mut world: Option<c08::World> = None;
    let mut hs: Option<c19::Case> = None;
    let mut n = 0u64;
    for line in std::io::BufReader::new(f).lines() {
        let line = line.unwrap();
        let (kind, kv) = parse_kv(&line);
        let res: String = match kind.as_str() {
            "case" => {
                if let Some(wd) = world.take() {
                    wd.close();
                }
                if let Some(h) = hs.take() {
                    h.close().await;
                }
                n += 1;
                stats.inc("cases");
                match (kv.get("id").and_then(|v| v.parse::<u64>().ok()), kv.get("prop").map(|s| s.as_str())) {
                    (Some(id), Some("C08")) => {
                        world = Some(c08::World::start(base.join(format!("c{}", n))).await);
                        format!("case {}", id)
                    }
                    (Some(id), Some("C19")) => {
                        hs = Some(c19::Case::start(base.join(format!("h{}", n)), &kv).await);
                        format!("case {}", id)
                    }
                    _ => "bad-op".into(),
                }
            }
            k if C08_OPS.contains(&k) => match world.as_mut() {
                Some(wd) => wd.op(k, &kv, &mut stats).await,
                None => "bad-op".into(),
            },
            k => match hs.as_mut() {
                Some(h) => h.op(k, &kv, &mut stats).await,
                None => "bad-op".into(),
            },
        };
        if kind != "case" {
            stats.inc(&format!("op.{}", kind));
            stats.inc(&format!("obs.{}", res.split(' ').next().unwrap_or("")));
        }
        writeln!(w, "{}", res).unwrap();
    }
    if let Some(wd) = world.take() {
        wd.close();
    }
    if let Some(h) = hs.take() {
        h.close().await;
    }
    let _ = std::fs::remove_dir_all(&base);
    w.flush().unwrap();
    if let Some(p) = stats_path {
        stats.write(p);
    }
}

// ------------------------------------------------------------------------------------------ C08 generators

const DAY: i64 = c08::DAY;
const K: u64 = 2;

/// the fixed world: rooms 1 (A: the requester's state varies), 2 (B: never a member), 3 (C: always a member);
/// rows 11,12,13 / 21,22,23 / 31,32; references inside rooms and across them; deletions of rows and references
fn world_ops(out: &mut Vec<String>, scen: &str) {
    let t = |d: i64| d * DAY + 5000;
    for r in 1..=3 {
        out.push(format!("room r={} t={}", r, t(10) + r));
    }
    out.push(format!("member r=3 k={} role=user en=1 t={}", K, t(10) + 10));
    match scen {
        "member" => out.push(format!("member r=1 k={} role=user en=1 t={}", K, t(10) + 20)),
        "former" => {
            out.push(format!("member r=1 k={} role=user en=1 t={}", K, t(10) + 20));
            out.push(format!("member r=1 k={} role=user en=0 t={}", K, t(10) + 30));
        }
        "adminonly" => out.push(format!("member r=1 k={} role=admin en=1 t={}", K, t(10) + 20)),
        "useradminonly" => out.push(format!("member r=1 k={} role=useradmin en=1 t={}", K, t(10) + 20)),
        "disabledonly" => out.push(format!("member r=1 k={} role=user en=0 t={}", K, t(10) + 20)),
        _ => {}
    }
    for r in 1..=3i64 {
        out.push(format!("row id={} r={} t={}", r * 10 + 1, r, t(11) + r));
    }
    for r in 1..=3i64 {
        out.push(format!("row id={} r={} t={}", r * 10 + 2, r, t(12) + r));
    }
    for r in 1..=2i64 {
        out.push(format!("row id={} r={} t={}", r * 10 + 3, r, t(12) + 10 + r));
    }
    // private rows that belong to no room, referencing and referenced by rows of rooms
    out.push(format!("row id=41 r=- t={}", t(12) + 20));
    out.push(format!("row id=42 r=- t={}", t(12) + 21));
    out.push(format!("ref src=41 dst=11 t={}", t(12) + 30));
    out.push(format!("ref src=41 dst=42 t={}", t(12) + 31));
    out.push(format!("ref src=12 dst=41 t={}", t(12) + 32));
    out.push(format!("ref src=11 dst=12 t={}", t(13)));
    out.push(format!("ref src=11 dst=21 t={}", t(13) + 1));
    out.push(format!("ref src=21 dst=22 t={}", t(13) + 2));
    out.push(format!("ref src=21 dst=11 t={}", t(13) + 3));
    out.push(format!("ref src=31 dst=32 t={}", t(13) + 4));
    out.push(format!("ref src=12 dst=11 t={}", t(13) + 5));
    out.push(format!("ref src=22 dst=21 t={}", t(13) + 6));
    out.push(format!("delref src=12 dst=11 t={}", t(14) + 1));
    out.push(format!("delref src=22 dst=21 t={}", t(14) + 2));
    out.push(format!("delrow id=13 t={}", t(14) + 3));
    out.push(format!("delrow id=23 t={}", t(14) + 4));
}

/// every request kind on room `r`, with own, foreign, mixed and unknown identifiers, entities and dates
fn queries(out: &mut Vec<String>, c: u64, r: u64) {
    let t = |d: i64| d * DAY;
    out.push(format!("q c={} kind=ProveIdentity", c));
    out.push(format!("q c={} kind=HardwareFingerprint", c));
    out.push(format!("q c={} kind=RoomList", c));
    for k in ["RoomDefinition", "RoomNode", "RoomLog", "PeersForRoom"] {
        out.push(format!("q c={} kind={} r={}", c, k, r));
    }
    for d in [13, 14, 20] {
        out.push(format!("q c={} kind=RoomLogAt r={} date={}", c, r, t(d)));
    }
    for k in ["EdgeDeletionLog", "NodeDeletionLog", "RoomDailyNodes"] {
        for e in [1, 0, 2, 3] {
            for d in [t(14) + 777, t(12) + 1, t(13) + 9, t(20)] {
                out.push(format!("q c={} kind={} r={} ent={} date={}", c, k, r, e, d));
            }
        }
    }
    // 41,42: room-less private rows; 900+r: the definition row of room r; 990: the own sys.Peer row (all room-less)
    for ids in ["11,12", "21,22", "31", "11,21,31,99", "99", "", "41,42", "11,41", "901,902,903,900", "990", "12,42,903,990"] {
        out.push(format!("q c={} kind=Nodes r={} ids={}", c, r, ids));
    }
    for srcs in ["11:0", "21:0", "31:0", "11:0,21:0,31:0,99:0", "12:0,22:0", "11:99999999999999", "", "41:0", "41:0,12:0", "901:0,990:0"] {
        out.push(format!("q c={} kind=Edges r={} srcs={}", c, r, srcs));
    }
}

const SCENARIOS: &[&str] = &["member", "former", "never", "adminonly", "useradminonly", "disabledonly"];
const POSITIONS: &[&str] = &["preauth", "auth", "listed", "listed-changed", "event-only", "not-ready", "own-key"];

fn enum08(out: &str) -> u64 {
    let mut w = BufWriter::new(std::fs::File::create(out).unwrap());
    let mut id = 0u64;
    let t = |d: i64| d * DAY + 5000;
    for scen in SCENARIOS {
        for pos in POSITIONS {
            {
                let mut l: Vec<String> = vec![];
                world_ops(&mut l, scen);
                l.push(format!("now t={}", t(15)));
                l.push("open c=1".into());
                match *pos {
                    "preauth" => {}
                    "auth" => l.push(format!("auth c=1 k={} ready=1", K)),
                    "listed" => {
                        l.push(format!("auth c=1 k={} ready=1", K));
                        l.push("q c=1 kind=RoomList".into());
                    }
                    "listed-changed" => {
                        l.push(format!("auth c=1 k={} ready=1", K));
                        l.push("q c=1 kind=RoomList".into());
                        // the requester's entry in room 1 is flipped while the connection is live
                        let (role, en) = match *scen {
                            "member" => ("user", 0),
                            "adminonly" => ("admin", 0),
                            "useradminonly" => ("useradmin", 0),
                            _ => ("user", 1),
                        };
                        l.push(format!("member r=1 k={} role={} en={} t={}", K, role, en, t(16)));
                        l.push(format!("member r=3 k={} role=user en=0 t={}", K, t(16) + 5));
                        l.push(format!("now t={}", t(17)));
                    }
                    "event-only" => {
                        l.push(format!("auth c=1 k={} ready=1", K));
                        let en = if *scen == "disabledonly" || *scen == "former" { 0 } else { 1 };
                        l.push(format!("member r=1 k={} role=user en={} t={}", K, en, t(16)));
                        l.push(format!("member r=2 k=3 role=user en=1 t={}", t(16) + 5));
                        l.push(format!("now t={}", t(17)));
                    }
                    "not-ready" => {
                        l.push(format!("auth c=1 k={} ready=0", K));
                        l.push("q c=1 kind=RoomList".into());
                    }
                    _ => {
                        l.push(format!("auth c=1 k={} ready=1", c08::OWN));
                        l.push("q c=1 kind=RoomList".into());
                    }
                }
                for room in [1u64, 2, 3, 9] {
                    queries(&mut l, 1, room);
                }
                writeln!(w, "case id={} prop=C08 scen={} pos={}", id, scen, pos).unwrap();
                for x in l {
                    writeln!(w, "{}", x).unwrap();
                }
                id += 1;
            }
        }
    }
    w.flush().unwrap();
    id
}

/// one request of every kind on room `r` (own identifiers of rooms 1..3)
fn queries_short(out: &mut Vec<String>, c: u64, r: u64) {
    let t = |d: i64| d * DAY;
    out.push(format!("q c={} kind=RoomList", c));
    for k in ["RoomDefinition", "RoomNode", "RoomLog", "PeersForRoom"] {
        out.push(format!("q c={} kind={} r={}", c, k, r));
    }
    out.push(format!("q c={} kind=RoomLogAt r={} date={}", c, r, t(13)));
    for k in ["EdgeDeletionLog", "NodeDeletionLog", "RoomDailyNodes"] {
        out.push(format!("q c={} kind={} r={} ent=1 date={}", c, k, r, t(14) + 777));
    }
    out.push(format!("q c={} kind=RoomDailyNodes r={} ent=1 date={}", c, r, t(12) + 1));
    out.push(format!("q c={} kind=Nodes r={} ids=11,12,21,31,41", c, r));
    out.push(format!("q c={} kind=Edges r={} srcs=11:0,21:0,31:0,41:0", c, r));
}

/// membership of the requester changing BETWEEN requests on a live connection: each scenario is a list of
/// phases, a phase is a list of room-definition changes of room 1 followed by one request of every kind on
/// room 1 (and on room 3, of which the requester stays a member, and room 2, of which it never is).
fn memb08(out: &str) -> u64 {
    let mut w = BufWriter::new(std::fs::File::create(out).unwrap());
    let t = |d: i64| d * DAY + 5000;
    // (name, listed before the first phase?, phases of `member`/`group` lines without their date)
    let m = |role: &str, en: u8, g: u8| format!("member r=1 k={} role={} en={} g={}", K, role, en, g);
    let scenarios: Vec<(&str, bool, Vec<Vec<String>>)> = vec![
        ("disabled-reenabled", true, vec![vec![m("user", 1, 0)], vec![m("user", 0, 0)], vec![m("user", 1, 0)], vec![m("user", 0, 0)]]),
        ("event-admitted-disabled", false, vec![vec![m("user", 1, 0)], vec![m("user", 0, 0)], vec![m("user", 1, 0)]]),
        ("admin-demoted", true, vec![vec![m("admin", 1, 0)], vec![m("admin", 0, 0)], vec![m("admin", 1, 0)]]),
        ("admin-demoted-still-user", true, vec![vec![m("admin", 1, 0), m("user", 1, 0)], vec![m("admin", 0, 0)], vec![m("user", 0, 0)]]),
        ("useradmin-demoted", true, vec![vec![m("useradmin", 1, 0)], vec![m("useradmin", 0, 0)]]),
        (
            "moved-between-groups",
            true,
            vec![
                vec![m("user", 1, 0)],
                vec!["group r=1 g=1".to_string(), m("user", 0, 0), m("user", 1, 1)],
                vec![m("user", 0, 1)],
                vec![m("user", 1, 0)],
            ],
        ),
        (
            "moved-between-groups-gap",
            true,
            vec![vec![m("user", 1, 0)], vec!["group r=1 g=1".to_string(), m("user", 0, 0)], vec![m("user", 1, 1)], vec![m("useradmin", 1, 1), m("user", 0, 1)]],
        ),
        ("other-key-disabled", true, vec![vec![m("user", 1, 0), "member r=1 k=3 role=user en=1 g=0".to_string()], vec!["member r=1 k=3 role=user en=0 g=0".to_string()]]),
    ];
    let mut id = 0u64;
    for (name, listed, phases) in scenarios {
        for late_list in [false, true] {
            if late_list && !listed {
                continue;
            }
            let mut l: Vec<String> = vec![];
            world_ops(&mut l, "never");
            l.push(format!("now t={}", t(15)));
            l.push("open c=1".into());
            l.push("open c=2".into());
            l.push(format!("auth c=1 k={} ready=1", K));
            l.push("auth c=2 k=3 ready=1".into());
            let mut day = 16;
            for (pi, phase) in phases.iter().enumerate() {
                for (j, line) in phase.iter().enumerate() {
                    l.push(format!("{} t={}", line, t(day) + j as i64));
                }
                day += 1;
                l.push(format!("now t={}", t(day)));
                day += 1;
                if pi == 0 && listed && !late_list {
                    l.push("q c=1 kind=RoomList".into());
                    l.push("q c=2 kind=RoomList".into());
                }
                if pi == 1 && late_list {
                    // the first room list of the connection arrives after the first change
                    l.push("q c=1 kind=RoomList".into());
                }
                queries_short(&mut l, 1, 1);
                for k in ["Nodes r=3 ids=31,11", "Nodes r=2 ids=21", "RoomLog r=3"] {
                    l.push(format!("q c=1 kind={}", k));
                }
                for k in ["Nodes r=1 ids=11,12", "RoomDefinition r=1"] {
                    l.push(format!("q c=2 kind={}", k));
                }
            }
            writeln!(w, "case id={} prop=C08 scen={} late_list={}", id, name, late_list as u8).unwrap();
            for x in l {
                writeln!(w, "{}", x).unwrap();
            }
            id += 1;
        }
    }
    // every request kind as the FIRST request after the requester was disabled (a re-check forgotten for one
    // kind is otherwise masked by the revocation a request of another kind has already caused), for a room
    // admitted by the room list and for a room admitted by a definition-change event
    let firsts: Vec<String> = {
        let mut v = vec![];
        queries_short(&mut v, 1, 1);
        v.into_iter().filter(|q| !q.contains("kind=RoomList")).collect()
    };
    for q in &firsts {
        for by_event in [false, true] {
            let mut l: Vec<String> = vec![];
            world_ops(&mut l, "never");
            l.push(format!("now t={}", t(15)));
            l.push("open c=1".into());
            l.push(format!("auth c=1 k={} ready=1", K));
            if by_event {
                l.push("q c=1 kind=RoomList".into());
            }
            l.push(format!("{} t={}", m("user", 1, 0), t(16)));
            if !by_event {
                l.push("q c=1 kind=RoomList".into());
            }
            l.push(q.clone());
            l.push(format!("{} t={}", m("user", 0, 0), t(17)));
            l.push(format!("now t={}", t(18)));
            l.push(q.clone());
            l.push(q.clone());
            l.push("q c=1 kind=Nodes r=3 ids=31".into());
            writeln!(w, "case id={} prop=C08 scen=first-after-disable by_event={}", id, by_event as u8).unwrap();
            for x in l {
                writeln!(w, "{}", x).unwrap();
            }
            id += 1;
        }
    }
    w.flush().unwrap();
    id
}

/// random sequences: room-definition changes, data changes, clock moves and requests interleaved on
/// one or two connections (different keys), identifiers drawn from every room including unknown ones
fn gen08(seed: u64, n: usize, out: &str) {
    let mut g = Gen::new(seed);
    let mut w = BufWriter::new(std::fs::File::create(out).unwrap());
    for id in 0..n {
        writeln!(w, "case id={} prop=C08 scen=random", id).unwrap();
        let mut t: i64 = 10 * DAY + 5000;
        let mut tick = |g: &mut Gen, t: &mut i64| {
            *t += match g.below(4) {
                0 => 1,
                1 => 1000,
                2 => DAY / 3,
                _ => DAY + 17,
            };
            *t
        };
        let nrooms = 2 + g.below(3) as u64;
        for r in 1..=nrooms {
            writeln!(w, "room r={} t={}", r, tick(&mut g, &mut t)).unwrap();
        }
        let mut groups = [0u64; 8]; // further groups created per room
        let mut rows: Vec<u64> = vec![];
        let mut made = [0u64; 8];
        let mut refs: Vec<(u64, u64)> = vec![];
        let mut conns: Vec<u64> = vec![];
        let mut authed: Vec<u64> = vec![];
        let len = 15 + g.below(40);
        for _ in 0..len {
            match g.weighted(&[4, 3, 2, 1, 1, 2, 2, 14, 2]) {
                0 => {
                    let r = 1 + g.below(nrooms as usize) as u64;
                    let k = 2 + g.below(2) as u64;
                    let role = *g.pick(&["user", "user", "admin", "useradmin"]);
                    let en = if g.chance(2, 3) { 1 } else { 0 };
                    if groups[r as usize] < 2 && g.chance(1, 5) {
                        groups[r as usize] += 1;
                        writeln!(w, "group r={} g={} t={}", r, groups[r as usize], tick(&mut g, &mut t)).unwrap();
                    }
                    let grp = g.below(groups[r as usize] as usize + 1);
                    writeln!(w, "member r={} k={} role={} en={} g={} t={}", r, k, role, en, grp, tick(&mut g, &mut t)).unwrap();
                }
                1 if g.chance(1, 6) => {
                    made[7] += 1;
                    if made[7] < 9 {
                        let idn = 70 + made[7];
                        rows.push(idn);
                        writeln!(w, "row id={} r=- t={}", idn, tick(&mut g, &mut t)).unwrap();
                    }
                }
                1 => {
                    let r = 1 + g.below(nrooms as usize) as u64;
                    made[r as usize] += 1;
                    let idn = r * 10 + made[r as usize];
                    if made[r as usize] < 9 {
                        rows.push(idn);
                        writeln!(w, "row id={} r={} t={}", idn, r, tick(&mut g, &mut t)).unwrap();
                    }
                }
                2 if rows.len() >= 2 => {
                    let s = *g.pick(&rows);
                    let d = *g.pick(&rows);
                    if s != d && !refs.contains(&(s, d)) {
                        refs.push((s, d));
                        writeln!(w, "ref src={} dst={} t={}", s, d, tick(&mut g, &mut t)).unwrap();
                    }
                }
                3 if !refs.is_empty() => {
                    let i = g.below(refs.len());
                    let (s, d) = refs.remove(i);
                    writeln!(w, "delref src={} dst={} t={}", s, d, tick(&mut g, &mut t)).unwrap();
                }
                4 if !rows.is_empty() => {
                    let i = g.below(rows.len());
                    let x = rows.remove(i);
                    refs.retain(|(s, d)| *s != x && *d != x);
                    writeln!(w, "delrow id={} t={}", x, tick(&mut g, &mut t)).unwrap();
                }
                5 if conns.len() < 2 => {
                    let c = conns.len() as u64 + 1;
                    conns.push(c);
                    writeln!(w, "open c={}", c).unwrap();
                }
                6 if !conns.is_empty() => {
                    let c = *g.pick(&conns);
                    if !authed.contains(&c) {
                        authed.push(c);
                        let k = *g.pick(&[2u64, 2, 3, 1]);
                        writeln!(w, "auth c={} k={} ready={}", c, k, if g.chance(5, 6) { 1 } else { 0 }).unwrap();
                        if g.chance(2, 3) {
                            writeln!(w, "q c={} kind=RoomList", c).unwrap();
                        }
                    }
                }
                7 if !conns.is_empty() => {
                    let c = *g.pick(&conns);
                    let r = if g.chance(1, 8) { 9 } else { 1 + g.below(nrooms as usize) as u64 };
                    let any_row = |g: &mut Gen| -> u64 {
                        if g.chance(1, 6) {
                            *g.pick(&[99u64, 71, 72, 900, 901, 902, 990])
                        } else {
                            (1 + g.below(nrooms as usize) as u64) * 10 + 1 + g.below(3) as u64
                        }
                    };
                    let date = if g.chance(3, 4) { t - (g.below(4) as i64) * DAY / 2 } else { (g.below(30) as i64) * DAY };
                    let ent = if g.chance(4, 5) { 1 } else { g.below(4) };
                    let line = match g.below(14) {
                        0 => "kind=ProveIdentity".to_string(),
                        1 => "kind=HardwareFingerprint".to_string(),
                        2 | 3 => "kind=RoomList".to_string(),
                        4 => format!("kind=RoomDefinition r={}", r),
                        5 => format!("kind=RoomNode r={}", r),
                        6 => format!("kind=RoomLog r={}", r),
                        7 => format!("kind=RoomLogAt r={} date={}", r, (date / DAY) * DAY),
                        8 => format!("kind=EdgeDeletionLog r={} ent={} date={}", r, ent, date),
                        9 => format!("kind=NodeDeletionLog r={} ent={} date={}", r, ent, date),
                        10 => format!("kind=RoomDailyNodes r={} ent={} date={}", r, ent, date),
                        11 => {
                            let k = 1 + g.below(4);
                            let ids: Vec<String> = (0..k).map(|_| any_row(&mut g).to_string()).collect();
                            format!("kind=Nodes r={} ids={}", r, ids.join(","))
                        }
                        12 => {
                            let k = 1 + g.below(3);
                            let v: Vec<String> = (0..k)
                                .map(|_| format!("{}:{}", any_row(&mut g), if g.chance(3, 4) { 0 } else { date }))
                                .collect();
                            format!("kind=Edges r={} srcs={}", r, v.join(","))
                        }
                        _ => format!("kind=PeersForRoom r={}", r),
                    };
                    writeln!(w, "q c={} {}", c, line).unwrap();
                }
                8 => writeln!(w, "now t={}", tick(&mut g, &mut t)).unwrap(),
                _ => {}
            }
        }
    }
    w.flush().unwrap();
}

fn main() {
    let a = Args::parse();
    let out = a.str_or("out", "cases.ops");
    match a.cmd.as_str() {
        "enum08" => println!("{}", serde_json::json!({"cases": enum08(&out)})),
        "gen08" => gen08(a.u64_or("seed", 1), a.usize_or("n", 50), &out),
        "memb08" => println!("{}", serde_json::json!({"cases": memb08(&out)})),
        "enum19" => println!("{}", serde_json::json!({"cases": c19::enumerate(&out)})),
        "gen19" => c19::gen(a.u64_or("seed", 1), a.usize_or("n", 50), &out),
        "run" => {
            let rt = tokio::runtime::Builder::new_current_thread().enable_all().build().unwrap();
            rt.block_on(run(&a.str_or("ops", "cases.ops"), &a.str_or("out", "impl.out"), a.get("stats")));
            // everything is written and flushed: leave without running the C library's exit handlers, which
            // race with the database / verification threads that are still alive (seen once as a SIGSEGV at exit)
            std::mem::forget(rt);
            unsafe { libc::_exit(0) }
        }
        _ => {
            eprintln!("usage: dv-serve enum08|gen08|memb08|enum19|gen19|run …");
            std::process::exit(2);
        }
    }
}
