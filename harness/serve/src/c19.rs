//! C19 — handshake and invitation table (filled in below)
use dvcommon::Stats;
use std::collections::HashMap;
use std::path::PathBuf;
pub type Kv = HashMap<String, String>;
pub struct Case {}
impl Case {
    pub async fn start(_folder: PathBuf, _kv: &Kv) -> Case {
        Case {}
    }
    pub async fn close(self) {}
    pub async fn op(&mut self, _kind: &str, _kv: &Kv, _stats: &mut Stats) -> String {
        "bad-op".into()
    }
}
pub fn enumerate(_out: &str) -> u64 {
    0
}
pub fn gen(_seed: u64, _n: usize, _out: &str) {}
