//! C19 — the REAL `LocalPeerService::initialise_connection` against a scripted remote side, the REAL
//! `PeerManager` token table (create / accept / lookup / consume invitations), the REAL `MeetingSecret`.
//!
//!   case id=<n> prop=C19 app=<a>
//!   hs conn=<n> local=<k> tt=allowed exp=<k> | tt=owned inv=<n> | tt=invite inv=<n> signer=<k> app=<a> signapp=<a>
//!      remote=honest key=<k> [rowid=<j>: the row carries identity j's row id] | wrongkey key=<k> signer2=<k> | replay key=<k> from=<conn> | badrow key=<k> how=<h> | noanswer how=<h>
//!        -> res=<true|false|err> key=<k|-> ready=<0|1> events=<Ready|ReadyFingerprint|-> msgs=<connected:k,accepted:k|-> serve=<a>|<b>|<c>
//!      serve: what a REAL `InboundQueryService` sharing the key / readiness cells of that handshake answers afterwards to
//!      RoomList (a: silent | rooms[:0]), HardwareFingerprint (b: silent | fingerprint), RoomNode(private room) (c: refused | data)
//!   pm-invite n=<n>                              -> ok            (real create_invite)
//!   pm-lookup tok=inv:<n>|peer:<k> key=<k>       -> allowed <k> | owned <n> | invite <n> | none   (real get_token_type)
//!   pm-accepted inv=<n> peer=<k>                 -> ok | no-token (real get_token_type + invite_accepted)
//!   pm-accept src=forged id=<n> app=<a> signer=<k> | src=bytes hex=<..>   -> ok | err:app | err:decode (real accept_invite)
//!   pm-restart                                   -> ok            (PeerManager rebuilt from the same database)
//!   tok-sym a=<n> b=<n>                          -> sym 1|0       (real MeetingSecret::token both ways)
//! identities: key k = the verifying key derived from `c08::secret_of(k)`; 1 is the instance itself.
use crate::c08::{key_of, secret_of, APP, MODEL, OWN};
use discret::verif_hooks::configuration::Configuration;
use discret::verif_hooks::database::graph_database::GraphDatabaseService;
use discret::verif_hooks::database::node::Node;
use discret::verif_hooks::database::system_entities::{AllowedPeer, Invite, OwnedInvite, Peer};
use discret::verif_hooks::discret::{DiscretParams, DiscretServices};
use discret::verif_hooks::event_service::EventService;
use discret::verif_hooks::network::endpoint::DiscretEndpoint;
use discret::verif_hooks::network::peer_manager::{PeerManager, TokenType};
use discret::verif_hooks::network::ConnectionInfo;
use discret::verif_hooks::peer_connection_service::{PeerConnectionMessage, PeerConnectionService};
use discret::verif_hooks::security::{
    base64_encode, derive_key, Ed25519SigningKey, HardwareFingerprint, MeetingSecret, MeetingToken, SigningKey, Uid,
};
use discret::verif_hooks::signature_verification_service::SignatureVerificationService;
use discret::verif_hooks::database::room_node::RoomNode;
use discret::verif_hooks::synchronisation::peer_inbound_service::{LocalPeerService, QueryService};
use discret::verif_hooks::synchronisation::peer_outbound_service::{InboundQueryService, RemotePeerHandle};
use discret::verif_hooks::synchronisation::{Answer, Error as SyncError, IdentityAnswer, Query, QueryProtocol, RemoteEvent};
use dvcommon::{Gen, Stats};
use std::collections::{HashMap, HashSet, VecDeque};
use std::io::{BufWriter, Write};
use std::path::PathBuf;
use std::sync::atomic::{AtomicBool, Ordering};
use std::sync::Arc;
use tokio::sync::{mpsc, Mutex};

pub type Kv = HashMap<String, String>;
const NKEYS: u64 = 5;

fn get_u(kv: &Kv, k: &str) -> Option<u64> {
    kv.get(k).and_then(|v| v.parse().ok())
}
fn signing_key_of(k: u64) -> Ed25519SigningKey {
    Ed25519SigningKey::create_from(&derive_key(&format!("{} SIGNING_KEY", APP), &secret_of(k)))
}
fn meeting_secret_of(k: u64) -> MeetingSecret {
    MeetingSecret::new(derive_key("dv meeting", &secret_of(k)))
}
fn ident_of(key: &[u8]) -> String {
    (1..=NKEYS).find(|k| key_of(*k) == key).map(|k| k.to_string()).unwrap_or("?".into())
}
fn uid_n(n: u64) -> Uid {
    let mut u = [0x77u8; 16];
    u[..8].copy_from_slice(&n.to_be_bytes());
    u
}
fn app_name(a: u64, own: u64) -> String {
    if a == own {
        APP.to_string()
    } else {
        format!("other app {}", a)
    }
}
/// a valid `sys.Peer` row for identity k (what a running instance of k would present)
fn peer_row(k: u64) -> Node {
    peer_row_with_id(k, k)
}
/// a correctly self-signed `sys.Peer` row of identity k that carries the row id of identity `id_of`
/// (the id of a peer row is public and chosen by whoever creates the row)
fn peer_row_with_id(k: u64, id_of: u64) -> Node {
    let public = meeting_secret_of(k).public_key();
    let mut n = Peer::create(uid_n(1000 + id_of), base64_encode(public.as_bytes()));
    n.sign(&signing_key_of(k)).unwrap();
    n
}

pub struct Case {
    folder: PathBuf,
    svc: GraphDatabaseService,
    own_key: Vec<u8>,
    pm: Option<PeerManager>,
    _pm_rx: Option<mpsc::Receiver<PeerConnectionMessage>>,
    params: DiscretParams,
    services: DiscretServices,
    app: u64,
    invites: HashMap<u64, Uid>,
    invite_no: HashMap<Uid, u64>,
    recorded: HashMap<u64, Vec<u8>>,
    tokens_seen: HashSet<MeetingToken>,
    tokens_total: u64,
}

impl Case {
    pub async fn start(folder: PathBuf, kv: &Kv) -> Case {
        let _ = std::fs::remove_dir_all(&folder);
        std::fs::create_dir_all(&folder).unwrap();
        let mut c = Configuration::default();
        c.parallelism = 1;
        c.enable_multicast = false;
        c.enable_beacons = false;
        let events = EventService::new();
        let public = meeting_secret_of(OWN).public_key();
        let (svc, key, private_room) =
            GraphDatabaseService::start(APP, MODEL, &secret_of(OWN), public.as_bytes(), folder.clone(), &c, events.clone())
                .await
                .expect("instance");
        let params = DiscretParams {
            app_key: APP.to_string(),
            verifying_key: key.clone(),
            private_room_id: private_room,
            hardware_fingerprint: HardwareFingerprint { id: [3u8; 16], name: "dv".into() },
            configuration: c.clone(),
        };
        let services = DiscretServices {
            events,
            database: svc.clone(),
            signature_verification: SignatureVerificationService::start(1),
        };
        // the real table; its endpoint only binds a local UDP socket (nothing is ever connected)
        let (pm, prx) = Self::build_manager(&params, &services).await;
        Case {
            folder,
            svc,
            own_key: key,
            pm,
            _pm_rx: Some(prx),
            params,
            services,
            app: get_u(kv, "app").unwrap_or(1),
            invites: HashMap::new(),
            invite_no: HashMap::new(),
            recorded: HashMap::new(),
            tokens_seen: HashSet::new(),
            tokens_total: 0,
        }
    }
    /// what the application does at every start: a `PeerManager` built from what the database holds
    async fn build_manager(
        params: &DiscretParams,
        services: &DiscretServices,
    ) -> (Option<PeerManager>, mpsc::Receiver<PeerConnectionMessage>) {
        let (ptx, prx) = mpsc::channel::<PeerConnectionMessage>(64);
        let pm = match DiscretEndpoint::start(PeerConnectionService { sender: ptx }, 1 << 20, &params.verifying_key).await {
            Ok(endpoint) => PeerManager::new(params, services, endpoint, None, meeting_secret_of(OWN)).await.ok(),
            Err(_) => None,
        };
        (pm, prx)
    }
    pub async fn close(self) {
        let folder = self.folder.clone();
        drop(self);
        let _ = std::fs::remove_dir_all(folder);
    }

    fn token_type(&self, kv: &Kv) -> Option<TokenType> {
        Some(match kv.get("tt")?.as_str() {
            "allowed" => {
                let e = get_u(kv, "exp")?;
                TokenType::AllowedPeer(AllowedPeer {
                    peer: Peer { id: base64_encode(&uid_n(1000 + e)), verifying_key: base64_encode(&key_of(e)) },
                    meeting_token: String::new(),
                })
            }
            "owned" => TokenType::OwnedInvite(OwnedInvite { id: uid_n(get_u(kv, "inv")?), room: None, authorisation: None }),
            "invite" => {
                let (n, k, a, sa) = (get_u(kv, "inv")?, get_u(kv, "signer")?, get_u(kv, "app")?, get_u(kv, "signapp")?);
                // the signature is what the inviter's instance produces: its key over Invite::hash()
                let signed = Invite { invite_id: uid_n(n), application: app_name(sa, self.app), invite_sign: vec![] };
                let sig = signing_key_of(k).sign(&signed.hash());
                TokenType::Invite(Invite { invite_id: uid_n(n), application: app_name(a, self.app), invite_sign: sig })
            }
            _ => return None,
        })
    }

    async fn handshake(&mut self, kv: &Kv) -> String {
        let (conn, local) = match (get_u(kv, "conn"), get_u(kv, "local")) {
            (Some(c), Some(l)) => (c, l),
            _ => return "bad-op".into(),
        };
        let tt = match self.token_type(kv) {
            Some(t) => t,
            None => return "bad-op".into(),
        };
        #[derive(Clone)]
        enum Script {
            Answer { row: Node, signer: Option<u64>, fixed_sig: Option<Vec<u8>> },
            ErrorAnswer,
            Closed,
            Garbage,
        }
        let key = get_u(kv, "key");
        let script = match (kv.get("remote").map(|s| s.as_str()), key) {
            (Some("honest"), Some(k)) => {
                // `rowid=j`: the presented row carries the id of identity j's peer row (default: its own)
                let row = peer_row_with_id(k, get_u(kv, "rowid").unwrap_or(k));
                Script::Answer { row, signer: Some(k), fixed_sig: None }
            }
            (Some("wrongkey"), Some(k)) => match get_u(kv, "signer2") {
                Some(k2) => Script::Answer { row: peer_row(k), signer: Some(k2), fixed_sig: None },
                None => return "bad-op".into(),
            },
            (Some("replay"), Some(k)) => match get_u(kv, "from").and_then(|m| self.recorded.get(&m)) {
                Some(sig) => Script::Answer { row: peer_row(k), signer: None, fixed_sig: Some(sig.clone()) },
                None => return "bad-op".into(),
            },
            (Some("badrow"), Some(k)) => {
                let mut row = peer_row(k);
                match kv.get("how").map(|s| s.as_str()) {
                    Some("room") => {
                        row.room_id = Some(uid_n(1));
                        row.sign(&signing_key_of(k)).unwrap();
                    }
                    Some("entity") => {
                        row._entity = "0.9".into();
                        row.sign(&signing_key_of(k)).unwrap();
                    }
                    Some("rowsig") => row._signature[5] ^= 1,
                    Some("nopub") => {
                        row._json = Some("{\"32\":\"x\"}".into());
                        row.sign(&signing_key_of(k)).unwrap();
                    }
                    _ => return "bad-op".into(),
                }
                Script::Answer { row, signer: Some(k), fixed_sig: None }
            }
            (Some("noanswer"), _) => match kv.get("how").map(|s| s.as_str()) {
                Some("error") => Script::ErrorAnswer,
                Some("closed") => Script::Closed,
                Some("garbage") => Script::Garbage,
                _ => return "bad-op".into(),
            },
            _ => return "bad-op".into(),
        };
        let (qtx, mut qrx) = mpsc::channel::<QueryProtocol>(4);
        let (atx, arx) = mpsc::channel::<Answer>(4);
        let qs = QueryService::start(qtx, arx);
        let (ptx, mut prx) = mpsc::channel::<PeerConnectionMessage>(8);
        let (etx, mut erx) = mpsc::channel::<RemoteEvent>(8);
        let bound = Arc::new(Mutex::new(Vec::<u8>::new()));
        let ready = Arc::new(AtomicBool::new(true));
        let (sig_tx, mut sig_rx) = mpsc::channel::<Vec<u8>>(1);
        let sc = script.clone();
        // the scripted remote side
        let remote = tokio::spawn(async move {
            if let Some(q) = qrx.recv().await {
                let challenge = match q.query {
                    Query::ProveIdentity(c) => c,
                    _ => vec![],
                };
                let answer = match sc {
                    Script::Answer { row, signer, fixed_sig } => {
                        let sig = match (signer, fixed_sig) {
                            (Some(k), _) => signing_key_of(k).sign(&challenge),
                            (None, Some(s)) => s,
                            _ => vec![],
                        };
                        let _ = sig_tx.send(sig.clone()).await;
                        let ia = IdentityAnswer { peer: row, chall_signature: sig };
                        Some(Answer { id: q.id, success: true, complete: true, serialized: bincode::serialize(&ia).unwrap() })
                    }
                    Script::ErrorAnswer => Some(Answer {
                        id: q.id,
                        success: false,
                        complete: true,
                        serialized: bincode::serialize(&SyncError::Technical).unwrap(),
                    }),
                    Script::Garbage => Some(Answer { id: q.id, success: true, complete: true, serialized: vec![0xFF; 7] }),
                    Script::Closed => None,
                };
                match answer {
                    Some(a) => {
                        let _ = atx.send(a).await;
                        // keep the channel open until the local side is done
                        tokio::time::sleep(std::time::Duration::from_secs(30)).await;
                    }
                    None => drop(atx),
                }
            }
        });
        let info = ConnectionInfo {
            endpoint_id: uid_n(1),
            remote_id: uid_n(2),
            conn_id: uid_n(conn),
            meeting_token: [0u8; 7],
            peer_verifying_key: vec![],
        };
        let res = LocalPeerService::initialise_connection(
            &info,
            &key_of(local),
            tt,
            &ready,
            &qs,
            &bound,
            &PeerConnectionService { sender: ptx },
            &etx,
        )
        .await;
        remote.abort();
        if let (Some("honest"), Ok(sig)) = (kv.get("remote").map(|s| s.as_str()), sig_rx.try_recv()) {
            self.recorded.insert(conn, sig);
        }
        let res_s = match res {
            Ok(true) => "true",
            Ok(false) => "false",
            Err(_) => "err",
        };
        let b = bound.lock().await.clone();
        let key_s = if b.is_empty() { "-".to_string() } else { ident_of(&b) };
        let mut ev: Vec<&str> = vec![];
        while let Ok(e) = erx.try_recv() {
            ev.push(match e {
                RemoteEvent::Ready => "Ready",
                RemoteEvent::ReadyFingerprint => "ReadyFingerprint",
                _ => "?",
            });
        }
        let mut ms: Vec<String> = vec![];
        while let Ok(m) = prx.try_recv() {
            ms.push(match m {
                PeerConnectionMessage::PeerConnected(k, _) => format!("connected:{}", ident_of(&k)),
                PeerConnectionMessage::InviteAccepted(_, peer) => format!("accepted:{}", ident_of(&peer.verifying_key)),
                PeerConnectionMessage::PeerDisconnected(..) => "disconnected".into(),
                _ => "?".into(),
            });
        }
        let serve = self.serve_probe(bound.clone(), ready.clone()).await;
        format!(
            "res={} key={} ready={} events={} msgs={} serve={}",
            res_s,
            key_s,
            if ready.load(Ordering::Relaxed) { 1 } else { 0 },
            if ev.is_empty() { "-".to_string() } else { ev.join(",") },
            if ms.is_empty() { "-".to_string() } else { ms.join(",") },
            serve
        )
    }

    /// the serving side of the SAME connection: a real `InboundQueryService` loop that shares the key and
    /// readiness cells the handshake has just (not) written, asked for the room list, the hardware
    /// fingerprint and the definition row of the instance's private room
    async fn serve_probe(&self, key: Arc<Mutex<Vec<u8>>>, ready: Arc<AtomicBool>) -> String {
        let (qtx, qrx) = mpsc::channel::<QueryProtocol>(8);
        let (atx, mut arx) = mpsc::channel::<Answer>(64);
        let (ptx, _prx) = mpsc::channel::<PeerConnectionMessage>(8);
        let _svc = InboundQueryService::start(
            HardwareFingerprint { id: [9u8; 16], name: "dv".into() },
            [1u8; 32],
            uid_n(1),
            RemotePeerHandle { db: self.svc.clone(), allowed_room: HashSet::new(), verifying_key: self.own_key.clone(), reply: atx },
            qrx,
            PeerConnectionService { sender: ptx },
            key,
            ready,
        );
        let private_room = self.params.private_room_id;
        let mut out: Vec<String> = vec![];
        for i in 0..3u64 {
            let q = match i {
                0 => Query::RoomList,
                1 => Query::HardwareFingerprint(),
                _ => Query::RoomNode(private_room),
            };
            if qtx.send(QueryProtocol { id: 2 * i, query: q }).await.is_err() {
                return "err:closed".into();
            }
            // a probe that is always answered (a refusal): requests are processed in order
            if qtx.send(QueryProtocol { id: 2 * i + 1, query: Query::RoomNode([0xEE; 16]) }).await.is_err() {
                return "err:closed".into();
            }
            let mut answers: Vec<Answer> = vec![];
            loop {
                match tokio::time::timeout(std::time::Duration::from_secs(20), arx.recv()).await {
                    Ok(Some(a)) if a.id == 2 * i + 1 => break,
                    Ok(Some(a)) => answers.push(a),
                    _ => return "err:timeout".into(),
                }
            }
            let refused = answers.iter().any(|a| !a.success && matches!(bincode::deserialize::<SyncError>(&a.serialized), Ok(SyncError::Authorisation(_))));
            out.push(if answers.is_empty() {
                "silent".into()
            } else if refused {
                "refused".into()
            } else if answers.iter().any(|a| !a.success) {
                "err:remote".into()
            } else {
                match i {
                    0 => {
                        let mut rooms: Vec<String> = vec![];
                        for a in answers.iter().filter(|a| !a.complete) {
                            match bincode::deserialize::<VecDeque<Uid>>(&a.serialized) {
                                Ok(l) => rooms.extend(l.iter().map(|r| if *r == private_room { "0".to_string() } else { "?".to_string() })),
                                Err(_) => return "err:decode".into(),
                            }
                        }
                        rooms.sort();
                        // the real list names a room once per entity modified on the room's last day
                        // (DailyLog::sort_rooms joins on the last day's log rows): a set for this probe
                        rooms.dedup();
                        if rooms.is_empty() { "rooms".into() } else { format!("rooms:{}", rooms.join("+")) }
                    }
                    1 => match bincode::deserialize::<HardwareFingerprint>(&answers[0].serialized) {
                        Ok(_) => "fingerprint".into(),
                        Err(_) => "err:decode".into(),
                    },
                    _ => match bincode::deserialize::<Option<RoomNode>>(&answers[0].serialized) {
                        // served (whether or not the private room has a stored definition row to show)
                        Ok(Some(n)) if n.node.id == private_room => "data".into(),
                        Ok(Some(_)) => "data:?".into(),
                        Ok(None) => "data".into(),
                        Err(_) => "err:decode".into(),
                    },
                }
            });
        }
        out.join("|")
    }

    fn token_of(&mut self, kv: &Kv) -> Option<MeetingToken> {
        let (what, n) = kv.get("tok")?.split_once(':')?;
        let n: u64 = n.parse().ok()?;
        let t = match what {
            // peer_manager.rs DERIVE_STRING = "P"
            "inv" => MeetingSecret::derive_token("P", &self.invites.get(&n).copied().unwrap_or_else(|| uid_n(n))),
            "peer" => meeting_secret_of(OWN).token(&meeting_secret_of(n).public_key()),
            _ => return None,
        };
        self.tokens_total += 1;
        self.tokens_seen.insert(t);
        Some(t)
    }

    pub async fn op(&mut self, kind: &str, kv: &Kv, stats: &mut Stats) -> String {
        let _ = (&self.svc, &self.own_key);
        match kind {
            "hs" => self.handshake(kv).await,
            "tok-sym" => match (get_u(kv, "a"), get_u(kv, "b")) {
                (Some(a), Some(b)) => {
                    let (sa, sb) = (MeetingSecret::new([a as u8; 32]), MeetingSecret::new([b as u8; 32]));
                    let (ta, tb) = (sa.token(&sb.public_key()), sb.token(&sa.public_key()));
                    stats.inc("tokens.sampled");
                    if !self.tokens_seen.insert(ta) && a != b {
                        stats.inc("tokens.collisions-or-repeats");
                    }
                    format!("sym {}", if ta == tb { 1 } else { 0 })
                }
                _ => "bad-op".into(),
            },
            "pm-restart" => {
                // restart: the in-memory table is dropped and rebuilt from the same database
                self.pm = None;
                let (pm, prx) = Self::build_manager(&self.params, &self.services).await;
                self.pm = pm;
                self._pm_rx = Some(prx);
                if self.pm.is_some() {
                    "ok".into()
                } else {
                    "err:no-peer-manager".into()
                }
            }
            "pm-invite" | "pm-lookup" | "pm-accepted" | "pm-accept" => {
                if self.pm.is_none() {
                    return "err:no-peer-manager".into();
                }
                match kind {
                    "pm-invite" => {
                        let n = match get_u(kv, "n") {
                            Some(n) if !self.invites.contains_key(&n) => n,
                            _ => return "bad-op".into(),
                        };
                        match self.pm.as_mut().unwrap().create_invite(None).await {
                            Ok(bytes) => match bincode::deserialize::<Invite>(&bytes) {
                                Ok(inv) => {
                                    self.invites.insert(n, inv.invite_id);
                                    self.invite_no.insert(inv.invite_id, n);
                                    "ok".into()
                                }
                                Err(_) => "err:decode".into(),
                            },
                            Err(_) => "err:create".into(),
                        }
                    }
                    "pm-lookup" => {
                        let (tok, k) = match (self.token_of(kv), get_u(kv, "key")) {
                            (Some(t), Some(k)) => (t, k),
                            _ => return "bad-op".into(),
                        };
                        match self.pm.as_ref().unwrap().get_token_type(&tok, &key_of(k)) {
                            Ok(TokenType::AllowedPeer(p)) => {
                                let key = discret::verif_hooks::security::base64_decode(p.peer.verifying_key.as_bytes())
                                    .unwrap_or_default();
                                format!("allowed {}", ident_of(&key))
                            }
                            Ok(TokenType::OwnedInvite(o)) => {
                                format!("owned {}", self.invite_no.get(&o.id).map(|n| n.to_string()).unwrap_or("?".into()))
                            }
                            Ok(TokenType::Invite(i)) => {
                                format!("invite {}", self.invite_no.get(&i.invite_id).map(|n| n.to_string()).unwrap_or("?".into()))
                            }
                            Err(_) => "none".into(),
                        }
                    }
                    "pm-accepted" => {
                        let (n, k) = match (get_u(kv, "inv"), get_u(kv, "peer")) {
                            (Some(n), Some(k)) => (n, k),
                            _ => return "bad-op".into(),
                        };
                        let id = self.invites.get(&n).copied().unwrap_or_else(|| uid_n(n));
                        let tok = MeetingSecret::derive_token("P", &id);
                        let pm = self.pm.as_mut().unwrap();
                        match pm.get_token_type(&tok, &key_of(k)) {
                            Ok(tt @ (TokenType::OwnedInvite(_) | TokenType::Invite(_))) => {
                                match pm.invite_accepted(tt, peer_row(k)).await {
                                    Ok(()) => "ok".into(),
                                    Err(_) => "err:accepted".into(),
                                }
                            }
                            Ok(_) => "bad-op".into(),
                            Err(_) => "no-token".into(),
                        }
                    }
                    _ => {
                        let bytes = match kv.get("src").map(|s| s.as_str()) {
                            Some("forged") => match (get_u(kv, "id"), get_u(kv, "app"), get_u(kv, "signer")) {
                                (Some(n), Some(a), Some(k)) if !self.invites.contains_key(&n) => {
                                    let mut inv = Invite { invite_id: uid_n(n), application: app_name(a, self.app), invite_sign: vec![] };
                                    inv.invite_sign = signing_key_of(k).sign(&inv.hash());
                                    if a == self.app {
                                        self.invites.insert(n, inv.invite_id);
                                    }
                                    self.invite_no.insert(inv.invite_id, n);
                                    bincode::serialize(&inv).unwrap()
                                }
                                _ => return "bad-op".into(),
                            },
                            Some("bytes") => match kv.get("hex") {
                                Some(h) => {
                                    let mut v = vec![];
                                    let b = h.as_bytes();
                                    for i in (0..b.len() / 2 * 2).step_by(2) {
                                        v.push(u8::from_str_radix(&h[i..i + 2], 16).unwrap_or(0));
                                    }
                                    v
                                }
                                None => return "bad-op".into(),
                            },
                            _ => return "bad-op".into(),
                        };
                        match self.pm.as_mut().unwrap().accept_invite(&bytes).await {
                            Ok(()) => "ok".into(),
                            Err(discret::Error::InvalidInvite(_)) => "err:app".into(),
                            Err(discret::Error::Bincode(_)) => "err:decode".into(),
                            Err(_) => "err:other".into(),
                        }
                    }
                }
            }
            _ => "bad-op".into(),
        }
    }
}

// ------------------------------------------------------------------------------------------ generators

const REMOTES: &[&str] = &[
    "remote=honest key=2",
    "remote=honest key=3",
    "remote=honest key=1",
    "remote=honest key=3 rowid=2",
    "remote=honest key=2 rowid=3",
    "remote=honest key=4 rowid=1",
    "remote=wrongkey key=2 signer2=3",
    "remote=wrongkey key=3 signer2=2",
    "remote=replay key=2 from=0",
    "remote=badrow key=2 how=room",
    "remote=badrow key=2 how=entity",
    "remote=badrow key=2 how=rowsig",
    "remote=badrow key=2 how=nopub",
    "remote=noanswer how=error",
    "remote=noanswer how=closed",
    "remote=noanswer how=garbage",
];
const TTS: &[&str] = &[
    "tt=allowed exp=2",
    "tt=allowed exp=3",
    "tt=allowed exp=1",
    "tt=owned inv=7",
    "tt=invite inv=8 signer=2 app=1 signapp=1",
    "tt=invite inv=8 signer=3 app=1 signapp=1",
    "tt=invite inv=8 signer=2 app=1 signapp=2",
    "tt=invite inv=8 signer=2 app=2 signapp=2",
];

/// every token type × every remote behaviour × local key, and the invitation reuse patterns on the table
pub fn enumerate(out: &str) -> u64 {
    let mut w = BufWriter::new(std::fs::File::create(out).unwrap());
    let mut id = 0u64;
    for tt in TTS {
        writeln!(w, "case id={} prop=C19 app=1", id).unwrap();
        id += 1;
        // connection 0 records an honest answer of key 2 for the replays
        writeln!(w, "hs conn=0 local=1 tt=allowed exp=2 remote=honest key=2").unwrap();
        // the replaying remote reuses the identifier of the recorded connection (it opens the connection, so it chooses it)
        writeln!(w, "hs conn=0 local=1 {} remote=replay key=2 from=0", tt).unwrap();
        writeln!(w, "hs conn=0 local=1 tt=allowed exp=2 remote=honest key=2").unwrap();
        let mut conn = 1;
        for local in [1, 4] {
            for r in REMOTES {
                writeln!(w, "hs conn={} local={} {} {}", conn, local, tt, r).unwrap();
                conn += 1;
            }
        }
    }
    // invitation reuse patterns
    let patterns: &[&[&str]] = &[
        &["pm-invite n=5", "pm-lookup tok=inv:5 key=2", "pm-accepted inv=5 peer=2", "pm-lookup tok=inv:5 key=3",
          "pm-lookup tok=peer:2 key=2", "pm-lookup tok=peer:2 key=3", "pm-accepted inv=5 peer=3", "pm-lookup tok=peer:3 key=3"],
        &["pm-invite n=5", "pm-invite n=6", "pm-accepted inv=6 peer=2", "pm-lookup tok=inv:5 key=2", "pm-lookup tok=inv:6 key=2",
          "pm-accepted inv=5 peer=2", "pm-lookup tok=inv:5 key=4"],
        &["pm-lookup tok=inv:9 key=2", "pm-accepted inv=9 peer=2", "pm-lookup tok=peer:2 key=2"],
        &["pm-accept src=forged id=11 app=1 signer=2", "pm-lookup tok=inv:11 key=2", "pm-accepted inv=11 peer=2",
          "pm-lookup tok=inv:11 key=2", "pm-lookup tok=peer:2 key=2"],
        &["pm-accept src=forged id=12 app=2 signer=2", "pm-lookup tok=inv:12 key=2", "pm-accept src=bytes hex=", "pm-accept src=bytes hex=0102",
          "pm-accept src=bytes hex=7777777777777777777777777777777700000000000000f0"],
        &["pm-accept src=forged id=13 app=2 signer=2", "pm-lookup tok=inv:13 key=2", "pm-restart", "pm-lookup tok=inv:13 key=2",
          "pm-lookup tok=inv:13 key=3", "pm-accepted inv=13 peer=2", "pm-restart", "pm-lookup tok=inv:13 key=2"],
        &["pm-invite n=5", "pm-accept src=forged id=14 app=1 signer=3", "pm-restart", "pm-lookup tok=inv:5 key=2", "pm-lookup tok=inv:14 key=3",
          "pm-accepted inv=5 peer=2", "pm-accepted inv=14 peer=3", "pm-lookup tok=peer:2 key=2", "pm-restart", "pm-lookup tok=inv:5 key=4",
          "pm-lookup tok=inv:14 key=4", "pm-lookup tok=peer:2 key=2", "pm-lookup tok=peer:3 key=3", "pm-lookup tok=peer:3 key=2"],
        &["tok-sym a=1 b=2", "tok-sym a=2 b=1", "tok-sym a=3 b=3", "tok-sym a=9 b=200", "tok-sym a=0 b=255"],
    ];
    for p in patterns {
        writeln!(w, "case id={} prop=C19 app=1", id).unwrap();
        id += 1;
        for l in *p {
            writeln!(w, "{}", l).unwrap();
        }
    }
    w.flush().unwrap();
    id
}

pub fn gen(seed: u64, n: usize, out: &str) {
    let mut g = Gen::new(seed ^ 0xc19);
    let mut w = BufWriter::new(std::fs::File::create(out).unwrap());
    for id in 0..n {
        writeln!(w, "case id={} prop=C19 app=1", id).unwrap();
        let mut conn = 0;
        let mut honest: Vec<(u64, u64)> = vec![];
        let mut invites: Vec<u64> = vec![];
        let mut foreign: Vec<u64> = vec![];
        let mut next_inv = 20u64;
        for _ in 0..(6 + g.below(20)) {
            match g.weighted(&[10, 2, 4, 3, 2, 3, 2]) {
                0 => {
                    let k = 1 + g.below(4) as u64;
                    let tt = match g.below(4) {
                        0 | 1 => format!("tt=allowed exp={}", 1 + g.below(4)),
                        2 => format!("tt=owned inv={}", 1 + g.below(9)),
                        _ => {
                            let a = 1 + g.below(2);
                            format!("tt=invite inv={} signer={} app={} signapp={}", 1 + g.below(9), 1 + g.below(4), a, if g.chance(4, 5) { a } else { 3 - a })
                        }
                    };
                    // the side that OPENS a connection chooses its identifier: a replaying remote may reuse the identifier of
                    // the connection on which it recorded the answer
                    let mut use_conn = conn;
                    let remote = match g.below(9) {
                        0 | 1 | 2 => {
                            honest.push((conn, k));
                            format!("remote=honest key={}", k)
                        }
                        3 => {
                            honest.push((conn, k));
                            format!("remote=honest key={} rowid={}", k, 1 + g.below(4))
                        }
                        4 => format!("remote=wrongkey key={} signer2={}", k, 1 + (k % 4)),
                        5 if !honest.is_empty() => {
                            let (c, hk) = *g.pick(&honest);
                            if g.chance(1, 2) {
                                use_conn = c;
                            }
                            format!("remote=replay key={} from={}", if g.chance(3, 4) { hk } else { k }, c)
                        }
                        6 => format!("remote=badrow key={} how={}", k, g.pick(&["room", "entity", "rowsig", "nopub"])),
                        _ => format!("remote=noanswer how={}", g.pick(&["error", "closed", "garbage"])),
                    };
                    writeln!(w, "hs conn={} local={} {} {}", use_conn, if g.chance(3, 4) { 1 } else { 1 + g.below(4) }, tt, remote).unwrap();
                    conn += 1;
                }
                1 => {
                    writeln!(w, "pm-invite n={}", next_inv).unwrap();
                    invites.push(next_inv);
                    next_inv += 1;
                }
                2 => {
                    let tok = if !foreign.is_empty() && g.chance(1, 3) {
                        format!("inv:{}", g.pick(&foreign))
                    } else if !invites.is_empty() && g.chance(2, 3) {
                        format!("inv:{}", g.pick(&invites))
                    } else if g.chance(1, 2) {
                        format!("peer:{}", 2 + g.below(3))
                    } else {
                        format!("inv:{}", 90 + g.below(3))
                    };
                    writeln!(w, "pm-lookup tok={} key={}", tok, 2 + g.below(3)).unwrap();
                }
                3 if !invites.is_empty() => {
                    writeln!(w, "pm-accepted inv={} peer={}", g.pick(&invites), 2 + g.below(3)).unwrap();
                }
                4 => {
                    if g.chance(2, 3) {
                        let a = if g.chance(1, 2) { 1 } else { 2 };
                        writeln!(w, "pm-accept src=forged id={} app={} signer={}", next_inv, a, 2 + g.below(3)).unwrap();
                        if a == 1 {
                            invites.push(next_inv);
                        } else {
                            foreign.push(next_inv);
                        }
                        next_inv += 1;
                    } else {
                        let len = g.below(15);
                        let hex: String = (0..len).map(|_| format!("{:02x}", g.below(256))).collect();
                        writeln!(w, "pm-accept src=bytes hex={}", hex).unwrap();
                    }
                }
                5 => writeln!(w, "tok-sym a={} b={}", g.below(40), g.below(40)).unwrap(),
                6 => writeln!(w, "pm-restart").unwrap(),
                _ => {}
            }
        }
    }
    w.flush().unwrap();
}
