//! C08 — the serving side of a connection driven on a REAL database:
//! the real `InboundQueryService::start` loop (process_inbound + add_allowed_room), the real
//! `LocalPeerService::process_local_event` (through the `verif_process_local_event` hook) fed with the
//! real `Event::RoomModified` of the instance's event service, real room / row / reference mutations.
//!
//! World ops (all performed by the instance's own user O = key 1 through the public mutation API):
//!   room r=<n> t=<ms> | member r=<n> k=<key> role=user|admin|useradmin en=0|1 t=<ms> [g=<group, default 0>]
//!   group r=<n> g=<n> t=<ms>   (a further authorisation group of room r; group 0 is created with the room)
//!   row id=<n> r=<n|-> t=<ms> | ref src=<n> dst=<n> t=<ms> | delrow id=<n> t=<ms> | delref src=<n> dst=<n> t=<ms>
//! Connection ops:
//!   open c=<n> | auth c=<n> k=<key> ready=0|1 | now t=<ms>
//!   q c=<n> kind=<Kind> [r=<room>] [ids=a,b] [srcs=id:date,…] [ent=0|1|2|3: 2,3 = hostile names] [date=<ms>]
//! Observations: ok | err:<class> | silent | refused | identity | fingerprint | rooms a,b | data <room> <items>
//! items: `<room|->:<id>` sorted; ids are the op file's aliases (`?` for an id the harness never created).
use discret::verif_hooks::clock;
use discret::verif_hooks::configuration::Configuration;
use discret::verif_hooks::database::daily_log::{DailyLog, RoomDefinitionLog};
use discret::verif_hooks::database::edge::{Edge, EdgeDeletionEntry};
use discret::verif_hooks::database::graph_database::GraphDatabaseService;
use discret::verif_hooks::database::node::{Node, NodeDeletionEntry, NodeIdentifier};
use discret::verif_hooks::database::query_language::parameter::{Parameters, ParametersAdd};
use discret::verif_hooks::database::room_node::RoomNode;
use discret::verif_hooks::event_service::{Event, EventService};
use discret::verif_hooks::peer_connection_service::{PeerConnectionMessage, PeerConnectionService};
use discret::verif_hooks::security::{
    base64_encode, derive_key, Ed25519SigningKey, HardwareFingerprint, SigningKey, Uid,
};
use discret::verif_hooks::synchronisation::peer_inbound_service::LocalPeerService;
use discret::verif_hooks::synchronisation::peer_outbound_service::{
    InboundQueryService, RemotePeerHandle,
};
use discret::verif_hooks::synchronisation::{
    Answer, Error as SyncError, IdentityAnswer, LocalEvent, Query, QueryProtocol, RemoteEvent,
};
use dvcommon::Stats;
use std::collections::{BTreeMap, HashMap, HashSet, VecDeque};
use std::path::PathBuf;
use std::sync::atomic::{AtomicBool, Ordering};
use std::sync::Arc;
use std::time::Duration;
use tokio::sync::{broadcast, mpsc, Mutex};

pub type Kv = HashMap<String, String>;

pub const APP: &str = "dv serve";
pub const MODEL: &str = "{ Person{ name:String, parents:[Person] } }";
pub const DAY: i64 = 86_400_000;
pub const OWN: u64 = 1;

pub fn secret_of(k: u64) -> [u8; 32] {
    let mut s = [0x33u8; 32];
    s[..8].copy_from_slice(&k.to_be_bytes());
    s
}
/// the verifying key the service derives for key material `secret_of(k)`
pub fn key_of(k: u64) -> Vec<u8> {
    let signature_key = derive_key(&format!("{} SIGNING_KEY", APP), &secret_of(k));
    Ed25519SigningKey::create_from(&signature_key).export_verifying_key()
}
fn probe_uid() -> Uid {
    [0xEE; 16]
}
fn ghost_room(n: u64) -> Uid {
    let mut u = [0xABu8; 16];
    u[..8].copy_from_slice(&n.to_be_bytes());
    u
}
fn ghost_row(n: u64) -> Uid {
    let mut u = [0xCDu8; 16];
    u[..8].copy_from_slice(&n.to_be_bytes());
    u
}

struct Conn {
    qtx: mpsc::Sender<QueryProtocol>,
    arx: mpsc::Receiver<Answer>,
    svc: InboundQueryService,
    key: Arc<Mutex<Vec<u8>>>,
    ready: Arc<AtomicBool>,
    evt_tx: mpsc::Sender<RemoteEvent>,
    evt_rx: mpsc::Receiver<RemoteEvent>,
    _peer_rx: mpsc::Receiver<PeerConnectionMessage>,
    next_id: u64,
}

pub struct World {
    pub svc: GraphDatabaseService,
    pub own_key: Vec<u8>,
    events: broadcast::Receiver<Event>,
    folder: PathBuf,
    rooms: BTreeMap<u64, Uid>,
    groups: BTreeMap<(u64, u64), Uid>,
    room_no: HashMap<Uid, u64>,
    rows: BTreeMap<u64, Uid>,
    used_rows: HashSet<u64>,
    row_no: HashMap<Uid, u64>,
    person: String,
    peer_row: Uid,
    conns: BTreeMap<u64, Conn>,
    now: i64,
}

fn get_u(kv: &Kv, k: &str) -> Option<u64> {
    kv.get(k).and_then(|v| v.parse().ok())
}
fn get_i(kv: &Kv, k: &str) -> Option<i64> {
    kv.get(k).and_then(|v| v.parse().ok())
}
fn params(p: &[(&str, String)]) -> Parameters {
    let mut r = Parameters::new();
    for (k, v) in p {
        r.add(k, v.clone()).unwrap();
    }
    r
}

impl World {
    pub async fn start(folder: PathBuf) -> World {
        let _ = std::fs::remove_dir_all(&folder);
        std::fs::create_dir_all(&folder).unwrap();
        let mut c = Configuration::default();
        c.parallelism = 1;
        let events = EventService::new();
        let sub = events.subcribe().await;
        clock::set(1000);
        let (svc, key, private_room) = GraphDatabaseService::start(APP, MODEL, &secret_of(OWN), &[7u8; 32], folder.clone(), &c, events)
            .await
            .expect("instance");
        assert_eq!(key, key_of(OWN), "identity derivation differs from the service's");
        // room 0 is the instance's private room (the own user is its only member)
        let mut rooms = BTreeMap::new();
        let mut room_no = HashMap::new();
        rooms.insert(0u64, private_room);
        room_no.insert(private_room, 0u64);
        let peer_row = svc.get_peer_node(key.clone()).await.ok().flatten().map(|n| n.id).unwrap_or([0u8; 16]);
        let mut row_no = HashMap::new();
        row_no.insert(private_room, 900u64);
        row_no.insert(peer_row, 990u64);
        World {
            svc,
            own_key: key,
            events: sub,
            folder,
            rooms,
            groups: BTreeMap::new(),
            room_no,
            rows: BTreeMap::new(),
            used_rows: HashSet::new(),
            row_no,
            peer_row,
            person: String::new(),
            conns: BTreeMap::new(),
            now: 1000,
        }
    }
    pub fn close(self) {
        let folder = self.folder.clone();
        drop(self);
        let _ = std::fs::remove_dir_all(folder);
    }

    fn set_time(&mut self, t: i64) -> bool {
        if t < self.now {
            return false;
        }
        self.now = t;
        clock::set(t);
        true
    }
    fn room_uid(&self, n: u64) -> Uid {
        self.rooms.get(&n).copied().unwrap_or_else(|| ghost_room(n))
    }
    /// aliases: rows created by `row`; 900+r = the definition row of room r (a room-less `sys.Room` row);
    /// 990 = the instance's own `sys.Peer` row (room-less)
    fn row_uid(&self, n: u64) -> Uid {
        if n == 990 {
            return self.peer_row;
        }
        if (900..990).contains(&n) {
            return self.rooms.get(&(n - 900)).copied().unwrap_or_else(|| ghost_row(n));
        }
        self.rows.get(&n).copied().unwrap_or_else(|| ghost_row(n))
    }
    fn room_tag(&self, u: &Uid) -> String {
        self.room_no.get(u).map(|n| n.to_string()).unwrap_or("?".into())
    }
    fn row_tag(&self, u: &Uid) -> String {
        self.row_no.get(u).map(|n| n.to_string()).unwrap_or("?".into())
    }

    /// waits for the `RoomModified` event of the mutation just performed and hands it to the real
    /// local-event handler of every open connection
    async fn deliver_room_event(&mut self) -> Result<(), String> {
        let mut room = None;
        for _ in 0..2000 {
            match self.events.try_recv() {
                Ok(Event::RoomModified(r)) => {
                    room = Some(r);
                    break;
                }
                Ok(_) => {}
                Err(broadcast::error::TryRecvError::Empty) => tokio::time::sleep(Duration::from_millis(1)).await,
                Err(broadcast::error::TryRecvError::Lagged(_)) => {}
                Err(_) => return Err("err:event-closed".into()),
            }
        }
        let room = room.ok_or("err:no-event".to_string())?;
        let empty = HashSet::new();
        for c in self.conns.values_mut() {
            let r = LocalPeerService::verif_process_local_event(
                LocalEvent::RoomDefinitionChanged(room.clone()),
                &c.key,
                &c.evt_tx,
                &empty,
                &c.svc,
            )
            .await;
            if r.is_err() {
                return Err("err:local-event".into());
            }
            while c.evt_rx.try_recv().is_ok() {}
            // let the serving task take the room from its channel before anything else is sent to it
            for _ in 0..8 {
                tokio::task::yield_now().await;
            }
        }
        Ok(())
    }
    fn drain_events(&mut self) {
        loop {
            match self.events.try_recv() {
                Ok(_) | Err(broadcast::error::TryRecvError::Lagged(_)) => {}
                Err(_) => break,
            }
        }
    }

    pub async fn op(&mut self, kind: &str, kv: &Kv, stats: &mut Stats) -> String {
        match kind {
            "now" => match get_i(kv, "t") {
                Some(t) if self.set_time(t) => "ok".into(),
                _ => "bad-op".into(),
            },
            "room" => {
                let (r, t) = match (get_u(kv, "r"), get_i(kv, "t")) {
                    (Some(r), Some(t)) if !self.rooms.contains_key(&r) => (r, t),
                    _ => return "bad-op".into(),
                };
                if !self.set_time(t) {
                    return "bad-op".into();
                }
                self.drain_events();
                let q = "mutate { sys.Room { admin:[{verif_key:$o}] authorisations:[{ name:\"g\" rights:[{entity:\"Person\" mutate_self:true mutate_all:true}] }] } }";
                match self.svc.mutate_raw(q, Some(params(&[("o", base64_encode(&self.own_key))]))).await {
                    Ok(mq) => {
                        let ent = &mq.mutate_entities[0];
                        let id = ent.node_to_mutate.id;
                        self.rooms.insert(r, id);
                        self.room_no.insert(id, r);
                        self.row_no.insert(id, 900 + r);
                        if let Some(subs) = ent.sub_nodes.get("authorisations") {
                            self.groups.insert((r, 0), subs[0].node_to_mutate.id);
                        }
                        match self.deliver_room_event().await {
                            Ok(()) => "ok".into(),
                            Err(e) => e,
                        }
                    }
                    Err(_) => "err:mutation".into(),
                }
            }
            "member" => {
                let (r, k, t) = match (get_u(kv, "r"), get_u(kv, "k"), get_i(kv, "t")) {
                    (Some(r), Some(k), Some(t)) => (r, k, t),
                    _ => return "bad-op".into(),
                };
                let en = match kv.get("en").map(|s| s.as_str()) {
                    Some("1") => true,
                    Some("0") => false,
                    _ => return "bad-op".into(),
                };
                let g = match kv.get("g") {
                    Some(g) => match g.parse::<u64>() {
                        Ok(g) => g,
                        Err(_) => return "bad-op".into(),
                    },
                    None => 0,
                };
                let (rid, gid) = match (self.rooms.get(&r), self.groups.get(&(r, g))) {
                    (Some(a), Some(b)) => (*a, *b),
                    _ => return "bad-op".into(),
                };
                let q = match kv.get("role").map(|s| s.as_str()) {
                    Some("admin") => format!("mutate {{ sys.Room {{ id:$r admin:[{{verif_key:$k enabled:{}}}] }} }}", en),
                    Some("user") => format!(
                        "mutate {{ sys.Room {{ id:$r authorisations:[{{ id:$g users:[{{verif_key:$k enabled:{}}}] }}] }} }}",
                        en
                    ),
                    Some("useradmin") => format!(
                        "mutate {{ sys.Room {{ id:$r authorisations:[{{ id:$g user_admin:[{{verif_key:$k enabled:{}}}] }}] }} }}",
                        en
                    ),
                    _ => return "bad-op".into(),
                };
                if !self.set_time(t) {
                    return "bad-op".into();
                }
                self.drain_events();
                let p = params(&[
                    ("r", base64_encode(&rid)),
                    ("g", base64_encode(&gid)),
                    ("k", base64_encode(&key_of(k))),
                ]);
                match self.svc.mutate_raw(&q, Some(p)).await {
                    Ok(_) => match self.deliver_room_event().await {
                        Ok(()) => "ok".into(),
                        Err(e) => e,
                    },
                    Err(_) => "err:mutation".into(),
                }
            }
            "group" => {
                let (r, g, t) = match (get_u(kv, "r"), get_u(kv, "g"), get_i(kv, "t")) {
                    (Some(r), Some(g), Some(t)) if g >= 1 && !self.groups.contains_key(&(r, g)) => (r, g, t),
                    _ => return "bad-op".into(),
                };
                let rid = match self.rooms.get(&r) {
                    Some(a) if r != 0 => *a,
                    _ => return "bad-op".into(),
                };
                if !self.set_time(t) {
                    return "bad-op".into();
                }
                self.drain_events();
                let q = "mutate { sys.Room { id:$r authorisations:[{ name:\"h\" rights:[{entity:\"Person\" mutate_self:true mutate_all:true}] }] } }";
                match self.svc.mutate_raw(q, Some(params(&[("r", base64_encode(&rid))]))).await {
                    Ok(mq) => {
                        match mq.mutate_entities[0].sub_nodes.get("authorisations") {
                            Some(subs) if !subs.is_empty() => {
                                self.groups.insert((r, g), subs[0].node_to_mutate.id);
                            }
                            _ => return "err:no-group".into(),
                        }
                        match self.deliver_room_event().await {
                            Ok(()) => "ok".into(),
                            Err(e) => e,
                        }
                    }
                    Err(_) => "err:mutation".into(),
                }
            }
            "row" => {
                let (id, t) = match (get_u(kv, "id"), get_i(kv, "t")) {
                    (Some(i), Some(t)) if !self.used_rows.contains(&i) && i < 900 => (i, t),
                    _ => return "bad-op".into(),
                };
                // `r=-`: a private row that belongs to no room
                let rid = match kv.get("r").map(|s| s.as_str()) {
                    Some("-") => None,
                    Some(r) => match r.parse::<u64>().ok().and_then(|r| self.rooms.get(&r)) {
                        Some(x) => Some(*x),
                        None => return "bad-op".into(),
                    },
                    None => return "bad-op".into(),
                };
                if !self.set_time(t) {
                    return "bad-op".into();
                }
                let res = match rid {
                    Some(rid) => {
                        self.svc
                            .mutate_raw(
                                "mutate { Person { room_id:$r name:$n } }",
                                Some(params(&[("r", base64_encode(&rid)), ("n", format!("p{}", id))])),
                            )
                            .await
                    }
                    None => self.svc.mutate_raw("mutate { Person { name:$n } }", Some(params(&[("n", format!("p{}", id))]))).await,
                };
                match res {
                    Ok(mq) => {
                        let n = &mq.mutate_entities[0].node_to_mutate;
                        self.rows.insert(id, n.id);
                        self.used_rows.insert(id);
                        self.row_no.insert(n.id, id);
                        if let Some(node) = &n.node {
                            self.person = node._entity.clone();
                        }
                        "ok".into()
                    }
                    Err(_) => "err:mutation".into(),
                }
            }
            "ref" | "delref" => {
                let (s, d, t) = match (get_u(kv, "src"), get_u(kv, "dst"), get_i(kv, "t")) {
                    (Some(s), Some(d), Some(t)) => (s, d, t),
                    _ => return "bad-op".into(),
                };
                let (sid, did) = match (self.rows.get(&s), self.rows.get(&d)) {
                    (Some(a), Some(b)) => (*a, *b),
                    _ => return "bad-op".into(),
                };
                if !self.set_time(t) {
                    return "bad-op".into();
                }
                let p = params(&[("s", base64_encode(&sid)), ("d", base64_encode(&did))]);
                let res = if kind == "ref" {
                    self.svc.mutate_raw("mutate { Person { id:$s parents:[{id:$d}] } }", Some(p)).await.map(|_| ())
                } else {
                    self.svc.delete("delete { Person { $s parents[$d] } }", Some(p)).await.map(|_| ())
                };
                match res {
                    Ok(()) => "ok".into(),
                    Err(_) => "err:mutation".into(),
                }
            }
            "delrow" => {
                let (id, t) = match (get_u(kv, "id"), get_i(kv, "t")) {
                    (Some(i), Some(t)) => (i, t),
                    _ => return "bad-op".into(),
                };
                let uid = match self.rows.get(&id) {
                    Some(x) => *x,
                    None => return "bad-op".into(),
                };
                if !self.set_time(t) {
                    return "bad-op".into();
                }
                match self.svc.delete("delete { Person { $s } }", Some(params(&[("s", base64_encode(&uid))]))).await {
                    Ok(_) => {
                        self.rows.remove(&id);
                        "ok".into()
                    }
                    Err(_) => "err:mutation".into(),
                }
            }
            "open" => {
                let c = match get_u(kv, "c") {
                    Some(c) if !self.conns.contains_key(&c) => c,
                    _ => return "bad-op".into(),
                };
                let (qtx, qrx) = mpsc::channel::<QueryProtocol>(8);
                let (atx, arx) = mpsc::channel::<Answer>(64);
                let (evt_tx, evt_rx) = mpsc::channel::<RemoteEvent>(64);
                let (ptx, prx) = mpsc::channel::<PeerConnectionMessage>(8);
                let key = Arc::new(Mutex::new(Vec::<u8>::new()));
                let ready = Arc::new(AtomicBool::new(true));
                let svc = InboundQueryService::start(
                    HardwareFingerprint { id: [9u8; 16], name: "dv".into() },
                    [c as u8; 32],
                    [c as u8; 16],
                    RemotePeerHandle {
                        db: self.svc.clone(),
                        allowed_room: HashSet::new(),
                        verifying_key: self.own_key.clone(),
                        reply: atx,
                    },
                    qrx,
                    PeerConnectionService { sender: ptx },
                    key.clone(),
                    ready.clone(),
                );
                self.conns.insert(c, Conn { qtx, arx, svc, key, ready, evt_tx, evt_rx, _peer_rx: prx, next_id: 0 });
                "ok".into()
            }
            "auth" => {
                let (c, k) = match (get_u(kv, "c"), get_u(kv, "k")) {
                    (Some(c), Some(k)) => (c, k),
                    _ => return "bad-op".into(),
                };
                let ready = match kv.get("ready").map(|s| s.as_str()) {
                    Some("1") => true,
                    Some("0") => false,
                    _ => return "bad-op".into(),
                };
                match self.conns.get_mut(&c) {
                    Some(conn) => {
                        // what `initialise_connection` does once the proof is accepted (C19 covers that part)
                        let mut g = conn.key.lock().await;
                        if !g.is_empty() {
                            return "bad-op".into();
                        }
                        *g = key_of(k);
                        conn.ready.store(ready, Ordering::Relaxed);
                        "ok".into()
                    }
                    None => "bad-op".into(),
                }
            }
            "q" => self.query(kv, stats).await,
            _ => "bad-op".into(),
        }
    }

    fn build_query(&self, kv: &Kv) -> Option<Query> {
        let room = || get_u(kv, "r").map(|r| self.room_uid(r));
        let ent = || match kv.get("ent").map(|s| s.as_str()) {
            Some("1") => Some(if self.person.is_empty() { "1".to_string() } else { self.person.clone() }),
            Some("0") => Some("zz".to_string()),
            // an entity name no data model can produce: a quote, an OR, the name of the real entity — nothing is stored
            // under that name, so nothing may come back, from this room or any other
            Some("2") => Some(format!("zz' OR entity = '{}", if self.person.is_empty() { "1" } else { &self.person })),
            Some("3") => Some(format!("zz' OR '1'='1")),
            _ => None,
        };
        let date = || get_i(kv, "date");
        Some(match kv.get("kind")?.as_str() {
            "ProveIdentity" => Query::ProveIdentity(vec![5u8; 32]),
            "HardwareFingerprint" => Query::HardwareFingerprint(),
            "RoomList" => Query::RoomList,
            "RoomDefinition" => Query::RoomDefinition(room()?),
            "RoomNode" => Query::RoomNode(room()?),
            "RoomLog" => Query::RoomLog(room()?),
            "RoomLogAt" => Query::RoomLogAt(room()?, date()?),
            "EdgeDeletionLog" => Query::EdgeDeletionLog(room()?, ent()?, date()?),
            "NodeDeletionLog" => Query::NodeDeletionLog(room()?, ent()?, date()?),
            "RoomDailyNodes" => Query::RoomDailyNodes(room()?, ent()?, date()?),
            "Nodes" => {
                let ids = dvcommon::parse_nat_list(kv.get("ids")?);
                Query::Nodes(room()?, ids.into_iter().map(|i| self.row_uid(i)).collect())
            }
            "Edges" => {
                let mut v = vec![];
                for t in kv.get("srcs")?.split(',').filter(|t| !t.is_empty()) {
                    let (a, b) = t.split_once(':')?;
                    v.push((self.row_uid(a.parse().ok()?), b.parse::<i64>().ok()?));
                }
                Query::Edges(room()?, v)
            }
            "PeersForRoom" => Query::PeersForRoom(room()?),
            _ => return None,
        })
    }

    /// Every mutation / deletion is followed by an asynchronous `ComputeDailyLog` (database actor → writer thread). A request
    /// served before it has run would read the log of a moment ago; the model speaks of the log after that computation,
    /// so the harness waits: one round trip through the actor (FIFO) and one through the writer (FIFO).
    async fn settle_daily_log(&self) {
        struct Noop {}
        impl discret::verif_hooks::database::sqlite_database::Writeable for Noop {
            fn write(&mut self, _conn: &rusqlite::Connection) -> Result<(), rusqlite::Error> {
                Ok(())
            }
        }
        let _ = self.svc.datamodel().await;
        let _ = self.svc.db.writer.write(Box::new(Noop {})).await;
        let _ = self.svc.datamodel().await;
    }

    async fn query(&mut self, kv: &Kv, stats: &mut Stats) -> String {
        self.settle_daily_log().await;
        let c = match get_u(kv, "c") {
            Some(c) if self.conns.contains_key(&c) => c,
            _ => return "bad-op".into(),
        };
        let q = match self.build_query(kv) {
            Some(q) => q,
            None => return "bad-op".into(),
        };
        let kind = kv.get("kind").cloned().unwrap_or_default();
        let req_room = get_u(kv, "r");
        let conn = self.conns.get_mut(&c).unwrap();
        let id = conn.next_id;
        conn.next_id += 2;
        if conn.qtx.send(QueryProtocol { id, query: q }).await.is_err() {
            return "err:closed".into();
        }
        // a probe that is always answered: requests are processed one at a time, in order
        if conn.qtx.send(QueryProtocol { id: id + 1, query: Query::RoomDefinition(probe_uid()) }).await.is_err() {
            return "err:closed".into();
        }
        let mut answers: Vec<Answer> = vec![];
        loop {
            match tokio::time::timeout(Duration::from_secs(20), conn.arx.recv()).await {
                Ok(Some(a)) => {
                    if a.id == id + 1 {
                        break;
                    }
                    answers.push(a);
                }
                _ => return "err:timeout".into(),
            }
        }
        stats.inc(&format!("q.{}", kind));
        if answers.is_empty() {
            return "silent".into();
        }
        let mut items: Vec<String> = vec![];
        let mut rooms_listed: Vec<u64> = vec![];
        let mut unknown_room_listed = false;
        for a in &answers {
            if !a.success {
                return match bincode::deserialize::<SyncError>(&a.serialized) {
                    Ok(SyncError::Authorisation(_)) => "refused".into(),
                    Ok(_) => "err:remote".into(),
                    Err(_) => "err:decode".into(),
                };
            }
            let multi = matches!(
                kind.as_str(),
                "RoomList" | "RoomLog" | "RoomDailyNodes" | "Nodes" | "Edges" | "EdgeDeletionLog" | "NodeDeletionLog" | "PeersForRoom"
            );
            if multi && a.complete {
                continue; // the closing marker
            }
            let b = &a.serialized;
            macro_rules! dec {
                ($t:ty) => {
                    match bincode::deserialize::<$t>(b) {
                        Ok(v) => v,
                        Err(_) => return "err:decode".into(),
                    }
                };
            }
            match kind.as_str() {
                "ProveIdentity" => {
                    let ia = dec!(IdentityAnswer);
                    return if ia.peer.verifying_key == self.own_key && ia.verify(&[5u8; 32]).is_ok() {
                        "identity".into()
                    } else {
                        "err:identity".into()
                    };
                }
                "HardwareFingerprint" => {
                    let _ = dec!(HardwareFingerprint);
                    return "fingerprint".into();
                }
                "RoomList" => {
                    for r in dec!(VecDeque<Uid>) {
                        match self.room_no.get(&r) {
                            Some(n) => rooms_listed.push(*n),
                            None => unknown_room_listed = true,
                        }
                    }
                }
                "RoomDefinition" => {
                    if let Some(d) = dec!(Option<RoomDefinitionLog>) {
                        items.push(format!("{}:{}", self.room_tag(&d.room_id), self.room_tag(&d.room_id)));
                    }
                }
                "RoomNode" => {
                    if let Some(d) = dec!(Option<RoomNode>) {
                        items.push(format!("{}:{}", self.room_tag(&d.node.id), self.room_tag(&d.node.id)));
                    }
                }
                "RoomLog" | "RoomLogAt" => {
                    for l in dec!(Vec<DailyLog>) {
                        items.push(format!("{}:{}", self.room_tag(&l.room_id), l.date / DAY));
                    }
                }
                "RoomDailyNodes" => {
                    // identifiers carry no room: the room is the one of the stored row
                    for n in dec!(HashSet<NodeIdentifier>) {
                        let room = self.stored_room(&n.id).await;
                        items.push(format!("{}:{}", room, self.row_tag(&n.id)));
                    }
                }
                "Nodes" => {
                    for n in dec!(Vec<Node>) {
                        let room = n.room_id.map(|r| self.room_tag(&r)).unwrap_or("-".into());
                        items.push(format!("{}:{}", room, self.row_tag(&n.id)));
                    }
                }
                "Edges" => {
                    for e in dec!(Vec<Edge>) {
                        let room = self.stored_room(&e.src).await;
                        let (s, d) = (self.row_tag(&e.src), self.row_tag(&e.dest));
                        let id = match (s.parse::<u64>(), d.parse::<u64>()) {
                            (Ok(s), Ok(d)) => (s * 1000 + d).to_string(),
                            _ => "?".into(),
                        };
                        items.push(format!("{}:{}", room, id));
                    }
                }
                "EdgeDeletionLog" => {
                    for e in dec!(Vec<EdgeDeletionEntry>) {
                        items.push(format!("{}:{}", self.room_tag(&e.room_id), e.deletion_date));
                    }
                }
                "NodeDeletionLog" => {
                    for e in dec!(Vec<NodeDeletionEntry>) {
                        items.push(format!("{}:{}", self.room_tag(&e.room_id), e.deletion_date));
                    }
                }
                "PeersForRoom" => {
                    for n in dec!(Vec<Node>) {
                        let k = (1..=4u64).find(|k| key_of(*k) == n.verifying_key);
                        let room = n.room_id.map(|r| self.room_tag(&r)).unwrap_or("-".into());
                        items.push(format!("{}:{}", room, k.map(|k| k.to_string()).unwrap_or("?".into())));
                    }
                }
                _ => return "bad-op".into(),
            }
        }
        if kind == "RoomList" {
            rooms_listed.sort();
            let mut s: Vec<String> = rooms_listed.iter().map(|r| r.to_string()).collect();
            if unknown_room_listed {
                s.push("?".into());
            }
            stats.inc("answer.rooms");
            return format!("rooms {}", s.join(",")).trim_end().to_string();
        }
        items.sort();
        stats.inc(if items.is_empty() { "answer.data-empty" } else { "answer.data" });
        format!("data {} {}", req_room.map(|r| r.to_string()).unwrap_or("?".into()), items.join(","))
            .trim_end()
            .to_string()
    }

    /// room of the row as stored (read through the public query API, by the owner)
    async fn stored_room(&self, id: &Uid) -> String {
        let q = "query { Person(id=$i) { room_id } }";
        match self.svc.query(q, Some(params(&[("i", base64_encode(id))]))).await {
            Ok(json) => {
                let v: serde_json::Value = serde_json::from_str(&json).unwrap_or_default();
                match v["Person"][0]["room_id"].as_str() {
                    Some(b64) => match discret::verif_hooks::security::uid_decode(b64) {
                        Ok(u) => self.room_tag(&u),
                        Err(_) => "?".into(),
                    },
                    None => "-".into(),
                }
            }
            Err(_) => "?".into(),
        }
    }
}
