//! Generator of C15 cases: sequences of data-model versions built by valid and invalid edits.
//! Biased towards what the proofs needed as hypotheses: several fields added in one version, versions
//! that are valid for some entities and invalid for others, versions built on top of a refused one,
//! the same text applied twice (restart), two models/instances fed the same versions.
use crate::ast::*;
use dvcommon::Gen;
use std::io::{BufWriter, Write};

const NS_NAMES: [&str; 4] = ["", "app", "crm", "lab"];
const ENT_NAMES: [&str; 6] = ["P", "Q", "R", "S", "T", "U"];
const FIELD_NAMES: [&str; 10] = ["a", "b", "c", "d", "e", "f", "g", "h", "k", "m"];

pub const SYSTEM_FIELD_NAMES: [&str; 11] =
    ["id", "room_id", "cdate", "mdate", "sys_peer", "sys_room", "_entity", "_json", "_binary", "verifying_key", "_signature"];

struct Ctx {
    g: Gen,
    db: bool,
}

fn full(ns: &str, e: &str) -> String {
    if ns.is_empty() {
        e.to_string()
    } else {
        format!("{}.{}", ns, e)
    }
}

impl Ctx {
    fn scalar(&mut self) -> Ty {
        if self.db {
            match self.g.weighted(&[5, 5, 1, 1]) {
                0 => Ty::Int,
                1 => Ty::Str,
                2 => Ty::Bool,
                _ => Ty::Float,
            }
        } else {
            match self.g.below(6) {
                0 => Ty::Bool,
                1 => Ty::Float,
                2 => Ty::Int,
                3 => Ty::Str,
                4 => Ty::B64,
                _ => Ty::Json,
            }
        }
    }

    fn default_for(&mut self, ty: &Ty) -> Dflt {
        match ty {
            Ty::Bool => Dflt { kind: 'b', tok: if self.g.chance(1, 2) { "true" } else { "false" }.into() },
            Ty::Float => {
                if self.g.chance(1, 3) {
                    Dflt { kind: 'i', tok: self.g.pick(&["0", "7", "-3"]).to_string() }
                } else {
                    Dflt { kind: 'f', tok: self.g.pick(&["0.5", "1.5", "-2.25"]).to_string() }
                }
            }
            Ty::Int => Dflt { kind: 'i', tok: self.g.pick(&["0", "1", "7", "42", "-3"]).to_string() },
            Ty::Str => Dflt { kind: 's', tok: self.g.pick(&["abc", "abcd", "x_y"]).to_string() },
            Ty::B64 => Dflt { kind: 's', tok: "abcd".into() },
            Ty::Json => Dflt { kind: 's', tok: "[1]".into() },
            _ => Dflt { kind: 'i', tok: "0".into() },
        }
    }

    fn targets(&self, v: &Version) -> Vec<String> {
        let mut t = vec![];
        for n in v {
            for e in &n.ents {
                t.push(full(&n.name, &e.name));
            }
        }
        t
    }

    /// a field that an *update* accepts as new (nullable, defaulted or a reference)
    fn new_field(&mut self, name: &str, v: &Version, allow_required: bool) -> AField {
        let targets = self.targets(v);
        if !targets.is_empty() && self.g.chance(1, 8) {
            let t = self.g.pick(&targets).clone();
            let ty = if self.g.chance(1, 2) { Ty::Ent(t) } else { Ty::Arr(t) };
            return AField { name: name.into(), ty, nullable: self.g.chance(1, 2), dflt: None, deprecated: false };
        }
        let ty = self.scalar();
        match self.g.weighted(&[4, 4, if allow_required { 3 } else { 0 }]) {
            0 => AField { name: name.into(), ty, nullable: true, dflt: None, deprecated: false },
            1 => {
                let d = self.default_for(&ty);
                AField { name: name.into(), ty, nullable: false, dflt: Some(d), deprecated: false }
            }
            _ => AField { name: name.into(), ty, nullable: false, dflt: None, deprecated: false },
        }
    }

    fn fresh_name(&mut self, used: &[String], pool: &[&str]) -> Option<String> {
        let free: Vec<&&str> = pool.iter().filter(|n| !used.contains(&n.to_string())).collect();
        if free.is_empty() {
            None
        } else {
            Some(free[self.g.below(free.len())].to_string())
        }
    }

    fn base(&mut self) -> Version {
        let mut v: Version = vec![];
        let n_ns = 1 + self.g.weighted(&[5, 3, 1]);
        let mut names: Vec<&str> = NS_NAMES.to_vec();
        if self.g.chance(2, 3) {
            names.swap(0, 0);
        } else {
            let j = 1 + self.g.below(3);
            names.swap(0, j);
        }
        for i in 0..n_ns {
            let mut ents = vec![];
            let n_e = 1 + self.g.weighted(&[4, 3, 1]);
            for j in 0..n_e {
                let mut fields: Vec<AField> = vec![];
                let n_f = 1 + self.g.below(4);
                for _ in 0..n_f {
                    let used: Vec<String> = fields.iter().map(|f| f.name.clone()).collect();
                    let name = self.fresh_name(&used, &FIELD_NAMES).unwrap();
                    let f = self.new_field(&name, &v, true);
                    fields.push(f);
                }
                let mut indexes = vec![];
                if self.g.chance(1, 4) {
                    let ok: Vec<&AField> = fields.iter().filter(|f| !f.ty.is_ref() && f.ty != Ty::Json).collect();
                    if !ok.is_empty() {
                        indexes.push(vec![ok[self.g.below(ok.len())].name.clone()]);
                    }
                }
                ents.push(AEntity {
                    name: ENT_NAMES[j].to_string(),
                    deprecated: false,
                    full_text: !self.g.chance(1, 6),
                    fields,
                    indexes,
                });
            }
            v.push(ANs { name: names[i].to_string(), ents });
        }
        v
    }

    fn pick_entity(&mut self, v: &Version) -> Option<(usize, usize)> {
        let mut all = vec![];
        for (i, n) in v.iter().enumerate() {
            for j in 0..n.ents.len() {
                all.push((i, j));
            }
        }
        if all.is_empty() {
            None
        } else {
            Some(all[self.g.below(all.len())])
        }
    }

    /// one edit that `Entity::update` / `update_with` accept. Returns false when not applicable.
    fn valid_edit(&mut self, v: &mut Version) -> bool {
        let snapshot = v.clone();
        let Some((i, j)) = self.pick_entity(v) else { return false };
        match self.g.weighted(&[4, 6, 2, 1, 2, 2, 2, 2, 2, 1]) {
            0 | 1 => {
                // add one field, or several in one version (bias)
                let k = if self.g.chance(1, 3) { 1 } else { 2 + self.g.below(2) };
                for _ in 0..k {
                    let used: Vec<String> = v[i].ents[j].fields.iter().map(|f| f.name.clone()).collect();
                    let Some(name) = self.fresh_name(&used, &FIELD_NAMES) else { return false };
                    let f = self.new_field(&name, &snapshot, false);
                    v[i].ents[j].fields.push(f);
                }
                true
            }
            2 => {
                let used: Vec<String> = v[i].ents.iter().map(|e| e.name.clone()).collect();
                let Some(name) = self.fresh_name(&used, &ENT_NAMES) else { return false };
                let f = self.new_field("a", &snapshot, true);
                v[i].ents.push(AEntity { name, deprecated: false, full_text: true, fields: vec![f], indexes: vec![] });
                true
            }
            3 => {
                let used: Vec<String> = v.iter().map(|n| n.name.clone()).collect();
                let Some(name) = self.fresh_name(&used, &NS_NAMES) else { return false };
                let f = self.new_field("a", &snapshot, true);
                v.push(ANs {
                    name,
                    ents: vec![AEntity { name: "P".into(), deprecated: false, full_text: true, fields: vec![f], indexes: vec![] }],
                });
                true
            }
            4 => {
                // not nullable -> nullable
                let e = &mut v[i].ents[j];
                let c: Vec<usize> = (0..e.fields.len()).filter(|k| !e.fields[*k].nullable).collect();
                if c.is_empty() {
                    return false;
                }
                let k = c[self.g.below(c.len())];
                e.fields[k].nullable = true;
                e.fields[k].dflt = None;
                true
            }
            5 => {
                // nullable -> not nullable with a default
                let c: Vec<usize> = (0..v[i].ents[j].fields.len())
                    .filter(|k| v[i].ents[j].fields[*k].nullable && !v[i].ents[j].fields[*k].ty.is_ref())
                    .collect();
                if c.is_empty() {
                    return false;
                }
                let k = c[self.g.below(c.len())];
                let d = self.default_for(&v[i].ents[j].fields[k].ty.clone());
                v[i].ents[j].fields[k].nullable = false;
                v[i].ents[j].fields[k].dflt = Some(d);
                true
            }
            6 => {
                // change / add / drop a default of a non-nullable scalar
                let c: Vec<usize> = (0..v[i].ents[j].fields.len())
                    .filter(|k| !v[i].ents[j].fields[*k].nullable && !v[i].ents[j].fields[*k].ty.is_ref())
                    .collect();
                if c.is_empty() {
                    return false;
                }
                let k = c[self.g.below(c.len())];
                if v[i].ents[j].fields[k].dflt.is_some() && self.g.chance(1, 4) {
                    v[i].ents[j].fields[k].dflt = None;
                } else {
                    let d = self.default_for(&v[i].ents[j].fields[k].ty.clone());
                    v[i].ents[j].fields[k].dflt = Some(d);
                }
                true
            }
            7 => {
                let e = &mut v[i].ents[j];
                if self.g.chance(1, 3) {
                    e.deprecated = !e.deprecated;
                } else {
                    let k = self.g.below(e.fields.len().max(1));
                    if let Some(f) = e.fields.get_mut(k) {
                        f.deprecated = !f.deprecated;
                    }
                }
                true
            }
            8 => {
                let e = &mut v[i].ents[j];
                if !e.indexes.is_empty() && self.g.chance(1, 2) {
                    let k = self.g.below(e.indexes.len());
                    e.indexes.remove(k);
                } else {
                    let ok: Vec<String> = e
                        .fields
                        .iter()
                        .filter(|f| !f.ty.is_ref() && f.ty != Ty::Json)
                        .map(|f| f.name.clone())
                        .chain(["id".to_string(), "mdate".to_string()])
                        .collect();
                    let mut ix = vec![ok[self.g.below(ok.len())].clone()];
                    if self.g.chance(1, 3) {
                        let o = ok[self.g.below(ok.len())].clone();
                        if !ix.contains(&o) {
                            ix.push(o);
                        }
                    }
                    if e.indexes.contains(&ix) {
                        return false;
                    }
                    e.indexes.push(ix);
                }
                true
            }
            _ => {
                v[i].ents[j].full_text = !v[i].ents[j].full_text;
                true
            }
        }
    }

    /// one edit the code must refuse
    fn invalid_edit(&mut self, v: &mut Version) -> bool {
        let snapshot = v.clone();
        let Some((i, j)) = self.pick_entity(v) else { return false };
        let nf = v[i].ents[j].fields.len();
        match self.g.weighted(&[5, 3, 1, 3, 2, 1, 4, 3, 5, 3, 1, 1, 1, 2, 1, 2, 1, 1]) {
            0 => {
                if nf < 2 {
                    return false;
                }
                let k = self.g.below(nf);
                v[i].ents[j].fields.remove(k);
                true
            }
            1 => {
                if v[i].ents.len() < 2 {
                    return false;
                }
                v[i].ents.remove(j);
                true
            }
            2 => {
                if v.len() < 2 {
                    return false;
                }
                v.remove(i);
                true
            }
            3 => {
                if nf < 2 {
                    return false;
                }
                let k = self.g.below(nf - 1);
                v[i].ents[j].fields.swap(k, k + 1);
                true
            }
            4 => {
                if v[i].ents.len() < 2 {
                    return false;
                }
                let k = self.g.below(v[i].ents.len() - 1);
                v[i].ents.swap(k, k + 1);
                true
            }
            5 => {
                if v.len() < 2 {
                    return false;
                }
                let k = self.g.below(v.len() - 1);
                v.swap(k, k + 1);
                true
            }
            6 => {
                // retype
                let k = self.g.below(nf.max(1));
                let Some(f) = v[i].ents[j].fields.get_mut(k) else { return false };
                // the names of the other entities of the namespace (a relation can be pointed at another one)
                let others: Vec<String> = snapshot[i].ents.iter().map(|e| e.name.clone()).collect();
                let pick = self.g.below(4);
                let other = |cur: &String, n: usize| -> Option<String> {
                    let c: Vec<&String> = others.iter().filter(|o| *o != cur).collect();
                    if c.is_empty() { None } else { Some(c[n % c.len()].clone()) }
                };
                let salt = self.g.below(7);
                let new_ty = match f.ty.clone() {
                    Ty::Int => Ty::Str,
                    // types that are stored alike: String / Json / Base64 text
                    Ty::Str => if pick == 0 { Ty::Json } else if pick == 1 { Ty::B64 } else { Ty::Int },
                    Ty::Json => if pick < 2 { Ty::Str } else { Ty::Bool },
                    Ty::Bool => Ty::Int,
                    // a relation retargeted to another entity, or single <-> array of the same entity
                    Ty::Ent(x) => match (pick, other(&x, salt)) {
                        (0 | 1, Some(o)) => Ty::Ent(o),
                        (2, _) => Ty::Arr(x),
                        _ => Ty::Bool,
                    },
                    Ty::Arr(x) => match (pick, other(&x, salt)) {
                        (0 | 1, Some(o)) => Ty::Arr(o),
                        (2, _) => Ty::Ent(x),
                        _ => Ty::Bool,
                    },
                    _ => Ty::Bool,
                };
                f.ty = new_ty;
                f.dflt = None;
                true
            }
            7 => {
                // insert in the middle
                if nf < 1 {
                    return false;
                }
                let used: Vec<String> = v[i].ents[j].fields.iter().map(|f| f.name.clone()).collect();
                let Some(name) = self.fresh_name(&used, &FIELD_NAMES) else { return false };
                let f = self.new_field(&name, &snapshot, false);
                let k = self.g.below(nf);
                v[i].ents[j].fields.insert(k, f);
                true
            }
            8 => {
                // new required field without default, possibly next to valid new fields
                let k = 1 + self.g.below(3);
                let bad = self.g.below(k);
                for x in 0..k {
                    let used: Vec<String> = v[i].ents[j].fields.iter().map(|f| f.name.clone()).collect();
                    let Some(name) = self.fresh_name(&used, &FIELD_NAMES) else { return false };
                    let mut f = self.new_field(&name, &snapshot, false);
                    if x == bad {
                        f = AField { name, ty: if self.g.chance(1, 2) { Ty::Int } else { Ty::Str }, nullable: false, dflt: None, deprecated: false };
                    }
                    v[i].ents[j].fields.push(f);
                }
                true
            }
            9 => {
                let c: Vec<usize> = (0..nf)
                    .filter(|k| v[i].ents[j].fields[*k].nullable && !v[i].ents[j].fields[*k].ty.is_ref())
                    .collect();
                if c.is_empty() {
                    return false;
                }
                let k = c[self.g.below(c.len())];
                v[i].ents[j].fields[k].nullable = false;
                v[i].ents[j].fields[k].dflt = None;
                true
            }
            10 => {
                if v.iter().any(|n| n.name == "sys") {
                    return false;
                }
                let f = self.new_field("a", &snapshot, true);
                v.push(ANs {
                    name: "sys".into(),
                    ents: vec![AEntity { name: "Zed".into(), deprecated: false, full_text: true, fields: vec![f], indexes: vec![] }],
                });
                true
            }
            11 => {
                if nf < 1 {
                    return false;
                }
                let f = v[i].ents[j].fields[self.g.below(nf)].clone();
                v[i].ents[j].fields.push(f);
                true
            }
            12 => {
                let e = v[i].ents[j].clone();
                v[i].ents.push(e);
                true
            }
            13 => {
                let name = self.g.pick(&["_x", "json", "Integer", "id", "cdate", "room_id", "verifying_key"]).to_string();
                if v[i].ents[j].fields.iter().any(|f| f.name == name) {
                    return false;
                }
                v[i].ents[j].fields.push(AField { name, ty: Ty::Int, nullable: true, dflt: None, deprecated: false });
                true
            }
            14 => {
                // default of the wrong kind
                let used: Vec<String> = v[i].ents[j].fields.iter().map(|f| f.name.clone()).collect();
                let Some(name) = self.fresh_name(&used, &FIELD_NAMES) else { return false };
                let (ty, d) = match self.g.below(5) {
                    0 => (Ty::Int, Dflt { kind: 's', tok: "abc".into() }),
                    1 => (Ty::Str, Dflt { kind: 'i', tok: "7".into() }),
                    2 => (Ty::Bool, Dflt { kind: 'f', tok: "1.5".into() }),
                    3 => (Ty::B64, Dflt { kind: 's', tok: "[1]".into() }),
                    _ => (Ty::Json, Dflt { kind: 's', tok: "abcd".into() }),
                };
                v[i].ents[j].fields.push(AField { name, ty, nullable: false, dflt: Some(d), deprecated: false });
                true
            }
            15 => {
                let e = &mut v[i].ents[j];
                match self.g.below(4) {
                    0 => e.indexes.push(vec!["zz".into()]),
                    1 => e.indexes.push(vec!["sys_room".into()]),
                    2 => {
                        let Some(f) = e.fields.first() else { return false };
                        e.indexes.push(vec![f.name.clone(), f.name.clone()]);
                    }
                    _ => {
                        let Some(ix) = e.indexes.first().cloned() else { return false };
                        e.indexes.push(ix);
                    }
                }
                true
            }
            16 => {
                let used: Vec<String> = v[i].ents[j].fields.iter().map(|f| f.name.clone()).collect();
                let Some(name) = self.fresh_name(&used, &FIELD_NAMES) else { return false };
                v[i].ents[j].fields.push(AField { name, ty: Ty::Ent("nope.Nothing".into()), nullable: true, dflt: None, deprecated: false });
                true
            }
            _ => {
                v[i].ents[j].fields.clear();
                v[i].ents[j].indexes.clear();
                true
            }
        }
    }

    /// next version from `from`: a few valid edits, and with probability an invalid one or two.
    /// returns (version, number of invalid edits)
    fn next(&mut self, from: &Version, p_invalid: (u32, u32)) -> (Version, usize) {
        let mut v = from.clone();
        let n_valid = self.g.weighted(&[1, 4, 3, 2]);
        for _ in 0..n_valid {
            for _try in 0..4 {
                if self.valid_edit(&mut v) {
                    break;
                }
            }
        }
        let mut bad = 0;
        if self.g.chance(p_invalid.0, p_invalid.1) {
            let k = 1 + self.g.weighted(&[4, 1]);
            for _ in 0..k {
                for _try in 0..6 {
                    if self.invalid_edit(&mut v) {
                        bad += 1;
                        break;
                    }
                }
            }
        }
        (v, bad)
    }
}

fn put_line(c: &mut Ctx, inst: usize, v: &Version, row: u64) -> Option<String> {
    let (i, j) = c.pick_entity(v)?;
    let e = &v[i].ents[j];
    let mut vals = vec![];
    for f in &e.fields {
        if SYSTEM_FIELD_NAMES.contains(&f.name.as_str()) || vals.iter().any(|v: &String| v.starts_with(&format!("{}:", f.name))) {
            continue; // a refused version may carry such a name, or the same name twice: not part of the op language
        }
        let required = !f.nullable && f.dflt.is_none() && !f.ty.is_ref();
        let give = required || c.g.chance(1, 2);
        if !give {
            continue;
        }
        match f.ty {
            Ty::Int => vals.push(format!("{}:i:{}", f.name, 10 + c.g.below(80))),
            Ty::Str => vals.push(format!("{}:s:w{}", f.name, c.g.below(90))),
            _ => {
                if required {
                    return None; // the generator only writes Integer and String values
                }
            }
        }
    }
    Some(format!("put i={} e={}:{} r={} vals={}", inst, v[i].name, e.name, row, vals.join(";")))
}

fn get_lines(inst: usize, v: &Version) -> Vec<String> {
    let mut res = vec![];
    for n in v {
        for e in &n.ents {
            let fs: Vec<String> = e
                .fields
                .iter()
                .filter(|f| matches!(f.ty, Ty::Int | Ty::Str))
                .map(|f| f.name.clone())
                .collect();
            if !fs.is_empty() {
                res.push(format!("get i={} e={}:{} f={}", inst, n.name, e.name, fs.join(",")));
            }
        }
    }
    res
}

pub fn gen(seed: u64, n: usize, kind: &str, out: &str) {
    let mut c = Ctx { g: Gen::new(seed ^ if kind == "db" { 0x5eed_db } else { 0x5eed_d0 }), db: kind == "db" };
    let mut w = BufWriter::new(std::fs::File::create(out).unwrap());
    for id in 0..n {
        if kind == "dm" && id % 8 == 5 {
            // wide entities: many existing fields, then one version adding several (short ids cross 99 -> 100,
            // numeric vs lexical order of the ids differ), restart on the same text, a second peer on the last text
            writeln!(w, "case id={} kind=dm n=2", id).unwrap();
            let n0 = 55 + c.g.below(20);
            let mk = |i: usize, g: &mut Gen| AField {
                name: format!("w{}", i),
                ty: if g.chance(1, 2) { Ty::Int } else { Ty::Str },
                nullable: true,
                dflt: None,
                deprecated: false,
            };
            let mut fields: Vec<AField> = vec![];
            for i in 0..n0 {
                let f = mk(i, &mut c.g);
                fields.push(f);
            }
            let mut v: Version = vec![ANs {
                name: if c.g.chance(1, 2) { "".into() } else { "app".into() },
                ents: vec![AEntity { name: "W".into(), deprecated: false, full_text: true, fields, indexes: vec![] }],
            }];
            writeln!(w, "ver i=0 v={}", enc_version(&v)).unwrap();
            let rounds = 1 + c.g.below(3);
            for _ in 0..rounds {
                let add = 2 + c.g.below(9);
                for _ in 0..add {
                    let i = v[0].ents[0].fields.len();
                    let f = mk(i, &mut c.g);
                    v[0].ents[0].fields.push(f);
                }
                writeln!(w, "ver i=0 v={}", enc_version(&v)).unwrap();
                writeln!(w, "ver i=0 v={}", enc_version(&v)).unwrap();
            }
            writeln!(w, "ver i=1 v={}", enc_version(&v)).unwrap();
        } else if kind == "dm" {
            let n_models = if c.g.chance(1, 3) { 2 } else { 1 };
            writeln!(w, "case id={} kind=dm n={}", id, n_models).unwrap();
            let with_sys = c.g.chance(1, 4);
            if with_sys {
                for i in 0..n_models {
                    writeln!(w, "sysver i={}", i).unwrap();
                }
            }
            let mut accepted = c.base();
            let mut last = accepted.clone();
            let late_joiner = n_models == 2 && c.g.chance(1, 2);
            writeln!(w, "ver i=0 v={}", enc_version(&accepted)).unwrap();
            if n_models == 2 && !late_joiner {
                writeln!(w, "ver i=1 v={}", enc_version(&accepted)).unwrap();
            }
            let steps = 2 + c.g.below(6);
            for s in 0..steps {
                // mostly from the last accepted version, sometimes on top of the refused one
                let from = if c.g.chance(1, 5) { last.clone() } else { accepted.clone() };
                let (v, bad) = c.next(&from, (2, 5));
                writeln!(w, "ver i=0 v={}", enc_version(&v)).unwrap();
                if n_models == 2 && (!late_joiner || s + 1 == steps) {
                    writeln!(w, "ver i=1 v={}", enc_version(&v)).unwrap();
                }
                if bad == 0 && from == accepted {
                    accepted = v.clone();
                }
                last = v.clone();
                if c.g.chance(1, 4) {
                    // the same text again: a restart on the same model
                    writeln!(w, "ver i=0 v={}", enc_version(&v)).unwrap();
                }
                if with_sys && c.g.chance(1, 6) {
                    writeln!(w, "sysver i=0").unwrap();
                }
            }
            if late_joiner {
                writeln!(w, "ver i=1 v={}", enc_version(&accepted)).unwrap();
                writeln!(w, "ver i=0 v={}", enc_version(&accepted)).unwrap();
            }
        } else {
            let n_inst = if c.g.chance(1, 4) { 2 } else { 1 };
            writeln!(w, "case id={} kind=db n={}", id, n_inst).unwrap();
            let mut accepted = c.base();
            let mut row = 0u64;
            for i in 0..n_inst {
                writeln!(w, "start i={} v={}", i, enc_version(&accepted)).unwrap();
            }
            for _ in 0..(1 + c.g.below(3)) {
                row += 1;
                if let Some(l) = put_line(&mut c, 0, &accepted, row) {
                    writeln!(w, "{}", l).unwrap();
                }
            }
            for l in get_lines(0, &accepted) {
                writeln!(w, "{}", l).unwrap();
            }
            let steps = 1 + c.g.below(4);
            for _ in 0..steps {
                let kind_op = c.g.weighted(&[6, 1, 2]);
                let (v, bad) = if kind_op == 1 {
                    // public call: valid, or exactly one invalid edit on an otherwise unchanged version
                    if c.g.chance(1, 2) {
                        c.next(&accepted, (0, 1))
                    } else {
                        let mut v = accepted.clone();
                        let mut bad = 0;
                        for _ in 0..6 {
                            if c.invalid_edit(&mut v) {
                                bad = 1;
                                break;
                            }
                        }
                        (v, bad)
                    }
                } else {
                    c.next(&accepted, (2, 5))
                };
                let opname = ["upd", "updpub", "start"][kind_op];
                for i in 0..n_inst {
                    writeln!(w, "{} i={} v={}", opname, i, enc_version(&v)).unwrap();
                }
                // writes that use the fields of the version just submitted (accepted or not)
                for _ in 0..c.g.below(3) {
                    row += 1;
                    let target = if c.g.chance(1, 2) { &v } else { &accepted };
                    if let Some(l) = put_line(&mut c, 0, &target.clone(), row) {
                        writeln!(w, "{}", l).unwrap();
                    }
                }
                if bad == 0 {
                    accepted = v.clone();
                } else if kind_op == 2 {
                    // a refused start leaves the instance down: bring it back on the accepted text
                    for i in 0..n_inst {
                        writeln!(w, "start i={} v={}", i, enc_version(&accepted)).unwrap();
                    }
                }
                writeln!(w, "conf i=0").unwrap();
                for l in get_lines(0, &accepted) {
                    writeln!(w, "{}", l).unwrap();
                }
                if c.g.chance(1, 2) {
                    for i in 0..n_inst {
                        writeln!(w, "start i={} v={}", i, enc_version(&accepted)).unwrap();
                    }
                    writeln!(w, "conf i=0").unwrap();
                    for l in get_lines(0, &accepted) {
                        writeln!(w, "{}", l).unwrap();
                    }
                }
            }
        }
    }
    w.flush().unwrap();
}
