//! C14: no input crashes, wedges or confuses an instance. See lean/Driver/SchemaC14.lean for the ops.
//!
//! Every op runs the REAL entry point under a panic hook (a global counter: a panic inside a service
//! thread does not unwind into the harness, it only shows in the counter and in the liveness probe).
//! After every op that touches the live instance a fixed probe query must still answer; when it does
//! not, the instance is declared wedged (reported through `<out>.oracle`) and replaced.
use discret::verif_hooks::configuration::Configuration;
use discret::verif_hooks::database::graph_database::GraphDatabaseService;
use discret::verif_hooks::database::query_language::data_model_parser::DataModel;
use discret::verif_hooks::database::query_language::parameter::{Parameters, ParametersAdd};
use discret::verif_hooks::database::query_language::{
    data_model_parser, deletion_parser, mutation_parser, query_parser, Error as QlError, ParamValue,
};
use discret::verif_hooks::database::system_entities::Invite;
use discret::verif_hooks::database::Error as DbError;
use discret::verif_hooks::event_service::EventService;
use discret::verif_hooks::security::{import_verifying_key, Ed25519SigningKey, SigningKey};
use discret::verif_hooks::signature_verification_service::{SignatureVerificationService, VerificationMessage};
use dvcommon::Stats;
use std::collections::HashMap;
use std::panic::{catch_unwind, AssertUnwindSafe};
use std::path::PathBuf;
use std::sync::atomic::{AtomicUsize, Ordering};
use std::sync::Mutex;
use std::time::Duration;

pub static PANICS: AtomicUsize = AtomicUsize::new(0);
pub static LAST_PANIC: Mutex<String> = Mutex::new(String::new());

pub fn install_panic_hook() {
    let show = std::env::var("DV_SHOW_PANICS").is_ok();
    std::panic::set_hook(Box::new(move |info| {
        PANICS.fetch_add(1, Ordering::SeqCst);
        let loc = info.location().map(|l| format!("{}:{}", l.file(), l.line())).unwrap_or_default();
        if let Ok(mut g) = LAST_PANIC.lock() {
            *g = loc.clone();
        }
        if show {
            eprintln!("panic at {}: {}", loc, info);
        }
    }));
}

fn last_panic() -> String {
    LAST_PANIC.lock().map(|g| g.clone()).unwrap_or_default()
}

pub const MODEL: &str = r#"{
    EB0 { v: Boolean } EB1 { v: Boolean nullable }
    EF0 { v: Float } EF1 { v: Float nullable }
    EX0 { v: Base64 } EX1 { v: Base64 nullable }
    EI0 { v: Integer } EI1 { v: Integer nullable }
    ES0 { v: String } ES1 { v: String nullable }
    EJ0 { v: Json } EJ1 { v: Json nullable }
    Probe { n: Integer }
    Person { name: String, age: Integer nullable, nick: String default "none", tags: Json nullable,
             parents: [Person], pet: Pet nullable, jd: Json default "[1]", index(name) }
    Pet { name: String }
}
ns { Thing { label: String, owner: Person nullable } }"#;

const CALL_TIMEOUT: Duration = Duration::from_secs(10);

pub struct Live {
    svc: GraphDatabaseService,
    seq: u64,
    /// id of a Person row created at start-up (value of the `$id…` parameters)
    an_id: String,
}

pub struct World {
    dir: PathBuf,
    n: u64,
    live: Option<Live>,
    pub oracle: Vec<String>,
    pub case_index: i64,
}

fn hex(s: &str) -> Option<Vec<u8>> {
    if s.len() % 2 != 0 {
        return None;
    }
    (0..s.len()).step_by(2).map(|i| u8::from_str_radix(&s[i..i + 2], 16).ok()).collect()
}

fn hex_str(s: &str) -> Option<String> {
    String::from_utf8(hex(s)?).ok()
}

fn class_of<T: std::fmt::Debug>(e: &T) -> String {
    let d = format!("{:?}", e);
    d.split(|c: char| !c.is_alphanumeric()).next().unwrap_or("?").to_string()
}

fn db_class(e: &DbError) -> String {
    match e {
        DbError::Parsing(q) => class_of(q),
        DbError::Database(_) => "Sql".into(),
        DbError::Json(_) => "Json".into(),
        other => format!("Db{}", class_of(other)),
    }
}

impl World {
    pub fn new(work: &str) -> Self {
        World {
            dir: PathBuf::from(work).join(format!("c14-{}", std::process::id())),
            n: 0,
            live: None,
            oracle: vec![],
            case_index: -1,
        }
    }

    fn flag(&mut self, sig: &str, detail: &str) {
        self.oracle.push(format!("{} {} {}", self.case_index.max(0), sig, detail.replace('\n', " ")));
    }

    pub async fn reset(&mut self) {
        self.live = None;
    }

    async fn start(&mut self, parallelism: usize) -> Option<GraphDatabaseService> {
        self.n += 1;
        let folder = self.dir.join(format!("i{}", self.n));
        let _ = std::fs::create_dir_all(&folder);
        let mut secret = [0u8; 32];
        secret[..8].copy_from_slice(&self.n.to_be_bytes());
        secret[8..12].copy_from_slice(&std::process::id().to_be_bytes());
        let mut c = Configuration::default();
        c.parallelism = parallelism;
        c.enable_database_memory_security = false;
        match GraphDatabaseService::start("dv schema c14", MODEL, &secret, &[7u8; 32], folder, &c, EventService::new()).await {
            Ok(r) => Some(r.0),
            Err(_) => None,
        }
    }

    async fn live(&mut self) -> Option<&mut Live> {
        if self.live.is_none() {
            let svc = self.start(2).await?;
            let _ = svc.mutate("mutate probeinit { Probe { n: 1 } }", None).await;
            let mut an_id = String::from("AAAAAAAAAAAAAAAAAAAAAA");
            if let Ok(js) = svc.mutate("mutate init { Person { name: \"first\" parents: [{ name: \"parent\" }] } }", None).await {
                if let Ok(v) = serde_json::from_str::<serde_json::Value>(&js) {
                    if let Some(id) = v.get("Person").and_then(|p| p.get("id")).and_then(|i| i.as_str()) {
                        an_id = id.to_string();
                    }
                }
            }
            self.live = Some(Live { svc, seq: 0, an_id });
        }
        self.live.as_mut()
    }

    /// the fixed probe: must answer with the one Probe row
    async fn probe(svc: &GraphDatabaseService, seq: u64) -> bool {
        let q = format!("query probe{} {{ Probe {{ n }} }}", seq);
        match tokio::time::timeout(CALL_TIMEOUT, svc.query(&q, None)).await {
            Ok(Ok(s)) => s.contains("\"n\":1"),
            _ => false,
        }
    }

    /// probe after an op on the live instance; a dead instance is reported and replaced
    async fn check_alive(&mut self, what: &str, known_sig: Option<&str>) -> bool {
        let Some(l) = self.live.as_mut() else { return false };
        l.seq += 1;
        let ok = Self::probe(&l.svc, l.seq).await;
        if !ok {
            let sig = known_sig.unwrap_or("wedge");
            self.flag(sig, &format!("the instance stopped answering after {} (last panic at {})", what, last_panic()));
            self.live = None;
        }
        ok
    }

    pub async fn handle(&mut self, kind: &str, kv: &HashMap<String, String>, stats: &mut Stats) -> Option<String> {
        let res = match kind {
            "peg" => self.op_peg(kv),
            "req" => self.op_req(kv, stats).await,
            "adm" => self.op_adm(kv, stats).await,
            "sysadm" => self.op_sysadm(kv, stats).await,
            "key" => self.op_key(kv),
            "sig" => self.op_sig(kv),
            "alias" => self.op_alias(kv, stats).await,
            "vpool" => self.op_vpool(kv).await,
            "rpool" => self.op_rpool(kv).await,
            "dateq" => self.op_dateq(kv).await,
            "frame1" => self.op_frame1(kv).await,
            "dlock" => self.op_dlock(kv).await,
            "frame" => self.op_frame(kv),
            "invite" => self.op_invite(kv).await,
            _ => return None,
        };
        stats.inc(&format!("op.{}", kind));
        Some(res)
    }

    // ---------------------------------------------------------------- grammar
    fn pest(g: &str, r: &str, text: &str) -> Option<Option<usize>> {
        // rule names resolved per grammar (the lexical rules and the top rule)
        macro_rules! rules {
            ($m:ident, $($name:literal => $v:ident),*) => {
                match r { $($name => Some($m::verif_pest_parse($m::Rule::$v, text)),)* _ => None }
            };
        }
        match g {
            "dataModel" => rules!(data_model_parser, "datamodel" => datamodel, "identifier" => identifier,
                "namespace_entity" => namespace_entity, "string" => string, "float" => float, "integer" => integer,
                "boolean" => boolean, "field" => field, "entity" => entity, "index" => index, "deprecated" => deprecated),
            "query" => rules!(query_parser, "query" => query, "identifier" => identifier,
                "namespace_entity" => namespace_entity, "string" => string, "float" => float, "integer" => integer,
                "boolean" => boolean, "variable" => variable, "entity_param" => entity_param, "json_selector" => json_selector,
                "order_by" => order_by, "filter" => filter, "unsigned_int" => unsigned_int),
            "mutation" => rules!(mutation_parser, "mutation" => mutation, "identifier" => identifier,
                "namespace_entity" => namespace_entity, "string" => string, "float" => float, "integer" => integer,
                "boolean" => boolean, "variable" => variable, "value" => value, "entity_array" => entity_array),
            "deletion" => rules!(deletion_parser, "deletion" => deletion, "identifier" => identifier,
                "namespace_entity" => namespace_entity, "variable" => variable, "array_field" => array_field),
            _ => None,
        }
    }

    fn top_rule(g: &str) -> &'static str {
        match g {
            "dataModel" => "datamodel",
            "query" => "query",
            "mutation" => "mutation",
            _ => "deletion",
        }
    }

    fn op_peg(&mut self, kv: &HashMap<String, String>) -> String {
        let (Some(g), Some(r), Some(text)) = (kv.get("g"), kv.get("r"), kv.get("s").and_then(|s| hex_str(s))) else {
            return "bad-op".into();
        };
        let before = PANICS.load(Ordering::SeqCst);
        let res = catch_unwind(AssertUnwindSafe(|| Self::pest(g, r, &text)));
        if PANICS.load(Ordering::SeqCst) != before {
            self.flag("panic", &format!("pest parser panicked at {}", last_panic()));
            return "panic".into();
        }
        match res {
            Ok(Some(Some(bytes))) => format!("m {}", text[..bytes.min(text.len())].chars().count()),
            Ok(Some(None)) => "reject".into(),
            _ => "bad-op".into(),
        }
    }

    /// parameters by naming convention: $i.. Integer, $s.. String, $f.. Float, $b.. Boolean, $n.. Null,
    /// $x.. base64, $j.. JSON text; anything else a string
    fn params_for(text: &str, an_id: &str) -> Parameters {
        let mut p = Parameters::new();
        let chars: Vec<char> = text.chars().collect();
        let mut i = 0;
        while i < chars.len() {
            if chars[i] == '$' {
                let mut j = i + 1;
                while j < chars.len() && (chars[j].is_alphanumeric() || chars[j] == '_') {
                    j += 1;
                }
                let name: String = chars[i + 1..j].iter().collect();
                if !name.is_empty() && !p.params.contains_key(&name) {
                    let v = match name.chars().next().unwrap() {
                        'i' if name.starts_with("id") => ParamValue::String(an_id.to_string()),
                        'i' => ParamValue::Integer(7),
                        'f' => ParamValue::Float(1.5),
                        'b' => ParamValue::Boolean(true),
                        'n' => ParamValue::Null,
                        'x' => ParamValue::String("abcd".into()),
                        'j' => ParamValue::String("[1]".into()),
                        _ => ParamValue::String("abc".into()),
                    };
                    p.params.insert(name, v);
                }
                i = j;
            } else {
                i += 1;
            }
        }
        p
    }

    async fn op_req(&mut self, kv: &HashMap<String, String>, stats: &mut Stats) -> String {
        let (Some(k), Some(text)) = (kv.get("k").cloned(), kv.get("s").and_then(|s| hex_str(s))) else {
            return "bad-op".into();
        };
        let before = PANICS.load(Ordering::SeqCst);
        let top = Self::top_rule(&k);
        let parsed = catch_unwind(AssertUnwindSafe(|| Self::pest(&k, top, &text)));
        let accept = match parsed {
            Ok(Some(Some(_))) => true,
            Ok(Some(None)) => false,
            _ => return "bad-op".into(),
        };
        // run it on the real entry point whatever the grammar said
        let mut err_text = String::new();
        let outcome: String = if k == "dataModel" {
            match catch_unwind(AssertUnwindSafe(|| DataModel::new().update(&text))) {
                Ok(Ok(())) => "ok".into(),
                Ok(Err(e)) => format!("err:{}", class_of(&e)),
                Err(_) => "panic".into(),
            }
        } else {
            let Some(l) = self.live().await else { return "no-instance".into() };
            l.seq += 1;
            let svc = l.svc.clone();
            let params = Self::params_for(&text, &l.an_id);
            let r = match k.as_str() {
                "query" => tokio::time::timeout(CALL_TIMEOUT, svc.query(&text, Some(params))).await.map(|r| r.map(|_| ())),
                "mutation" => tokio::time::timeout(CALL_TIMEOUT, svc.mutate(&text, Some(params))).await.map(|r| r.map(|_| ())),
                _ => tokio::time::timeout(CALL_TIMEOUT, svc.delete(&text, Some(params))).await.map(|r| r.map(|_| ())),
            };
            match r {
                Err(_) => "hang".into(),
                Ok(Ok(())) => "ok".into(),
                Ok(Err(e)) => {
                    err_text = format!("{}", e).chars().take(90).collect();
                    format!("err:{}", db_class(&e))
                }
            }
        };
        stats.inc(&format!("req.{}.{}", k, outcome));
        let panicked = PANICS.load(Ordering::SeqCst) != before;
        if panicked {
            self.flag("panic", &format!("{} request panicked at {}: {}", k, last_panic(), text.chars().take(120).collect::<String>()));
        }
        if outcome == "hang" {
            self.flag("wedge", &format!("{} request did not return: {}", k, text.chars().take(120).collect::<String>()));
        }
        if outcome == "err:Sql" && accept {
            // the request went through the grammar and the semantic checks and the storage engine refused the statement
            let selects_json_default = k == "query" && text.split(|c: char| !(c.is_alphanumeric() || c == '_')).any(|t| t == "jd");
            let sig = if (err_text.contains("fts5") || err_text.contains("unterminated string")) && text.contains("search") {
                // the search text is handed to the full-text engine as a query in ITS syntax: an empty text, an unbalanced
                // quote or parenthesis, a dangling operator are refused by the engine
                "fts-query-syntax"
            } else if err_text.contains("OFFSET") && Self::skip_without_first(&text) {
                "skip-without-first"
            } else if err_text.contains("AND") && Self::filter_and_json_filter(&text) {
                "filter-then-json-filter"
            } else if Self::has_keyword_identifier(&text) && Self::engine_names_identifier(&err_text, &text) {
                // the engine points at a token that the request uses as an alias / identifier: the keyword finding,
                // whatever else the request selects
                "sql-keyword-identifier"
            } else if selects_json_default {
                "json-default-unclosed-ifnull"
            } else if Self::has_keyword_identifier(&text) {
                "sql-keyword-identifier"
            } else {
                "engine-rejects-valid-request"
            };
            self.flag(sig, &format!("{} [{}]: {}", k, err_text, text.chars().take(160).collect::<String>()));
        }
        if k != "dataModel" {
            self.check_alive(&format!("{} request", k), None).await;
        }
        if accept { "accept".into() } else { "reject".into() }
    }

    /// some parameter list has a non-zero `skip` and no `first`
    fn skip_without_first(text: &str) -> bool {
        let chars: Vec<char> = text.chars().collect();
        let mut stack: Vec<usize> = vec![];
        for (i, c) in chars.iter().enumerate() {
            if *c == '(' {
                stack.push(i);
            } else if *c == ')' {
                if let Some(start) = stack.pop() {
                    let group: String = chars[start..i].iter().collect();
                    if let Some(p) = group.find("skip ") {
                        let arg = group[p + 5..].trim_start();
                        if !arg.starts_with('0') && !group.contains("first ") {
                            return true;
                        }
                    }
                }
            }
        }
        false
    }

    /// some parameter list has both a plain filter and a json filter
    fn filter_and_json_filter(text: &str) -> bool {
        let chars: Vec<char> = text.chars().collect();
        let mut stack: Vec<usize> = vec![];
        for (i, c) in chars.iter().enumerate() {
            if *c == '(' {
                stack.push(i);
            } else if *c == ')' {
                if let Some(start) = stack.pop() {
                    let group: String = chars[start + 1..i].iter().collect();
                    let items: Vec<&str> = group.split(',').map(|x| x.trim()).collect();
                    let is_cmp = |x: &&str| x.contains('=') || x.contains('<') || x.contains('>');
                    let json = items.iter().any(|x| x.contains("->") && is_cmp(x));
                    let plain = items.iter().any(|x| !x.contains("->") && is_cmp(x));
                    if json && plain {
                        return true;
                    }
                }
            }
        }
        false
    }

    /// some identifier the request uses as an alias / name is an SQL keyword or starts with an ASCII digit
    /// the engine's message is `near "<token>": syntax error` and <token> is one of the identifiers of the request
    fn engine_names_identifier(err_text: &str, text: &str) -> bool {
        let Some(p) = err_text.find("near \"") else { return false };
        let rest = &err_text[p + 6..];
        let Some(q) = rest.find('"') else { return false };
        let tok = rest[..q].to_lowercase();
        !tok.is_empty()
            && text
                .split(|c: char| !(c.is_alphanumeric() || c == '_'))
                .any(|t| t.to_lowercase() == tok)
    }

    fn has_keyword_identifier(text: &str) -> bool {
        const KW: [&str; 24] = ["group", "order", "select", "from", "where", "table", "index", "join", "limit", "values", "set",
            "union", "in", "is", "not", "null", "on", "or", "and", "as", "by", "to", "case", "when"];
        if text
            .split(|c: char| !(c.is_alphanumeric() || c == '_'))
            .any(|t| KW.contains(&t.to_lowercase().as_str()) || t.chars().next().map(|c| c.is_ascii_digit()).unwrap_or(false) && t.chars().any(|c| c.is_alphabetic()))
        {
            return true;
        }
        // an alias made of digits only: the token right before a ':'
        let chars: Vec<char> = text.chars().collect();
        for (i, c) in chars.iter().enumerate() {
            if *c == ':' {
                let mut j = i;
                while j > 0 && chars[j - 1].is_whitespace() {
                    j -= 1;
                }
                let mut k = j;
                while k > 0 && (chars[k - 1].is_alphanumeric() || chars[k - 1] == '_') {
                    k -= 1;
                }
                if k < j && chars[k].is_ascii_digit() {
                    return true;
                }
            }
        }
        false
    }

    // ---------------------------------------------------------------- admission matrix
    async fn op_adm(&mut self, kv: &HashMap<String, String>, stats: &mut Stats) -> String {
        let (Some(t), Some(n), Some(src), Some(v)) = (kv.get("t"), kv.get("n"), kv.get("src"), kv.get("v")) else {
            return "bad-op".into();
        };
        if !["B", "F", "X", "I", "S", "J"].contains(&t.as_str()) || !["0", "1"].contains(&n.as_str()) {
            return "bad-op".into();
        }
        let entity = format!("E{}{}", t, n);
        let value: Option<ParamValue> = match v.as_str() {
            "bool" => Some(ParamValue::Boolean(true)),
            "int" => Some(ParamValue::Integer(7)),
            "float" => Some(ParamValue::Float(1.5)),
            "nan" => Some(ParamValue::Float(f64::NAN)),
            "str00" => Some(ParamValue::String("hello".into())),
            "str01" => Some(ParamValue::String("[1]".into())),
            "str10" => Some(ParamValue::String("abcd".into())),
            "str11" => Some(ParamValue::String("1234".into())),
            "bin0" => Some(ParamValue::Binary("hello".into())),
            "bin1" => Some(ParamValue::Binary("abcd".into())),
            "null" => Some(ParamValue::Null),
            _ => None,
        };
        let Some(value) = value else { return "bad-op".into() };
        let (text, params) = match src.as_str() {
            "var" => {
                let mut p = Parameters::new();
                p.params.insert("p".to_string(), value);
                (format!("mutate adm {{ {} {{ v: $p }} }}", entity), Some(p))
            }
            "lit" => {
                let lit = match v.as_str() {
                    "bool" => "true".to_string(),
                    "int" => "7".to_string(),
                    "float" => "1.5".to_string(),
                    "str00" => "\"hello\"".to_string(),
                    "str01" => "\"[1]\"".to_string(),
                    "str10" => "\"abcd\"".to_string(),
                    "str11" => "\"1234\"".to_string(),
                    "null" => "null".to_string(),
                    _ => return "refused:not-a-literal".into(),
                };
                (format!("mutate adm {{ {} {{ v: {} }} }}", entity, lit), None)
            }
            _ => return "bad-op".into(),
        };
        let Some(l) = self.live().await else { return "no-instance".into() };
        l.seq += 1;
        // a fresh request name each time: no cached parse
        let text = text.replace("mutate adm", &format!("mutate adm{}", l.seq));
        let svc = l.svc.clone();
        let before = PANICS.load(Ordering::SeqCst);
        let r = tokio::time::timeout(CALL_TIMEOUT, svc.mutate(&text, params)).await;
        let panicked = PANICS.load(Ordering::SeqCst) != before;
        let res = if panicked {
            "bound:panic".to_string()
        } else {
            match r {
                Err(_) => "hang".to_string(),
                Ok(Ok(_)) => "bound:stored".to_string(),
                Ok(Err(DbError::Parsing(QlError::InvalidFloat(_)))) => "bound:InvalidFloat".to_string(),
                Ok(Err(DbError::Json(_))) => "bound:Json".to_string(),
                Ok(Err(DbError::Parsing(QlError::Json(_)))) => "bound:Json".to_string(),
                Ok(Err(e)) => format!("refused:{}", db_class(&e)),
            }
        };
        stats.inc(&format!("adm.{}", res));
        if panicked {
            let sig = if t == "J" && v == "null" { "json-null-panics-reader" } else { "panic" };
            self.flag(sig, &format!("{} {} src={} value={} panicked a service thread at {}", entity, text, src, v, last_panic()));
            self.check_alive("an admitted value panicked", Some(if t == "J" && v == "null" { "json-null-panics-reader" } else { "wedge" })).await;
        } else {
            self.check_alive("adm", None).await;
        }
        res
    }

    /// `sysadm c=<mut|filter> f=<system field> v=<value class>`: a parameter on a system field, in a mutation
    /// (`field: $p`) or in a query filter (`field = $p`).
    async fn op_sysadm(&mut self, kv: &HashMap<String, String>, stats: &mut Stats) -> String {
        let (Some(c), Some(f), Some(v)) = (kv.get("c"), kv.get("f"), kv.get("v")) else { return "bad-op".into() };
        const FIELDS: [&str; 9] = ["id", "room_id", "cdate", "mdate", "_entity", "_json", "_binary", "verifying_key", "_signature"];
        if !FIELDS.contains(&f.as_str()) {
            return "bad-op".into();
        }
        let value: ParamValue = match v.as_str() {
            "bool" => ParamValue::Boolean(true),
            "int" => ParamValue::Integer(7),
            "float" => ParamValue::Float(1.5),
            "nan" => ParamValue::Float(f64::NAN),
            "str00" => ParamValue::String("hello".into()),
            "str01" => ParamValue::String("[1]".into()),
            "str10" => ParamValue::String("abcd".into()),
            "str11" => ParamValue::String("1234".into()),
            "bin0" => ParamValue::Binary("hello".into()),
            "bin1" => ParamValue::Binary("abcd".into()),
            "null" => ParamValue::Null,
            _ => return "bad-op".into(),
        };
        let Some(l) = self.live().await else { return "no-instance".into() };
        l.seq += 1;
        let svc = l.svc.clone();
        let mut p = Parameters::new();
        p.params.insert("p".to_string(), value);
        let before = PANICS.load(Ordering::SeqCst);
        let (text, r) = match c.as_str() {
            "mut" => {
                let text = format!("mutate sys{} {{ Person {{ name: \"x\" {}: $p }} }}", l.seq, f);
                let r = tokio::time::timeout(CALL_TIMEOUT, svc.mutate(&text, Some(p))).await.map(|r| r.map(|_| ()));
                (text, r)
            }
            "filter" => {
                let text = format!("query sys{} {{ Person ({} = $p) {{ name }} }}", l.seq, f);
                let r = tokio::time::timeout(CALL_TIMEOUT, svc.query(&text, Some(p))).await.map(|r| r.map(|_| ()));
                (text, r)
            }
            _ => return "bad-op".into(),
        };
        let panicked = PANICS.load(Ordering::SeqCst) != before;
        let res = if panicked {
            "panic".to_string()
        } else {
            match r {
                Err(_) => "hang".to_string(),
                Ok(Ok(())) => "defined".to_string(),
                Ok(Err(DbError::Database(_))) => "sqlerr".to_string(),
                Ok(Err(DbError::Parsing(q))) => match class_of(&q).as_str() {
                    c @ ("NotNullable" | "ConflictingParameterType" | "InvalidBase64" | "InvalidQuery" | "MissingParameter"
                    | "ConflictingVariableType") => format!("refused:{}", c),
                    _ => "defined".to_string(),
                },
                Ok(Err(_)) => "defined".to_string(),
            }
        };
        stats.inc(&format!("sysadm.{}", res.split(':').next().unwrap_or("")));
        if panicked {
            self.flag("admitted-parameter-panics", &format!("{} with value class {} panicked a service thread at {}", text, v, last_panic()));
        }
        if res == "sqlerr" {
            self.flag("engine-rejects-valid-request", &format!("{} with value class {}", text, v));
        }
        self.check_alive("sysadm", if panicked { Some("admitted-parameter-panics") } else { None }).await;
        res
    }

    // ---------------------------------------------------------------- keys and signatures
    fn op_key(&mut self, kv: &HashMap<String, String>) -> String {
        let (Some(first), Some(len)) = (kv.get("first"), kv.get("len").and_then(|l| l.parse::<usize>().ok())) else {
            return "bad-op".into();
        };
        let mut bytes: Vec<u8> = vec![];
        if first != "-" {
            let Ok(b) = first.parse::<u8>() else { return "bad-op".into() };
            if len == 0 {
                return "bad-op".into();
            }
            bytes.push(b);
            // the rest: a real public key when the length allows, zeros otherwise
            let key = Ed25519SigningKey::create_from(&[3u8; 32]).export_verifying_key();
            for i in 1..len {
                bytes.push(*key.get(i).unwrap_or(&0));
            }
        } else if len != 0 {
            return "bad-op".into();
        }
        let before = PANICS.load(Ordering::SeqCst);
        let r = catch_unwind(AssertUnwindSafe(|| import_verifying_key(&bytes).map(|_| ())));
        let _ = before;
        match r {
            Err(_) => {
                let sig = if bytes.is_empty() { "empty-key-panics" } else { "panic" };
                self.flag(sig, &format!("import_verifying_key panicked on {} bytes at {}", bytes.len(), last_panic()));
                "panic".into()
            }
            Ok(Ok(())) => "dalek".into(),
            Ok(Err(e)) => match class_of(&e).as_str() {
                "InvalidKeyType" => "KeyType".into(),
                "InvalidKeyLenght" => "KeyLength".into(),
                _ => "dalek".into(),
            },
        }
    }

    fn op_sig(&mut self, kv: &HashMap<String, String>) -> String {
        let Some(len) = kv.get("len").and_then(|l| l.parse::<usize>().ok()) else { return "bad-op".into() };
        let key = Ed25519SigningKey::create_from(&[3u8; 32]).export_verifying_key();
        let r = catch_unwind(AssertUnwindSafe(|| {
            let vk = import_verifying_key(&key).map_err(|e| class_of(&e))?;
            vk.verify(b"data", &vec![1u8; len]).map_err(|e| class_of(&e))
        }));
        match r {
            Err(_) => {
                self.flag("panic", &format!("signature import panicked on {} bytes at {}", len, last_panic()));
                "panic".into()
            }
            Ok(Ok(())) => "dalek".into(),
            Ok(Err(c)) => {
                if c == "InvalidKeyLenght" {
                    "SigLength".into()
                } else {
                    "dalek".into()
                }
            }
        }
    }

    // ---------------------------------------------------------------- identifiers spliced into SQL
    async fn op_alias(&mut self, kv: &HashMap<String, String>, stats: &mut Stats) -> String {
        let Some(a) = kv.get("a").and_then(|s| hex_str(s)) else { return "bad-op".into() };
        match query_parser::verif_pest_parse(query_parser::Rule::identifier, &a) {
            Some(n) if n == a.len() => {}
            _ => return "reject".into(),
        }
        let Some(l) = self.live().await else { return "no-instance".into() };
        l.seq += 1;
        let text = format!("query al{} {{ {}: Person {{ id }} }}", l.seq, a);
        let svc = l.svc.clone();
        let r = tokio::time::timeout(CALL_TIMEOUT, svc.query(&text, None)).await;
        let res = match r {
            Err(_) => "hang".to_string(),
            Ok(Ok(_)) => "ok".to_string(),
            Ok(Err(DbError::Database(_))) => "sqlerr".to_string(),
            Ok(Err(e)) => format!("err:{}", db_class(&e)),
        };
        stats.inc(&format!("alias.{}", res));
        if res == "sqlerr" {
            self.flag("sql-keyword-identifier", &format!("alias '{}' is accepted by the grammar and produces invalid SQL", a));
        }
        self.check_alive("alias", None).await;
        res
    }

    // ---------------------------------------------------------------- thread pools
    /// `vpool n=<threads> k=<messages with an empty key>`: is the verifier pool still answering?
    async fn op_vpool(&mut self, kv: &HashMap<String, String>) -> String {
        let (Some(n), Some(k)) = (kv.get("n").and_then(|x| x.parse::<usize>().ok()), kv.get("k").and_then(|x| x.parse::<usize>().ok()))
        else {
            return "bad-op".into();
        };
        if n == 0 || n > 8 || k > 32 {
            return "bad-op".into();
        }
        let svc = SignatureVerificationService::start(n);
        for _ in 0..k {
            let (reply, rx) = tokio::sync::oneshot::channel::<bool>();
            let sent = tokio::time::timeout(
                Duration::from_secs(2),
                svc.sender.send_async(VerificationMessage::Hash(vec![0u8; 64], [0u8; 32], vec![], reply)),
            )
            .await;
            if sent.is_err() {
                break;
            }
            let _ = tokio::time::timeout(Duration::from_secs(2), rx).await;
        }
        // probe: a well-formed message must be answered
        let key = Ed25519SigningKey::create_from(&[3u8; 32]);
        let hash = [5u8; 32];
        let sig = key.sign(&hash);
        let (reply, rx) = tokio::sync::oneshot::channel::<bool>();
        let sent = tokio::time::timeout(
            Duration::from_secs(2),
            svc.sender.send_async(VerificationMessage::Hash(sig, hash, key.export_verifying_key(), reply)),
        )
        .await;
        let alive = match sent {
            Ok(Ok(())) => matches!(tokio::time::timeout(Duration::from_secs(3), rx).await, Ok(Ok(true))),
            _ => false,
        };
        if !alive {
            self.flag("empty-key-panics", &format!("verifier pool of {} threads stopped answering after {} messages with an empty key", n, k));
        }
        if alive { "alive".into() } else { "dead".into() }
    }

    /// `rpool n=<parallelism> k=<null parameters on a nullable Json field>`: does the instance still answer?
    async fn op_rpool(&mut self, kv: &HashMap<String, String>) -> String {
        let (Some(n), Some(k)) = (kv.get("n").and_then(|x| x.parse::<usize>().ok()), kv.get("k").and_then(|x| x.parse::<usize>().ok()))
        else {
            return "bad-op".into();
        };
        if n == 0 || n > 8 || k > 16 {
            return "bad-op".into();
        }
        let Some(svc) = self.start(n).await else { return "no-instance".into() };
        let _ = svc.mutate("mutate probeinit { Probe { n: 1 } }", None).await;
        for i in 0..k {
            let mut p = Parameters::new();
            let _ = p.add_null("p");
            let _ = tokio::time::timeout(Duration::from_secs(3), svc.mutate(&format!("mutate jn{} {{ EJ1 {{ v: $p }} }}", i), Some(p))).await;
        }
        let alive = Self::probe(&svc, 1).await;
        if !alive {
            self.flag("json-null-panics-reader", &format!("instance with {} reader threads stopped answering after {} null parameters on a nullable Json field", n, k));
        }
        if alive { "alive".into() } else { "dead".into() }
    }

    /// `dateq n=<parallelism> k=<requests> d=<date>`: the daily-nodes read a peer can request with its own date
    async fn op_dateq(&mut self, kv: &HashMap<String, String>) -> String {
        let (Some(n), Some(k), Some(d)) = (
            kv.get("n").and_then(|x| x.parse::<usize>().ok()),
            kv.get("k").and_then(|x| x.parse::<usize>().ok()),
            kv.get("d").and_then(|x| x.parse::<i64>().ok()),
        ) else {
            return "bad-op".into();
        };
        if n == 0 || n > 8 || k > 16 {
            return "bad-op".into();
        }
        let Some(svc) = self.start(n).await else { return "no-instance".into() };
        let _ = svc.mutate("mutate probeinit { Probe { n: 1 } }", None).await;
        let before = PANICS.load(Ordering::SeqCst);
        for _ in 0..k {
            let mut rx = svc.get_room_daily_nodes([7u8; 16], "1.0".to_string(), d).await;
            let _ = tokio::time::timeout(Duration::from_secs(3), rx.recv()).await;
        }
        let alive = Self::probe(&svc, 1).await;
        if PANICS.load(Ordering::SeqCst) != before {
            self.flag("date-out-of-range-panics-reader", &format!("a daily-nodes request with date {} panicked a reader thread at {}", d, last_panic()));
        }
        if !alive {
            self.flag("date-out-of-range-panics-reader", &format!("instance with {} reader threads stopped answering after {} daily-nodes requests with date {}", n, k, d));
        }
        if alive { "alive".into() } else { "dead".into() }
    }

    /// `frame1 len=<n> max=<max_buffer_size>`: a real `DiscretEndpoint` on localhost, a QUIC client without any
    /// credential opens the three streams and announces a first frame of `len` bytes on the event stream
    /// (endpoint.rs:353-355). Observed: is the connection still open 1.5 s later (the acceptor waits for the
    /// frame), and did the process' virtual size grow by about `len` (the acceptor allocated it)?
    async fn op_frame1(&mut self, kv: &HashMap<String, String>) -> String {
        use discret::verif_hooks::network::endpoint::{build_endpoint, DiscretEndpoint, ServerCertVerifier};
        use discret::verif_hooks::peer_connection_service::{PeerConnectionMessage, PeerConnectionService};
        use discret::verif_hooks::security::generate_x509_certificate;
        use tokio::io::AsyncWriteExt;
        let (Some(len), Some(max)) = (kv.get("len").and_then(|x| x.parse::<u32>().ok()), kv.get("max").and_then(|x| x.parse::<usize>().ok()))
        else {
            return "bad-op".into();
        };
        if len > 0x4800_0000 || max >= 0x1000_0000 {
            return "bad-op".into(); // keep the experiment within what the sandbox can map
        }
        fn vmsize_kb() -> u64 {
            std::fs::read_to_string("/proc/self/status")
                .ok()
                .and_then(|s| s.lines().find(|l| l.starts_with("VmSize:")).and_then(|l| l.split_whitespace().nth(1).and_then(|x| x.parse().ok())))
                .unwrap_or(0)
        }
        let (tx, mut rx) = tokio::sync::mpsc::channel::<PeerConnectionMessage>(8);
        tokio::spawn(async move { while rx.recv().await.is_some() {} });
        let server = match DiscretEndpoint::start(PeerConnectionService { sender: tx }, max, &[1u8; 33]).await {
            Ok(s) => s,
            Err(e) => return format!("err:server:{}", class_of(&e)),
        };
        let verifier = ServerCertVerifier::new();
        let name = verifier.add_valid_certificate(server.ipv4_cert_hash);
        let client = match build_endpoint("0.0.0.0:0".parse().unwrap(), generate_x509_certificate("client.example.org"), verifier) {
            Ok(c) => c,
            Err(e) => return format!("err:client:{}", class_of(&e)),
        };
        let addr = format!("127.0.0.1:{}", server.ipv4_port).parse().unwrap();
        let connecting = match client.connect(addr, &name) {
            Ok(c) => c,
            Err(e) => return format!("err:connect:{}", class_of(&e)),
        };
        let conn = match tokio::time::timeout(Duration::from_secs(5), connecting).await {
            Ok(Ok(c)) => c,
            _ => return "err:handshake".into(),
        };
        let vm0 = vmsize_kb();
        let mut keep = vec![];
        for flag in [1u8, 2, 3] {
            let Ok((mut send, recv)) = conn.open_bi().await else { return "err:open_bi".into() };
            if send.write_u8(flag).await.is_err() {
                return "err:write".into();
            }
            if flag == 3 && send.write_u32(len).await.is_err() {
                return "err:write".into();
            }
            keep.push((send, recv));
        }
        tokio::time::sleep(Duration::from_millis(1500)).await;
        let vm1 = vmsize_kb();
        let open = conn.close_reason().is_none();
        let grown = vm1.saturating_sub(vm0) * 1024 >= (len as u64 / 10) * 9 && len >= 0x1000_0000;
        if open && len as usize > max {
            self.flag(
                "unbounded-first-frame",
                &format!("an unauthenticated client announced a first frame of {} bytes (max_buffer_size {}): the acceptor kept the connection and the process grew by {} MiB",
                    len, max, vm1.saturating_sub(vm0) / 1024),
            );
        }
        drop(keep);
        conn.close(0u32.into(), b"done");
        if open {
            format!("open grown={}", if grown { 1 } else { 0 })
        } else {
            "closed".into()
        }
    }

    /// `dlock n=<parallelism> k=<ComputeDailyLog messages>`: what every mutation sends after its reply
    /// (`DbMessage::ComputeDailyLog`), k times, immediately followed by a data model update on the same text.
    /// The writer thread acknowledges each daily-log computation with `blocking_send` into the actor's mailbox
    /// (capacity = parallelism) while the actor, inside `update_data_model`, awaits a reply from that same
    /// writer thread. Timing dependent: an exploration op (no model verdict), the oracle reports a wedge.
    async fn op_dlock(&mut self, kv: &HashMap<String, String>) -> String {
        use discret::verif_hooks::database::graph_database::DbMessage;
        let (Some(n), Some(k)) = (kv.get("n").and_then(|x| x.parse::<usize>().ok()), kv.get("k").and_then(|x| x.parse::<usize>().ok()))
        else {
            return "bad-op".into();
        };
        if n == 0 || n > 8 || k > 64 {
            return "bad-op".into();
        }
        let Some(svc) = self.start(n).await else { return "no-instance".into() };
        let _ = svc.mutate("mutate probeinit { Probe { n: 1 } }", None).await;
        let sender = svc.sender.clone();
        let feeder = tokio::spawn(async move {
            for _ in 0..k {
                let _ = sender.send(DbMessage::ComputeDailyLog()).await;
            }
            let (reply, receive) = tokio::sync::oneshot::channel();
            let _ = sender.send(DbMessage::DataModelUpdate(MODEL.to_string(), reply)).await;
            tokio::time::timeout(Duration::from_secs(3), receive).await.is_ok()
        });
        let answered = matches!(tokio::time::timeout(Duration::from_secs(4), feeder).await, Ok(Ok(true)));
        // a short probe: a wedged actor never answers, a live one answers in milliseconds
        let alive = answered
            && matches!(
                tokio::time::timeout(Duration::from_secs(2), svc.query("query probedl { Probe { n } }", None)).await,
                Ok(Ok(_))
            );
        if !alive {
            self.flag(
                "actor-writer-deadlock",
                &format!("instance with mailbox capacity {} stopped answering after {} daily-log requests followed by a data model update", n, k),
            );
        }
        "explored".into()
    }

    // ---------------------------------------------------------------- byte-level exploration (no model verdict)
    fn op_frame(&mut self, kv: &HashMap<String, String>) -> String {
        use discret::verif_hooks::synchronisation::{Answer, Query};
        let (Some(t), Some(bytes)) = (kv.get("t"), kv.get("b").and_then(|s| hex(s))) else { return "bad-op".into() };
        let r = catch_unwind(AssertUnwindSafe(|| match t.as_str() {
            "Query" => bincode::deserialize::<Query>(&bytes).is_ok(),
            "Answer" => bincode::deserialize::<Answer>(&bytes).is_ok(),
            "Invite" => bincode::deserialize::<Invite>(&bytes).is_ok(),
            "Node" => bincode::deserialize::<discret::verif_hooks::database::node::Node>(&bytes).is_ok(),
            _ => false,
        }));
        if r.is_err() {
            self.flag("panic", &format!("bincode::deserialize::<{}> panicked on {} bytes at {}", t, bytes.len(), last_panic()));
        }
        "explored".into()
    }

    async fn op_invite(&mut self, kv: &HashMap<String, String>) -> String {
        let Some(bytes) = kv.get("b").and_then(|s| hex(s)) else { return "bad-op".into() };
        let before = PANICS.load(Ordering::SeqCst);
        let inv = catch_unwind(AssertUnwindSafe(|| bincode::deserialize::<Invite>(&bytes)));
        if let Ok(Ok(inv)) = inv {
            if let Some(l) = self.live().await {
                let svc = l.svc.clone();
                let _ = tokio::time::timeout(CALL_TIMEOUT, inv.insert("AAAAAAAAAAAAAAAAAAAAAA".to_string(), &svc)).await;
            }
            self.check_alive("invite", None).await;
        }
        if PANICS.load(Ordering::SeqCst) != before {
            self.flag("panic", &format!("invitation of {} bytes panicked at {}", bytes.len(), last_panic()));
        }
        "explored".into()
    }
}
