//! Engine `schema` (C15, C14).
//!
//!   dv-schema gen  --prop C15 --seed S --n N --kind dm|db --out FILE
//!   dv-schema run  --ops FILE --out FILE [--stats FILE] [--work DIR]
//!
//! `run` writes one observation line per op line into --out, and the visit-order hints the model
//! needs (hash-map iteration order cannot be predicted, only observed) into `<out>.hints`.
mod ast;
mod c14;
mod c15;
mod c15gen;

use dvcommon::Args;

fn main() {
    let a = Args::parse();
    match a.cmd.as_str() {
        "gen" => match a.str_or("prop", "C15").as_str() {
            "C15" => c15gen::gen(
                a.u64_or("seed", 1),
                a.usize_or("n", 100),
                &a.str_or("kind", "dm"),
                &a.str_or("out", "cases.ops"),
            ),
            _ => {
                eprintln!("unknown --prop");
                std::process::exit(2);
            }
        },
        "run" => {
            let ops = a.str_or("ops", "cases.ops");
            let out = a.str_or("out", "impl.out");
            let work = a.str_or("work", &std::env::var("VERIF_OUT").map(|o| format!("{}/work/schema-tmp", o)).unwrap_or("/verif/work/schema-tmp".into()));
            let rt = tokio::runtime::Builder::new_multi_thread().worker_threads(2).enable_all().build().unwrap();
            rt.block_on(c15::run(&ops, &out, a.get("stats"), &work));
            // The instances leave detached OS threads behind (the database actor holds a sender to its own
            // mailbox, so it never ends). A normal exit runs the C library's atexit handlers (OpenSSL/sqlcipher
            // clean-up) while those threads still use them: sporadic "double free" aborts AFTER all output was
            // written. Everything is flushed at this point, so leave without running them.
            unsafe { libc::_exit(0) }
        }
        _ => {
            eprintln!("usage: dv-schema gen|run …");
            std::process::exit(2);
        }
    }
}
