//! The AST of a data-model version, its one-token encoding (shared with the Lean driver, see
//! lean/Driver/Schema.lean) and its rendering to data-model text for the real parser.
#[derive(Clone, Debug, PartialEq)]
pub enum Ty {
    Bool,
    Float,
    Int,
    Str,
    B64,
    Json,
    Ent(String),
    Arr(String),
}
impl Ty {
    pub fn is_ref(&self) -> bool {
        matches!(self, Ty::Ent(_) | Ty::Arr(_))
    }
    pub fn enc(&self) -> String {
        match self {
            Ty::Bool => "B".into(),
            Ty::Float => "F".into(),
            Ty::Int => "I".into(),
            Ty::Str => "S".into(),
            Ty::B64 => "X".into(),
            Ty::Json => "J".into(),
            Ty::Ent(t) => format!("E>{}", t),
            Ty::Arr(t) => format!("A>{}", t),
        }
    }
    pub fn dec(s: &str) -> Option<Ty> {
        Some(match s {
            "B" => Ty::Bool,
            "F" => Ty::Float,
            "I" => Ty::Int,
            "S" => Ty::Str,
            "X" => Ty::B64,
            "J" => Ty::Json,
            _ => {
                let (k, t) = s.split_once('>')?;
                if t.is_empty() {
                    return None;
                }
                match k {
                    "E" => Ty::Ent(t.to_string()),
                    "A" => Ty::Arr(t.to_string()),
                    _ => return None,
                }
            }
        })
    }
    pub fn text(&self) -> String {
        match self {
            Ty::Bool => "Boolean".into(),
            Ty::Float => "Float".into(),
            Ty::Int => "Integer".into(),
            Ty::Str => "String".into(),
            Ty::B64 => "Base64".into(),
            Ty::Json => "Json".into(),
            Ty::Ent(t) => t.clone(),
            Ty::Arr(t) => format!("[{}]", t),
        }
    }
}

/// default value: kind char (b f i s) and literal token
#[derive(Clone, Debug, PartialEq)]
pub struct Dflt {
    pub kind: char,
    pub tok: String,
}

#[derive(Clone, Debug, PartialEq)]
pub struct AField {
    pub name: String,
    pub ty: Ty,
    pub nullable: bool,
    pub dflt: Option<Dflt>,
    pub deprecated: bool,
}

#[derive(Clone, Debug, PartialEq)]
pub struct AEntity {
    pub name: String,
    pub deprecated: bool,
    pub full_text: bool,
    pub fields: Vec<AField>,
    pub indexes: Vec<Vec<String>>,
}

#[derive(Clone, Debug, PartialEq)]
pub struct ANs {
    pub name: String,
    pub ents: Vec<AEntity>,
}

pub type Version = Vec<ANs>;

fn flags(l: &[(bool, char)]) -> String {
    let s: String = l.iter().filter(|p| p.0).map(|p| p.1).collect();
    if s.is_empty() {
        "-".into()
    } else {
        s
    }
}

pub fn enc_field(f: &AField) -> String {
    format!(
        "{}/{}/{}/{}",
        f.name,
        f.ty.enc(),
        flags(&[(f.nullable, 'n'), (f.deprecated, 'd')]),
        match &f.dflt {
            None => "-".to_string(),
            Some(d) => format!("{}:{}", d.kind, d.tok),
        }
    )
}

pub fn enc_entity(e: &AEntity) -> String {
    format!(
        "{}~{}~{}~{}",
        e.name,
        flags(&[(e.deprecated, 'd'), (!e.full_text, 'n')]),
        e.fields.iter().map(enc_field).collect::<Vec<_>>().join(","),
        e.indexes.iter().map(|ix| ix.join("&")).collect::<Vec<_>>().join("+")
    )
}

pub fn enc_version(v: &Version) -> String {
    v.iter()
        .map(|n| format!("{}!{}", n.name, n.ents.iter().map(enc_entity).collect::<Vec<_>>().join(";")))
        .collect::<Vec<_>>()
        .join("|")
}

fn split_list<'a>(s: &'a str, sep: char) -> Vec<&'a str> {
    if s.is_empty() {
        vec![]
    } else {
        s.split(sep).collect()
    }
}

fn flags_ok(s: &str, allowed: &[char]) -> bool {
    s == "-" || (!s.is_empty() && s.chars().all(|c| allowed.contains(&c)))
}

pub fn dec_field(s: &str) -> Option<AField> {
    let p: Vec<&str> = s.split('/').collect();
    if p.len() != 4 || p[0].is_empty() || !flags_ok(p[2], &['n', 'd']) {
        return None;
    }
    let ty = Ty::dec(p[1])?;
    let dflt = if p[3] == "-" {
        None
    } else {
        let (k, t) = p[3].split_once(':')?;
        let k = match k {
            "b" => 'b',
            "f" => 'f',
            "i" => 'i',
            "s" => 's',
            _ => return None,
        };
        Some(Dflt { kind: k, tok: t.to_string() })
    };
    let f = AField {
        name: p[0].to_string(),
        ty,
        nullable: p[2].contains('n'),
        dflt,
        deprecated: p[2].contains('d'),
    };
    // same well-formedness as the Lean driver (`fieldWellFormed`)
    if f.ty.is_ref() {
        if f.dflt.is_some() {
            return None;
        }
    } else if f.nullable && f.dflt.is_some() {
        return None;
    }
    if let Some(d) = &f.dflt {
        if d.kind == 's' && (f.ty == Ty::B64 || f.ty == Ty::Json) && d.tok != "abcd" && d.tok != "[1]" {
            return None;
        }
    }
    Some(f)
}

pub fn dec_entity(s: &str) -> Option<AEntity> {
    let p: Vec<&str> = s.split('~').collect();
    if p.len() != 4 || p[0].is_empty() || !flags_ok(p[1], &['d', 'n']) {
        return None;
    }
    let mut fields = vec![];
    for f in split_list(p[2], ',') {
        fields.push(dec_field(f)?);
    }
    let mut indexes = vec![];
    for ix in split_list(p[3], '+') {
        let names: Vec<String> = split_list(ix, '&').iter().map(|x| x.to_string()).collect();
        if names.is_empty() || names.iter().any(|n| n.is_empty()) {
            return None;
        }
        indexes.push(names);
    }
    Some(AEntity {
        name: p[0].to_string(),
        deprecated: p[1].contains('d'),
        full_text: !p[1].contains('n'),
        fields,
        indexes,
    })
}

pub fn dec_version(s: &str) -> Option<Version> {
    let mut v = vec![];
    for b in split_list(s, '|') {
        let (name, ents) = b.split_once('!')?;
        if name != name.to_lowercase() {
            return None;
        }
        let mut es = vec![];
        for e in split_list(ents, ';') {
            es.push(dec_entity(e)?);
        }
        v.push(ANs { name: name.to_string(), ents: es });
    }
    Some(v)
}

/// data-model text for the real parser
pub fn render(v: &Version) -> String {
    let mut s = String::new();
    for n in v {
        s.push_str(&n.name);
        s.push_str(" {\n");
        for e in &n.ents {
            s.push_str("  ");
            if e.deprecated {
                s.push_str("@deprecated ");
            }
            s.push_str(&e.name);
            if !e.full_text {
                s.push_str(" (no_full_text_index)");
            }
            s.push_str(" {\n");
            let mut entries: Vec<String> = vec![];
            for f in &e.fields {
                let mut t = String::from("    ");
                if f.deprecated {
                    t.push_str("@deprecated ");
                }
                t.push_str(&f.name);
                t.push_str(": ");
                t.push_str(&f.ty.text());
                if f.nullable {
                    t.push_str(" nullable");
                }
                if let Some(d) = &f.dflt {
                    if d.kind == 's' {
                        t.push_str(&format!(" default \"{}\"", d.tok.replace('"', "\\\"")));
                    } else {
                        t.push_str(&format!(" default {}", d.tok));
                    }
                }
                entries.push(t);
            }
            for ix in &e.indexes {
                entries.push(format!("    index({})", ix.join(", ")));
            }
            s.push_str(&entries.join(",\n"));
            s.push_str("\n  }\n");
        }
        s.push_str("}\n");
    }
    s
}
