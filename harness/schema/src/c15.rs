//! C15: data-model versions applied to the real `DataModel` and to real `GraphDatabaseService`
//! instances. See lean/Driver/Schema.lean for the op protocol.
use crate::ast::*;
use discret::verif_hooks::configuration::Configuration;
use discret::verif_hooks::database::graph_database::{DbMessage, GraphDatabaseService};
use discret::verif_hooks::database::query_language::data_model_parser::DataModel;
use discret::verif_hooks::database::query_language::Error as QlError;
use discret::verif_hooks::database::system_entities::SYSTEM_DATA_MODEL;
use discret::verif_hooks::database::Error as DbError;
use discret::verif_hooks::event_service::EventService;
use dvcommon::{parse_kv, Stats};
use serde_json::Value;
use std::collections::HashMap;
use std::io::{BufRead, BufWriter, Write};
use std::panic::{catch_unwind, AssertUnwindSafe};
use std::path::PathBuf;
use std::time::Duration;
use tokio::sync::oneshot;

// ------------------------------------------------------------------------------------ id table

#[derive(Clone, Debug, PartialEq)]
pub struct TField {
    pub name: String,
    pub short: u64,
    pub ty: String,
    pub nullable: bool,
    pub deprecated: bool,
    pub dflt: String,
}
impl TField {
    fn text(&self) -> String {
        let mut m = String::new();
        if self.nullable {
            m.push('n');
        }
        if self.deprecated {
            m.push('d');
        }
        if m.is_empty() {
            m.push('-');
        }
        format!("{}={}/{}/{}/{}", self.name, self.short, self.ty, m, self.dflt)
    }
}
#[derive(Clone, Debug, PartialEq)]
pub struct TEnt {
    pub name: String,
    pub short: String,
    pub k: u64,
    pub deprecated: bool,
    pub full_text: bool,
    pub fields: Vec<TField>,
    pub idx: Vec<String>,
    pub rm: Vec<String>,
}
impl TEnt {
    fn text(&self) -> String {
        let mut m = String::new();
        if self.deprecated {
            m.push('d');
        }
        if !self.full_text {
            m.push('n');
        }
        if m.is_empty() {
            m.push('-');
        }
        format!(
            "{}@{}!{}{{{}}}[{}][{}]",
            self.name,
            self.short,
            m,
            self.fields.iter().map(|f| f.text()).collect::<Vec<_>>().join(","),
            self.idx.join("+"),
            self.rm.join("+")
        )
    }
}
#[derive(Clone, Debug, PartialEq)]
pub struct TNs {
    pub name: String,
    pub id: u64,
    pub ents: Vec<TEnt>,
}
#[derive(Clone, Debug, PartialEq, Default)]
pub struct Tab {
    pub nss: Vec<TNs>,
    /// the reverse table `entities_short`: short name -> (namespace, entity), as `short=ns:Entity`, sorted
    pub rev: Vec<String>,
}
impl Tab {
    pub fn text(&self) -> String {
        let mut s = String::from("T");
        for n in &self.nss {
            s.push('|');
            s.push_str(&format!("{}@{}", n.name, n.id));
            for e in &n.ents {
                s.push(';');
                s.push_str(&e.text());
            }
        }
        s.push_str("|#rev:");
        s.push_str(&self.rev.join(","));
        s
    }
    pub fn ns(&self, n: &str) -> Option<&TNs> {
        self.nss.iter().find(|x| x.name == n)
    }
}

fn type_str(v: &Value) -> String {
    match v {
        Value::String(s) => match s.as_str() {
            "Boolean" => "B".into(),
            "Float" => "F".into(),
            "Integer" => "I".into(),
            "String" => "S".into(),
            "Base64" => "X".into(),
            "Json" => "J".into(),
            o => format!("?{}", o),
        },
        Value::Object(m) => {
            if let Some(Value::String(t)) = m.get("Entity") {
                format!("E>{}", t)
            } else if let Some(Value::String(t)) = m.get("Array") {
                format!("A>{}", t)
            } else {
                "?".into()
            }
        }
        _ => "?".into(),
    }
}

fn dflt_str(v: &Value) -> String {
    match v {
        Value::Null => "-".into(),
        Value::Object(m) => {
            if let Some(Value::Bool(b)) = m.get("Boolean") {
                format!("b:{}", b)
            } else if let Some(x) = m.get("Integer") {
                format!("i:{}", x)
            } else if let Some(x) = m.get("Float") {
                format!("f:{}", x)
            } else if let Some(Value::String(x)) = m.get("String") {
                format!("s:{}", x)
            } else {
                "?".into()
            }
        }
        _ => "?".into(),
    }
}

fn index_names(v: Option<&Value>) -> Vec<String> {
    let mut res = vec![];
    if let Some(Value::Object(m)) = v {
        for (_, ix) in m {
            let names: Vec<String> = ix
                .get("fields")
                .and_then(|f| f.as_array())
                .map(|a| {
                    a.iter()
                        .map(|f| f.get("name").and_then(|n| n.as_str()).unwrap_or("?").to_string())
                        .collect()
                })
                .unwrap_or_default();
            res.push(names.join("&"));
        }
    }
    res.sort();
    res
}

/// canonical id table of a serialised `DataModel`
pub fn table(model_json: &Value) -> Tab {
    let mut tab = Tab::default();
    let ids = model_json.get("namespace_ids").and_then(|v| v.as_object()).cloned().unwrap_or_default();
    let nss = model_json.get("namespaces").and_then(|v| v.as_object()).cloned().unwrap_or_default();
    let shorts = model_json.get("entities_short").and_then(|v| v.as_object()).cloned().unwrap_or_default();
    for (nname, ents) in &nss {
        let id = ids.get(nname).and_then(|v| v.as_u64()).unwrap_or(9999);
        let mut tn = TNs { name: nname.clone(), id, ents: vec![] };
        if let Value::Object(em) = ents {
            for (full, e) in em {
                let name = if nname.is_empty() {
                    full.clone()
                } else {
                    full.strip_prefix(&format!("{}.", nname)).unwrap_or(full).to_string()
                };
                let short = e.get("short_name").and_then(|v| v.as_str()).unwrap_or("?").to_string();
                let k = short.rsplit('.').next().and_then(|x| x.parse::<u64>().ok()).unwrap_or(9999);
                let mut fields = vec![];
                if let Some(Value::Object(fm)) = e.get("fields") {
                    for (fname, f) in fm {
                        fields.push(TField {
                            name: fname.clone(),
                            short: f
                                .get("short_name")
                                .and_then(|v| v.as_str())
                                .and_then(|x| x.parse().ok())
                                .unwrap_or(9999),
                            ty: type_str(f.get("field_type").unwrap_or(&Value::Null)),
                            nullable: f.get("nullable").and_then(|v| v.as_bool()).unwrap_or(false),
                            deprecated: f.get("deprecated").and_then(|v| v.as_bool()).unwrap_or(false),
                            dflt: dflt_str(f.get("default_value").unwrap_or(&Value::Null)),
                        });
                    }
                }
                fields.sort_by(|a, b| a.short.cmp(&b.short).then(a.name.cmp(&b.name)));
                tn.ents.push(TEnt {
                    name,
                    short,
                    k,
                    deprecated: e.get("deprecated").and_then(|v| v.as_bool()).unwrap_or(false),
                    full_text: e.get("enable_full_text").and_then(|v| v.as_bool()).unwrap_or(true),
                    fields,
                    idx: index_names(e.get("indexes")),
                    rm: index_names(e.get("indexes_to_remove")),
                });
            }
        }
        tn.ents.sort_by(|a, b| a.k.cmp(&b.k).then(a.name.cmp(&b.name)));
        tab.nss.push(tn);
    }
    tab.nss.sort_by(|a, b| a.id.cmp(&b.id).then(a.name.cmp(&b.name)));
    for (short, v) in &shorts {
        let (n, full) = match v {
            Value::Array(a) if a.len() == 2 => (a[0].as_str().unwrap_or("?").to_string(), a[1].as_str().unwrap_or("?").to_string()),
            _ => ("?".to_string(), "?".to_string()),
        };
        let name = if n.is_empty() { full.clone() } else { full.strip_prefix(&format!("{}.", n)).unwrap_or(&full).to_string() };
        tab.rev.push(format!("{}={}:{}", short, n, name));
    }
    tab.rev.sort();
    tab
}

// ------------------------------------------------------------------------------------ errors, hints

/// (class, namespace, entity, field) of a refusal
#[derive(Clone, Debug, Default)]
pub struct Site {
    pub class: String,
    pub ns: Option<String>,
    pub ent: Option<String>,
    pub field: Option<String>,
}

fn split_full(full: &str) -> (String, String) {
    match full.split_once('.') {
        Some((n, e)) => (n.to_string(), e.to_string()),
        None => (String::new(), full.to_string()),
    }
}

pub fn ql_site(e: &QlError) -> Site {
    let dbg = format!("{:?}", e);
    let class = dbg.split(|c: char| !c.is_alphanumeric()).next().unwrap_or("?").to_string();
    let mut s = Site { class, ..Default::default() };
    match e {
        QlError::MissingNamespace(n) | QlError::InvalidNamespaceOrdering(n, _, _) => s.ns = Some(n.clone()),
        QlError::MissingEntity(full) | QlError::InvalidEntityOrdering(full, _, _) => {
            let (n, en) = split_full(full);
            s.ns = Some(n);
            s.ent = Some(en);
        }
        QlError::MissingField(full, f)
        | QlError::CannotUpdateFieldType(full, f, _, _)
        | QlError::InvalidFieldOrdering(full, f, _, _)
        | QlError::MissingDefaultValue(full, f) => {
            let (n, en) = split_full(full);
            s.ns = Some(n);
            s.ent = Some(en);
            s.field = Some(f.clone());
        }
        _ => {}
    }
    s
}

pub fn db_site(e: &DbError) -> Site {
    match e {
        DbError::Parsing(q) => ql_site(q),
        other => {
            let dbg = format!("{:?}", other);
            Site {
                class: format!("Db{}", dbg.split(|c: char| !c.is_alphanumeric()).next().unwrap_or("?")),
                ..Default::default()
            }
        }
    }
}

/// The visit order that explains `post` as the outcome of one update applied to `pre`:
/// what was modified was visited before the failing site; new fields were inserted in id order.
pub fn infer_pri(pre: &Tab, post: &Tab, site: Option<&Site>) -> Vec<String> {
    let mut n_keys: Vec<String> = vec![];
    let mut e_keys: Vec<String> = vec![];
    let mut f_keys: Vec<String> = vec![];
    let fail_ns = site.and_then(|s| s.ns.clone());
    let fail_ent = site.and_then(|s| s.ent.clone());
    for pn in &post.nss {
        let Some(on) = pre.ns(&pn.name) else { continue };
        let mut ns_touched = on.ents.len() != pn.ents.len();
        for pe in &pn.ents {
            let Some(oe) = on.ents.iter().find(|x| x.name == pe.name) else { continue };
            if oe != pe {
                ns_touched = true;
                let failing = fail_ns.as_deref() == Some(pn.name.as_str()) && fail_ent.as_deref() == Some(pe.name.as_str());
                if !failing {
                    e_keys.push(format!("E:{}:{}", pn.name, pe.name));
                }
            }
            for pf in &pe.fields {
                match oe.fields.iter().find(|x| x.name == pf.name) {
                    Some(of) => {
                        if of != pf {
                            f_keys.push(format!("F:{}:{}:{}", pn.name, pe.name, pf.name));
                        }
                    }
                    None => f_keys.push(format!("F:{}:{}:{}", pn.name, pe.name, pf.name)), // fields are sorted by id
                }
            }
        }
        if ns_touched && fail_ns.as_deref() != Some(pn.name.as_str()) {
            n_keys.push(format!("N:{}", pn.name));
        }
    }
    if let Some(s) = site {
        if let Some(n) = &s.ns {
            n_keys.push(format!("N:{}", n));
            if let Some(e) = &s.ent {
                e_keys.push(format!("E:{}:{}", n, e));
                if let Some(f) = &s.field {
                    let k = format!("F:{}:{}:{}", n, e, f);
                    if !f_keys.contains(&k) {
                        f_keys.push(k);
                    }
                }
            }
        }
    }
    let mut all = n_keys;
    all.extend(e_keys);
    all.extend(f_keys);
    all
}

// ------------------------------------------------------------------------------------ instances

struct Inst {
    folder: PathBuf,
    secret: [u8; 32],
    svc: Option<GraphDatabaseService>,
    rows: HashMap<String, u64>, // base64 id -> row number
    seq: u64,
    /// table of `_configuration['Data Model']` as last read from the database file
    stored: Tab,
}

fn config() -> Configuration {
    let mut c = Configuration::default();
    c.parallelism = 1;
    c.enable_database_memory_security = false;
    c
}

const CALL_TIMEOUT: Duration = Duration::from_secs(30);

impl Inst {
    async fn start(&mut self, text: &str) -> Result<(), DbError> {
        self.svc = None;
        std::fs::create_dir_all(&self.folder)?;
        let r = GraphDatabaseService::start(
            "dv schema",
            text,
            &self.secret,
            &[7u8; 32],
            self.folder.clone(),
            &config(),
            EventService::new(),
        )
        .await?;
        self.svc = Some(r.0);
        Ok(())
    }

    /// what a restart would load: the serialised model in the `_configuration` table
    async fn read_stored(&mut self) {
        let Some(svc) = self.svc.as_ref() else { return };
        let (send, receive) = oneshot::channel::<Option<String>>();
        let r = svc
            .db
            .reader
            .send_async(Box::new(move |conn| {
                let res: Result<String, rusqlite::Error> =
                    conn.query_row("SELECT value FROM _configuration WHERE key='Data Model'", [], |row| row.get(0));
                let _ = send.send(res.ok());
            }))
            .await;
        if r.is_err() {
            return;
        }
        if let Ok(Ok(Some(js))) = tokio::time::timeout(CALL_TIMEOUT, receive).await {
            if let Ok(v) = serde_json::from_str::<Value>(&js) {
                self.stored = table(&v);
            }
        }
    }

    /// Waits until the writer thread has processed (and acknowledged) everything queued so far.
    /// Every mutation is followed by a `ComputeDailyLog` whose result the writer thread pushes back into
    /// the database actor's mailbox (capacity = `parallelism`) with `blocking_send`; if two such results are
    /// pending while the actor itself awaits a writer reply (as `update_data_model` does) the two block each
    /// other for ever. That timing-dependent deadlock of the real code is reported separately (it is not a
    /// C15 matter); the barrier keeps it out of these runs so that they stay deterministic.
    async fn writer_barrier(&self) {
        struct Noop;
        impl discret::verif_hooks::database::sqlite_database::Writeable for Noop {
            fn write(&mut self, _conn: &rusqlite::Connection) -> Result<(), rusqlite::Error> {
                Ok(())
            }
        }
        if let Some(svc) = self.svc.as_ref() {
            let _ = tokio::time::timeout(CALL_TIMEOUT, svc.db.writer.write(Box::new(Noop))).await;
            // one round trip through the actor: the pending DailyLogComputed messages are consumed before it
            let _ = tokio::time::timeout(CALL_TIMEOUT, svc.datamodel()).await;
        }
    }

    /// Every stored user row against the live model, the way `GraphDatabase::add_nodes` judges a row that
    /// comes from a peer (graph_database.rs:1254-1270): `name_for(short)` -> `get_entity` ->
    /// `validate_json_for_entity`. Returns (rows checked, `r<no>:<class>` of the rows that do not conform).
    async fn conformance(&mut self) -> Option<(u64, Vec<String>)> {
        use discret::verif_hooks::database::query_language::data_model_parser::validate_json_for_entity;
        use discret::verif_hooks::security::base64_encode;
        let svc = self.svc.as_ref()?;
        let js = svc.datamodel().await.ok()?;
        let dm: DataModel = serde_json::from_str(&js).ok()?;
        let (send, receive) = oneshot::channel::<Vec<(Vec<u8>, String, Option<String>)>>();
        svc.db
            .reader
            .send_async(Box::new(move |conn| {
                let mut res = vec![];
                if let Ok(mut stmt) = conn.prepare("SELECT id, _entity, _json FROM _node ORDER BY cdate, id") {
                    if let Ok(rows) = stmt.query_map([], |row| Ok((row.get::<_, Vec<u8>>(0)?, row.get::<_, String>(1)?, row.get::<_, Option<String>>(2)?))) {
                        for r in rows.flatten() {
                            res.push(r);
                        }
                    }
                }
                let _ = send.send(res);
            }))
            .await
            .ok()?;
        let rows = tokio::time::timeout(CALL_TIMEOUT, receive).await.ok()?.ok()?;
        let mut total = 0u64;
        let mut bad = vec![];
        for (id, short, json) in rows {
            if short.starts_with("0.") {
                continue; // rows of the system namespace
            }
            let Some(no) = self.rows.get(&base64_encode(&id)).copied() else { continue };
            total += 1;
            let verdict = match dm.name_for(&short) {
                None => Some("UnknownShort".to_string()),
                Some(name) => match dm.get_entity(&name) {
                    Err(_) => Some("UnknownEntity".to_string()),
                    Ok(entity) => match validate_json_for_entity(entity, &json) {
                        Ok(()) => None,
                        Err(e) => {
                            let d = format!("{:?}", e);
                            Some(d.split(|c: char| !c.is_alphanumeric()).next().unwrap_or("?").to_string())
                        }
                    },
                },
            };
            if let Some(v) = verdict {
                bad.push((no, v));
            }
        }
        bad.sort();
        Some((total, bad.into_iter().map(|(n, v)| format!("r{}:{}", n, v)).collect()))
    }

    /// the live model of the running instance (public `datamodel()` accessor)
    async fn live(&self) -> Option<Tab> {
        let svc = self.svc.as_ref()?;
        let js = svc.datamodel().await.ok()?;
        let v: Value = serde_json::from_str(&js).ok()?;
        Some(table(&v))
    }
}

fn entity_text(n: &str, e: &str) -> String {
    if n.is_empty() {
        e.to_string()
    } else {
        format!("{}.{}", n, e)
    }
}

fn put_err_class(e: &DbError) -> String {
    match e {
        DbError::Parsing(QlError::EntityNotFound(_)) | DbError::Parsing(QlError::NamespaceNotFound(_)) => {
            "err:unknown-entity".into()
        }
        DbError::Parsing(QlError::InvalidQuery(_)) => "err:unknown-field".into(),
        DbError::Parsing(QlError::MissingUpdateField(_, _)) => "err:missing-field".into(),
        DbError::Parsing(QlError::InvalidFieldType(_, _, _)) => "err:type".into(),
        other => {
            let dbg = format!("{:?}", other);
            format!("err:other:{}", dbg.split(|c: char| !c.is_alphanumeric()).next().unwrap_or("?"))
        }
    }
}

// ------------------------------------------------------------------------------------ run

enum World {
    None,
    Dm(Vec<DataModel>),
    Db(Vec<Inst>),
}

fn dm_table(m: &DataModel) -> Tab {
    table(&serde_json::to_value(m).unwrap_or(Value::Null))
}

pub async fn run(ops: &str, out: &str, stats_path: Option<&str>, work: &str) {
    let f = std::fs::File::open(ops).expect("ops file");
    let mut w = BufWriter::new(std::fs::File::create(out).expect("out file"));
    let mut hints = BufWriter::new(std::fs::File::create(format!("{}.hints", out)).expect("hints file"));
    let mut stats = Stats::default();
    let mut world = World::None;
    let mut case_no = 0u64;
    let run_dir = PathBuf::from(work).join(format!("c15-{}", std::process::id()));
    let _ = std::fs::remove_dir_all(&run_dir);
    // panics of the code under test are observations, not harness failures: counted by the hook
    crate::c14::install_panic_hook();
    let mut c14w = crate::c14::World::new(work);
    for line in std::io::BufReader::new(f).lines() {
        let line = line.unwrap();
        let (kind, kv) = parse_kv(&line);
        let get = |k: &str| kv.get(k).and_then(|v| v.parse::<u64>().ok());
        let mut hint = String::new();
        if kind == "case" {
            c14w.case_index += 1;
        }
        let res: String = match kind.as_str() {
            "case" if kv.get("kind").map(|s| s.as_str()) == Some("c14") => match get("id") {
                Some(id) => {
                    world = World::None;
                    c14w.reset().await;
                    stats.inc("cases.c14");
                    format!("case {}", id)
                }
                None => "bad-op".into(),
            },
            "case" => match (get("id"), kv.get("kind").map(|s| s.as_str()), get("n")) {
                (Some(id), Some("dm"), Some(n)) => {
                    world = World::Dm((0..n).map(|_| DataModel::new()).collect());
                    stats.inc("cases.dm");
                    format!("case {}", id)
                }
                (Some(id), Some("db"), Some(n)) => {
                    if let World::Db(_) = &world {
                        world = World::None;
                        let _ = std::fs::remove_dir_all(run_dir.join(format!("case{}", case_no)));
                    }
                    case_no += 1;
                    let insts = (0..n)
                        .map(|i| {
                            let mut secret = [0u8; 32];
                            secret[..8].copy_from_slice(&case_no.to_be_bytes());
                            secret[8] = i as u8;
                            secret[9..13].copy_from_slice(&std::process::id().to_be_bytes());
                            Inst {
                                folder: run_dir.join(format!("case{}", case_no)).join(format!("i{}", i)),
                                secret,
                                svc: None,
                                rows: HashMap::new(),
                                seq: 0,
                                stored: Tab::default(),
                            }
                        })
                        .collect();
                    world = World::Db(insts);
                    stats.inc("cases.db");
                    format!("case {}", id)
                }
                _ => "bad-op".into(),
            },
            "sysver" | "ver" => {
                let v = if kind == "ver" { kv.get("v").and_then(|s| dec_version(s)) } else { Some(vec![]) };
                match (get("i"), v, &mut world) {
                    (Some(i), Some(v), World::Dm(models)) if (i as usize) < models.len() => {
                        let m = &mut models[i as usize];
                        let pre = dm_table(m);
                        let text = render(&v);
                        let r = catch_unwind(AssertUnwindSafe(|| {
                            if kind == "ver" {
                                m.update(&text)
                            } else {
                                m.update_system(SYSTEM_DATA_MODEL)
                            }
                        }));
                        let post = dm_table(m);
                        stats.inc(&format!("op.{}", kind));
                        match r {
                            Err(_) => {
                                stats.inc("panic");
                                format!("panic {}", post.text())
                            }
                            Ok(Ok(())) => {
                                hint = infer_pri(&pre, &post, None).join(",");
                                stats.inc("res.ok");
                                format!("ok {}", post.text())
                            }
                            Ok(Err(e)) => {
                                let site = ql_site(&e);
                                hint = infer_pri(&pre, &post, Some(&site)).join(",");
                                stats.inc(&format!("res.err.{}", site.class));
                                if pre != post {
                                    stats.inc("refused_with_effect");
                                }
                                format!("err:{} {}", site.class, post.text())
                            }
                        }
                    }
                    _ => "bad-op".into(),
                }
            }
            "start" | "upd" | "updpub" => {
                match (get("i"), kv.get("v").and_then(|s| dec_version(s)), &mut world) {
                    (Some(i), Some(v), World::Db(insts)) if (i as usize) < insts.len() => {
                        let inst = &mut insts[i as usize];
                        let text = render(&v);
                        stats.inc(&format!("op.{}", kind));
                        if kind == "start" {
                            // a start reloads the stored model (read from the file after every update)
                            let pre = inst.stored.clone();
                            match tokio::time::timeout(CALL_TIMEOUT, inst.start(&text)).await {
                                Err(_) => "hang".into(),
                                Ok(Ok(())) => match inst.live().await {
                                    Some(t) => {
                                        stats.inc("res.ok");
                                        hint = infer_pri(&pre, &t, None).join(",");
                                        inst.read_stored().await;
                                        format!("ok {}", t.text())
                                    }
                                    None => "err:NoLiveModel".into(),
                                },
                                Ok(Err(e)) => {
                                    let site = db_site(&e);
                                    stats.inc(&format!("res.err.{}", site.class));
                                    hint = infer_pri(&Tab::default(), &Tab::default(), Some(&site)).join(",");
                                    format!("err:{}", site.class)
                                }
                            }
                        } else if inst.svc.is_none() {
                            "not-running".into()
                        } else {
                            // every run-time update first reloads the stored model
                            let pre = inst.stored.clone();
                            inst.writer_barrier().await;
                            let svc = inst.svc.as_ref().unwrap().clone();
                            if kind == "upd" {
                                // same message the public `update_data_model` sends, but the reply is kept
                                let (reply, receive) = oneshot::channel::<Result<String, DbError>>();
                                let _ = svc.sender.send(DbMessage::DataModelUpdate(text.clone(), reply)).await;
                                match tokio::time::timeout(CALL_TIMEOUT, receive).await {
                                    Err(_) => "hang".into(),
                                    Ok(Err(_)) => "service-dead".into(),
                                    Ok(Ok(r)) => {
                                        let post = inst.live().await.unwrap_or_default();
                                        inst.read_stored().await;
                                        match r {
                                            Ok(_) => {
                                                hint = infer_pri(&pre, &post, None).join(",");
                                                stats.inc("res.ok");
                                                format!("ok {}", post.text())
                                            }
                                            Err(e) => {
                                                let site = db_site(&e);
                                                hint = infer_pri(&pre, &post, Some(&site)).join(",");
                                                stats.inc(&format!("res.err.{}", site.class));
                                                if pre != post {
                                                    stats.inc("refused_with_effect");
                                                }
                                                format!("err:{} {}", site.class, post.text())
                                            }
                                        }
                                    }
                                }
                            } else {
                                // the public call (since fb21964 it reports a refusal)
                                match tokio::time::timeout(CALL_TIMEOUT, svc.update_data_model(&text)).await {
                                    Err(_) => "hang".into(),
                                    Ok(r) => {
                                        let post = inst.live().await.unwrap_or_default();
                                        inst.read_stored().await;
                                        match r {
                                            Ok(_) => {
                                                hint = infer_pri(&pre, &post, None).join(",");
                                                stats.inc("res.ok");
                                                format!("ok {}", post.text())
                                            }
                                            Err(e) => {
                                                let site = db_site(&e);
                                                hint = infer_pri(&pre, &post, Some(&site)).join(",");
                                                stats.inc(&format!("res.err.{}", site.class));
                                                if pre != post {
                                                    stats.inc("refused_with_effect");
                                                }
                                                format!("err:{} {}", site.class, post.text())
                                            }
                                        }
                                    }
                                }
                            }
                        }
                    }
                    _ => "bad-op".into(),
                }
            }
            "put" => {
                let er = kv.get("e").and_then(|s| s.split_once(':'));
                match (get("i"), er, get("r"), kv.get("vals"), &mut world) {
                    (Some(i), Some((n, e)), Some(r), Some(vals), World::Db(insts))
                        if (i as usize) < insts.len() && !e.is_empty() =>
                    {
                        let inst = &mut insts[i as usize];
                        let mut body = String::new();
                        let mut ok = true;
                        let names: Vec<&str> = vals.split(';').filter(|t| !t.is_empty()).map(|t| t.split(':').next().unwrap_or("")).collect();
                        if (1..names.len()).any(|i| names[..i].contains(&names[i])) {
                            ok = false; // the same field twice is outside the op language
                        }
                        for t in vals.split(';').filter(|t| !t.is_empty()) {
                            let p: Vec<&str> = t.split(':').collect();
                            if p.len() != 3 || crate::c15gen::SYSTEM_FIELD_NAMES.contains(&p[0]) {
                                ok = false; // values for system fields are outside the op language (the model has no verdict)
                                break;
                            }
                            match p[1] {
                                "i" => body.push_str(&format!(" {}: {}", p[0], p[2])),
                                "s" => body.push_str(&format!(" {}: \"{}\"", p[0], p[2])),
                                _ => ok = false,
                            }
                        }
                        if !ok {
                            "bad-op".into()
                        } else if inst.svc.is_none() {
                            "not-running".into()
                        } else {
                            inst.seq += 1;
                            let ename = entity_text(n, e);
                            let q = format!("mutate m{} {{ {} {{{} }} }}", inst.seq, ename, body);
                            let svc = inst.svc.as_ref().unwrap().clone();
                            stats.inc("op.put");
                            match tokio::time::timeout(CALL_TIMEOUT, svc.mutate(&q, None)).await {
                                Err(_) => "hang".into(),
                                Ok(Ok(js)) => {
                                    let v: Value = serde_json::from_str(&js).unwrap_or(Value::Null);
                                    let id = v
                                        .as_object()
                                        .and_then(|m| m.values().next())
                                        .and_then(|x| x.get("id"))
                                        .and_then(|x| x.as_str())
                                        .map(|s| s.to_string());
                                    match id {
                                        Some(id) => {
                                            inst.rows.insert(id, r);
                                            "ok".into()
                                        }
                                        None => "err:no-id".into(),
                                    }
                                }
                                Ok(Err(e)) => put_err_class(&e),
                            }
                        }
                    }
                    _ => "bad-op".into(),
                }
            }
            "conf" => match (get("i"), &mut world) {
                (Some(i), World::Db(insts)) if (i as usize) < insts.len() => {
                    let inst = &mut insts[i as usize];
                    match inst.conformance().await {
                        None => "not-running".into(),
                        Some((total, bad)) => {
                            stats.add("rows_checked", total);
                            if bad.is_empty() {
                                format!("conf ok n={}", total)
                            } else {
                                for b in &bad {
                                    stats.inc(&format!("conf.bad.{}", b.split(':').nth(1).unwrap_or("?")));
                                }
                                let nos: Vec<String> = bad.iter().map(|b| b.split(':').next().unwrap_or("").to_string()).collect();
                                format!("conf bad n={} {}", total, nos.join(","))
                            }
                        }
                    }
                }
                _ => "bad-op".into(),
            },
            "get" => {
                let er = kv.get("e").and_then(|s| s.split_once(':'));
                match (get("i"), er, kv.get("f"), &mut world) {
                    (Some(i), Some((n, e)), Some(fs), World::Db(insts)) if (i as usize) < insts.len() && !e.is_empty() => {
                        let inst = &mut insts[i as usize];
                        if inst.svc.is_none() {
                            "not-running".into()
                        } else {
                            inst.seq += 1;
                            let fields: Vec<&str> = fs.split(',').filter(|x| !x.is_empty()).collect();
                            let q = format!("query q{} {{ {} {{ id {} }} }}", inst.seq, entity_text(n, e), fields.join(" "));
                            let svc = inst.svc.as_ref().unwrap().clone();
                            stats.inc("op.get");
                            match tokio::time::timeout(CALL_TIMEOUT, svc.query(&q, None)).await {
                                Err(_) => "hang".into(),
                                Ok(Ok(js)) => {
                                    let v: Value = serde_json::from_str(&js).unwrap_or(Value::Null);
                                    let rows = v
                                        .as_object()
                                        .and_then(|m| m.values().next())
                                        .and_then(|x| x.as_array())
                                        .cloned()
                                        .unwrap_or_default();
                                    let mut outl: Vec<(u64, String)> = vec![];
                                    for row in rows {
                                        let id = row.get("id").and_then(|x| x.as_str()).unwrap_or("");
                                        let no = inst.rows.get(id).copied().unwrap_or(999_999);
                                        let vals: Vec<String> = fields
                                            .iter()
                                            .map(|f| {
                                                let val = match row.get(*f) {
                                                    None | Some(Value::Null) => "null".to_string(),
                                                    Some(Value::String(s)) => s.clone(),
                                                    Some(o) => o.to_string(),
                                                };
                                                format!("{}={}", f, val)
                                            })
                                            .collect();
                                        outl.push((no, format!("r{}:{}", no, vals.join(","))));
                                    }
                                    outl.sort();
                                    stats.add("rows_read", outl.len() as u64);
                                    if outl.is_empty() {
                                        "rows".into()
                                    } else {
                                        format!("rows {}", outl.iter().map(|x| x.1.clone()).collect::<Vec<_>>().join(";"))
                                    }
                                }
                                Ok(Err(e)) => put_err_class(&e),
                            }
                        }
                    }
                    _ => "bad-op".into(),
                }
            }
            other => match c14w.handle(other, &kv, &mut stats).await {
                Some(r) => r,
                None => "bad-op".into(),
            },
        };
        writeln!(w, "{}", res).unwrap();
        if hint.is_empty() {
            writeln!(hints).unwrap();
        } else {
            writeln!(hints, "pri={}", hint).unwrap();
        }
    }
    drop(world);
    if !c14w.oracle.is_empty() {
        std::fs::write(format!("{}.oracle", out), c14w.oracle.join("\n") + "\n").unwrap();
    }
    let _ = std::fs::remove_dir_all(&run_dir);
    let _ = std::fs::remove_dir_all(PathBuf::from(work).join(format!("c14-{}", std::process::id())));
    w.flush().unwrap();
    hints.flush().unwrap();
    if let Some(p) = stats_path {
        stats.write(p);
    }
}
