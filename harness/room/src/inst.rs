//! One running discret database instance (the real `GraphDatabaseService`) plus helpers to drive it.
use discret::verif_hooks::configuration::Configuration;
use discret::verif_hooks::database::authorisation_service::AuthorisationMessage;
use discret::verif_hooks::database::graph_database::GraphDatabaseService;
use discret::verif_hooks::database::query_language::parameter::{Parameters, ParametersAdd};
use discret::verif_hooks::database::room::Room;
use discret::verif_hooks::database::room_node::RoomNode;
use discret::verif_hooks::database::Error as DbError;
use discret::verif_hooks::event_service::EventService;
use discret::verif_hooks::security::Uid;
use std::path::PathBuf;
use tokio::sync::oneshot;

pub const DATA_MODEL: &str = "{
    Person{ name:String, parents:[Person], pet: Pet nullable }
    Pet{ name:String, owner: Person nullable }
    Note{ txt:String }
}";

pub fn secret_of(ident: u64, salt: u64) -> [u8; 32] {
    let mut s = [0u8; 32];
    s[..8].copy_from_slice(&ident.to_be_bytes());
    s[8..16].copy_from_slice(&salt.to_be_bytes());
    s[31] = 0x5A;
    s
}

/// small, stable classes for the errors the engine can produce
pub fn class(e: &DbError) -> String {
    match e {
        DbError::AuthorisationRejected(_, _) => "rejected".into(),
        DbError::InvalidUserDate() | DbError::InvalidRightDate() => "date".into(),
        DbError::UnknownRoom(_) => "unknown-room".into(),
        DbError::UnknownEntity(_, _) => "unknown-entity".into(),
        DbError::NotBelongsTo() => "not-belongs".into(),
        DbError::InvalidNode(_) => "invalid-node".into(),
        DbError::ForbiddenRoomId(_) => "forbidden-room-id".into(),
        DbError::UpdateNotAllowed() => "update-not-allowed".into(),
        DbError::CannotRemove(_, _) => "cannot-remove".into(),
        DbError::InvalidAuthorisationMutation(_) => "sys-entity".into(),
        DbError::DeleteNotAllowed() => "delete-not-allowed".into(),
        DbError::NodeTooBig(_, _) => "too-big".into(),
        DbError::AuthorisationExists() => "auth-exists".into(),
        DbError::Parsing(_) => "parse".into(),
        DbError::Database(_) => "sql".into(),
        other => {
            let d = format!("{:?}", other);
            let name: String = d
                .chars()
                .take_while(|c| c.is_ascii_alphanumeric())
                .collect();
            format!("other-{}", name)
        }
    }
}

pub struct Inst {
    pub svc: GraphDatabaseService,
    pub key: Vec<u8>,
    pub folder: PathBuf,
    pub secret: [u8; 32],
}

pub fn config() -> Configuration {
    let mut c = Configuration::default();
    c.parallelism = 1;
    c
}

impl Inst {
    pub async fn start(folder: PathBuf, secret: [u8; 32]) -> Result<Inst, DbError> {
        std::fs::create_dir_all(&folder)?;
        let (svc, key, _private_room) = GraphDatabaseService::start(
            "dv room",
            DATA_MODEL,
            &secret,
            &[7u8; 32],
            folder.clone(),
            &config(),
            EventService::new(),
        )
        .await?;
        Ok(Inst {
            svc,
            key,
            folder,
            secret,
        })
    }

    /// stop (drop every handle) and start again on the same folder with the same identity
    pub async fn restart(self) -> Result<Inst, DbError> {
        let folder = self.folder.clone();
        let secret = self.secret;
        drop(self);
        for _ in 0..4 {
            tokio::task::yield_now().await;
        }
        Inst::start(folder, secret).await
    }

    /// the in-memory definition of a room held by the authorisation service (verification hook)
    pub async fn room(&self, id: Uid) -> Option<Room> {
        let (reply, receive) = oneshot::channel::<Option<Room>>();
        let _ = self
            .svc
            .auth
            .send(AuthorisationMessage::VerifGetRoom(id, reply))
            .await;
        receive.await.ok().flatten()
    }

    /// export as a peer would receive it: serialised and deserialised (drops the local row ids)
    pub async fn export(&self, id: Uid) -> Result<Option<RoomNode>, DbError> {
        let node = self.svc.get_room_node(id).await?;
        Ok(node.map(|n| {
            let ser = bincode::serialize(&n).unwrap();
            bincode::deserialize::<RoomNode>(&ser).unwrap()
        }))
    }

    pub async fn import(&self, node: RoomNode) -> Result<(), DbError> {
        self.svc.add_room_node(node).await
    }
}

pub fn params(kv: &[(String, String)]) -> Parameters {
    let mut p = Parameters::default();
    for (k, v) in kv {
        p.add(k, v.clone()).unwrap();
    }
    p
}
