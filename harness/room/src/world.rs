//! The state of one case: sites (real instances), rooms, groups, keys; and the room-definition ops.
//!
//! Op lines (shared with the Lean driver `dmodel_room`):
//!   case id=<n> keys=<K> dmax=<D> [uids=desc]
//!   mut s=<site> d=<date> r=<room> [new=1] [adm=<ulist>] [grp=<g>,<g>] [g<g>.u=<ulist>] [g<g>.ua=<ulist>] [g<g>.r=<rlist>]
//!        ulist: `k+`|`k-`|`k` comma separated (`k` = enabled omitted); rlist: `e:s:a` comma separated
//!   cmut s=<site> d=<date> r=<room> items=<item>;<item>;...   2..8 updates of one room sent WITHOUT awaiting in
//!        between (one task each), then all awaited; item: `<g>.r.<e:s:a>` | `<g>.u.<k±>` | `<g>.ua.<k±>` | `a.<k±>`;
//!        the groups exist, the (list, key) pairs are distinct, the caller is not named in an `a`/`ua` item (the
//!        verdict of each update then does not depend on the order the service handles them in);
//!        output: the verdicts in item order, comma separated
//!   obs s=<site> r=<room>
//!   restart s=<site>
//!   sync from=<site> to=<site> r=<room>
use crate::inst::*;
use discret::verif_hooks::clock;
use discret::verif_hooks::database::room::{RightType, Room};
use discret::verif_hooks::database::Error as DbError;
use discret::verif_hooks::security::{
    base64_encode, derive_key, Ed25519SigningKey, SigningKey, Uid,
};
use std::collections::{BTreeMap, HashMap};
use std::path::PathBuf;

pub const ENTITIES: [&str; 5] = ["*", "Person", "Pet", "Note", "ghost"];
pub const NGROUPS: u64 = 4;

pub enum Site {
    Live(Inst),
    Dead,
}

pub struct World {
    pub base: PathBuf,
    pub case_id: u64,
    pub nkeys: u64,
    pub dmax: i64,
    pub sites: BTreeMap<u64, Site>,
    pub rooms: HashMap<u64, Uid>,
    pub groups: BTreeMap<(u64, u64), Uid>,
    pub keys: HashMap<u64, Vec<u8>>,
}

pub type Kv = HashMap<String, String>;

pub fn get_u(kv: &Kv, k: &str) -> Option<u64> {
    kv.get(k).and_then(|v| v.parse::<u64>().ok())
}
pub fn get_i(kv: &Kv, k: &str) -> Option<i64> {
    kv.get(k).and_then(|v| v.parse::<i64>().ok())
}

/// `k+`, `k-`, `k`  -> (key index, Some(enabled) | None)
fn parse_ulist(s: &str) -> Option<Vec<(u64, Option<bool>)>> {
    let mut res = vec![];
    for t in s.split(',').filter(|t| !t.is_empty()) {
        let (num, en) = if let Some(n) = t.strip_suffix('+') {
            (n, Some(true))
        } else if let Some(n) = t.strip_suffix('-') {
            (n, Some(false))
        } else {
            (t, None)
        };
        res.push((num.parse::<u64>().ok()?, en));
    }
    Some(res)
}

/// `e:s:a` -> (entity index, mutate_self, mutate_all)
fn parse_rlist(s: &str) -> Option<Vec<(usize, bool, bool)>> {
    let mut res = vec![];
    for t in s.split(',').filter(|t| !t.is_empty()) {
        let p: Vec<&str> = t.split(':').collect();
        if p.len() != 3 {
            return None;
        }
        let e = p[0].parse::<usize>().ok()?;
        if e >= ENTITIES.len() {
            return None;
        }
        let b = |x: &str| match x {
            "0" => Some(false),
            "1" => Some(true),
            _ => None,
        };
        res.push((e, b(p[1])?, b(p[2])?));
    }
    Some(res)
}

/// decision matrix of a room: for every key 1..K and date 0..=dmax+1 one number whose bits are
///   0 admin, 1 member of the room, then for the group slots 0..3 12 bits each
///   [valid, user-admin, can(e, self), can(e, all) for the 5 entities], then Room::can(e, self|all) (10 bits)
pub fn matrix_of(
    room: &Room,
    r: u64,
    groups: &BTreeMap<(u64, u64), Uid>,
    nkeys: u64,
    dmax: i64,
    keys: &mut HashMap<u64, Vec<u8>>,
    case: u64,
) -> String {
    // a fixed layout: group slots 0..NGROUPS, whether or not the group exists (anywhere)
    let gids: Vec<Option<Uid>> = (0..NGROUPS).map(|g| groups.get(&(r, g)).copied()).collect();
    let mut out: Vec<String> = vec![];
    for k in 1..=nkeys {
        let key = key_of(keys, case, k);
        let mut cells: Vec<String> = vec![];
        for d in 0..=(dmax + 1) {
            let mut bits: u128 = 0;
            let mut pos = 0;
            let mut push = |b: bool| {
                if b {
                    bits |= 1u128 << pos;
                }
                pos += 1;
            };
            push(room.is_admin(&key, d));
            push(room.is_user_valid_at(&key, d));
            for gid in &gids {
                match gid.and_then(|g| room.authorisations.get(&g)) {
                    Some(a) => {
                        push(a.is_user_valid_at(&key, d));
                        push(a.can_admin_users(&key, d));
                        for e in ENTITIES {
                            push(a.can(e, d, &RightType::MutateSelf));
                            push(a.can(e, d, &RightType::MutateAll));
                        }
                    }
                    None => {
                        for _ in 0..12 {
                            push(false);
                        }
                    }
                }
            }
            for e in ENTITIES {
                push(room.can(&key, e, d, &RightType::MutateSelf));
                push(room.can(&key, e, d, &RightType::MutateAll));
            }
            cells.push(format!("{}", bits));
        }
        out.push(format!("{}:{}", k, cells.join(".")));
    }
    format!("m groups={} {}", room.authorisations.len(), out.join("|"))
}

pub struct RoomMutation {
    pub q: String,
    pub p: Vec<(String, String)>,
    pub r: u64,
    pub is_new: bool,
    pub mentioned: Vec<u64>,
    pub created: Vec<u64>,
}

/// identity of key index k: the verifying key the service derives from `secret_of(k, case)`
pub fn key_of(cache: &mut HashMap<u64, Vec<u8>>, case: u64, k: u64) -> Vec<u8> {
    cache
        .entry(k)
        .or_insert_with(|| {
            let signature_key = derive_key(&format!("{} SIGNING_KEY", "dv room"), &secret_of(k, case));
            Ed25519SigningKey::create_from(&signature_key).export_verifying_key()
        })
        .clone()
}

pub fn signing_key_of(case: u64, k: u64) -> Ed25519SigningKey {
    let signature_key = derive_key(&format!("{} SIGNING_KEY", "dv room"), &secret_of(k, case));
    Ed25519SigningKey::create_from(&signature_key)
}

/// the text and parameters of a `sys.Room` mutation from the tokens of a `mut`/`rmut` op line;
/// `None` = malformed op
pub fn build_room_mutation(
    kv: &Kv,
    rooms: &HashMap<u64, Uid>,
    groups: &BTreeMap<(u64, u64), Uid>,
    key: &mut dyn FnMut(u64) -> Vec<u8>,
) -> Option<RoomMutation> {
    build_room_mutation_with(kv, rooms, groups, key, &|_| None)
}

/// `g<g>.id=<x>` gives the id of the `sys.Authorisation` entity of slot `g` explicitly: `<r2>.<g2>` the group `g2`
/// of room `r2` (any room), or whatever `other` resolves (`h<handle>`: a data row, `a<r2>.<i>`: an admin entry) —
/// the ids of rows that are NOT groups of the mutated room
pub fn build_room_mutation_with(
    kv: &Kv,
    rooms: &HashMap<u64, Uid>,
    groups: &BTreeMap<(u64, u64), Uid>,
    key: &mut dyn FnMut(u64) -> Vec<u8>,
    other: &dyn Fn(&str) -> Option<Uid>,
) -> Option<RoomMutation> {
    let r = get_u(kv, "r")?;
    let is_new = kv.get("new").map(|v| v == "1").unwrap_or(false);
    let mut p: Vec<(String, String)> = vec![];
    let mut q = String::from("mutate { sys.Room { ");
    if !is_new {
        let id = rooms.get(&r)?;
        p.push(("r".into(), base64_encode(id)));
        q.push_str("id:$r ");
    } else if rooms.contains_key(&r) {
        return None;
    }
    let mut ulist = |tag: &str, l: &[(u64, Option<bool>)], q: &mut String, p: &mut Vec<(String, String)>| {
        q.push('[');
        for (i, (k, en)) in l.iter().enumerate() {
            let name = format!("{}{}", tag, i);
            p.push((name.clone(), base64_encode(&key(*k))));
            match en {
                Some(b) => q.push_str(&format!("{{verif_key:${} enabled:{}}}, ", name, b)),
                None => q.push_str(&format!("{{verif_key:${}}}, ", name)),
            }
        }
        q.push(']');
    };
    if let Some(a) = kv.get("adm") {
        let l = parse_ulist(a).filter(|l| !l.is_empty())?;
        q.push_str("admin:");
        ulist("a", &l, &mut q, &mut p);
        q.push(' ');
    }
    let mut created: Vec<u64> = vec![];
    let mut mentioned: Vec<u64> = vec![];
    if let Some(gs) = kv.get("grp") {
        q.push_str("authorisations:[");
        for g in gs.split(',').filter(|t| !t.is_empty()) {
            let g = g.parse::<u64>().ok()?;
            if mentioned.contains(&g) {
                return None;
            }
            mentioned.push(g);
            q.push('{');
            let explicit: Option<Uid> = match kv.get(&format!("g{}.id", g)) {
                None => None,
                Some(x) => {
                    let id = match x.split_once('.') {
                        Some((r2, g2)) if !x.starts_with('a') => {
                            let key = (r2.parse::<u64>().ok()?, g2.parse::<u64>().ok()?);
                            groups.get(&key).copied()
                        }
                        _ => other(x),
                    };
                    Some(id?)
                }
            };
            match explicit.as_ref().or(groups.get(&(r, g))) {
                Some(id) => {
                    let name = format!("g{}", g);
                    p.push((name.clone(), base64_encode(id)));
                    q.push_str(&format!("id:${} ", name));
                }
                None => {
                    created.push(g);
                    q.push_str(&format!("name:\"g{}\" ", g));
                }
            }
            if let Some(u) = kv.get(&format!("g{}.r", g)) {
                let l = parse_rlist(u).filter(|l| !l.is_empty())?;
                q.push_str("rights:[");
                for (e, ms, ma) in l {
                    q.push_str(&format!(
                        "{{entity:\"{}\" mutate_self:{} mutate_all:{}}}, ",
                        ENTITIES[e], ms, ma
                    ));
                }
                q.push_str("] ");
            }
            if let Some(u) = kv.get(&format!("g{}.u", g)) {
                let l = parse_ulist(u).filter(|l| !l.is_empty())?;
                q.push_str("users:");
                ulist(&format!("u{}x", g), &l, &mut q, &mut p);
                q.push(' ');
            }
            if let Some(u) = kv.get(&format!("g{}.ua", g)) {
                let l = parse_ulist(u).filter(|l| !l.is_empty())?;
                q.push_str("user_admin:");
                ulist(&format!("v{}x", g), &l, &mut q, &mut p);
                q.push(' ');
            }
            q.push_str("}, ");
        }
        q.push_str("] ");
        if mentioned.is_empty() {
            return None;
        }
    }
    q.push_str("} }");
    Some(RoomMutation { q, p, r, is_new, mentioned, created })
}

impl World {
    pub fn new(base: PathBuf, case_id: u64, nkeys: u64, dmax: i64) -> World {
        World {
            base,
            case_id,
            nkeys,
            dmax,
            sites: BTreeMap::new(),
            rooms: HashMap::new(),
            groups: BTreeMap::new(),
            keys: HashMap::new(),
        }
    }

    pub fn key(&mut self, k: u64) -> Vec<u8> {
        let case = self.case_id;
        key_of(&mut self.keys, case, k)
    }

    /// sites 0..2 are the identities 1..3; later sites (fresh importers) have identities outside the matrix
    fn ident_of_site(s: u64) -> u64 {
        if s < 3 {
            s + 1
        } else {
            100 + s
        }
    }

    pub async fn site(&mut self, s: u64) -> Result<&Inst, String> {
        if !self.sites.contains_key(&s) {
            let folder = self.base.join(format!("c{}s{}", self.case_id, s));
            let _ = std::fs::remove_dir_all(&folder);
            let inst = Inst::start(folder, secret_of(Self::ident_of_site(s), self.case_id))
                .await
                .map_err(|e| format!("site start failed: {}", e))?;
            let expect = self.key(Self::ident_of_site(s));
            assert_eq!(expect, inst.key, "identity derivation differs from the service's");
            self.sites.insert(s, Site::Live(inst));
        }
        match self.sites.get(&s).unwrap() {
            Site::Live(i) => Ok(i),
            Site::Dead => Err("dead".to_string()),
        }
    }

    pub async fn op_mut(&mut self, kv: &Kv) -> String {
        let (s, d) = match (get_u(kv, "s"), get_i(kv, "d")) {
            (Some(s), Some(d)) => (s, d),
            _ => return "bad-op".into(),
        };
        let case = self.case_id;
        let keys = &mut self.keys;
        let rm = match build_room_mutation(kv, &self.rooms, &self.groups, &mut |k| key_of(keys, case, k)) {
            Some(rm) => rm,
            None => return "bad-op".into(),
        };
        let RoomMutation { q, p, r, is_new, mentioned, created } = rm;
        clock::set(d);
        let inst = match self.site(s).await {
            Ok(i) => i,
            Err(e) => return format!("err:{}", e),
        };
        match inst.svc.mutate_raw(&q, Some(params(&p))).await {
            Ok(mq) => {
                let ent = &mq.mutate_entities[0];
                if is_new {
                    self.rooms.insert(r, ent.node_to_mutate.id);
                }
                if let Some(subs) = ent.sub_nodes.get("authorisations") {
                    for (i, g) in mentioned.iter().enumerate() {
                        if created.contains(g) {
                            self.groups.insert((r, *g), subs[i].node_to_mutate.id);
                        }
                    }
                }
                "ok".into()
            }
            Err(e) => format!("err:{}", class(&e)),
        }
    }

    /// the `mut` tokens of the items of a `cmut` line (None = malformed)
    pub fn cmut_items(kv: &Kv, caller: u64, groups: &BTreeMap<(u64, u64), Uid>) -> Option<Vec<Kv>> {
        let (s, d, r) = (kv.get("s")?, kv.get("d")?, get_u(kv, "r")?);
        let mut seen: Vec<(String, u64)> = vec![];
        let mut res = vec![];
        for item in kv.get("items")?.split(';') {
            let parts: Vec<&str> = item.splitn(3, '.').collect();
            let mut m: Kv = HashMap::new();
            m.insert("s".into(), s.clone());
            m.insert("d".into(), d.clone());
            m.insert("r".into(), r.to_string());
            let (list, elem) = match parts.as_slice() {
                ["a", elem] => {
                    m.insert("adm".into(), elem.to_string());
                    ("adm".to_string(), *elem)
                }
                [g, kind, elem] if matches!(*kind, "r" | "u" | "ua") => {
                    let gi = g.parse::<u64>().ok()?;
                    if gi.to_string() != *g || !groups.contains_key(&(r, gi)) {
                        return None;
                    }
                    m.insert("grp".into(), g.to_string());
                    m.insert(format!("g{}.{}", g, kind), elem.to_string());
                    (format!("g{}.{}", g, kind), *elem)
                }
                _ => return None,
            };
            let key = if list.ends_with(".r") {
                let l = parse_rlist(elem).filter(|l| l.len() == 1 && !elem.contains(','))?;
                l[0].0 as u64
            } else {
                let l = parse_ulist(elem).filter(|l| l.len() == 1 && !elem.contains(','))?;
                if l[0].0 == caller && (list == "adm" || list.ends_with(".ua")) {
                    return None;
                }
                l[0].0
            };
            if seen.contains(&(list.clone(), key)) {
                return None;
            }
            seen.push((list, key));
            res.push(m);
        }
        if res.len() < 2 || res.len() > 8 {
            return None;
        }
        Some(res)
    }

    /// several updates of one room in flight at once: every update is sent from its own task, none waits for another
    pub async fn op_cmut(&mut self, kv: &Kv) -> String {
        let (s, d, r) = match (get_u(kv, "s"), get_i(kv, "d"), get_u(kv, "r")) {
            (Some(s), Some(d), Some(r)) => (s, d, r),
            _ => return "bad-op".into(),
        };
        if !self.rooms.contains_key(&r) {
            return "bad-op".into();
        }
        let items = match Self::cmut_items(kv, Self::ident_of_site(s), &self.groups) {
            Some(i) => i,
            None => return "bad-op".into(),
        };
        let case = self.case_id;
        let mut muts = vec![];
        for m in &items {
            let keys = &mut self.keys;
            match build_room_mutation(m, &self.rooms, &self.groups, &mut |k| key_of(keys, case, k)) {
                Some(rm) if rm.created.is_empty() && !rm.is_new => muts.push(rm),
                _ => return "bad-op".into(),
            }
        }
        clock::set(d);
        let inst = match self.site(s).await {
            Ok(i) => i,
            Err(e) => return format!("err:{}", e),
        };
        let mut tasks = vec![];
        for rm in muts {
            let svc = inst.svc.clone();
            tasks.push(tokio::spawn(async move { svc.mutate_raw(&rm.q, Some(params(&rm.p))).await }));
        }
        let mut res: Vec<String> = vec![];
        for t in tasks {
            res.push(match t.await {
                Ok(Ok(_)) => "ok".into(),
                Ok(Err(e)) => format!("err:{}", class(&e)),
                Err(_) => "err:task".into(),
            });
        }
        res.join(",")
    }

    pub fn matrix(&mut self, room: &Room, r: u64) -> String {
        let case = self.case_id;
        matrix_of(room, r, &self.groups, self.nkeys, self.dmax, &mut self.keys, case)
    }

    pub async fn op_obs(&mut self, kv: &Kv) -> String {
        let (s, r) = match (get_u(kv, "s"), get_u(kv, "r")) {
            (Some(s), Some(r)) => (s, r),
            _ => return "bad-op".into(),
        };
        let id = match self.rooms.get(&r) {
            Some(id) => *id,
            None => return "none".into(),
        };
        let room = match self.site(s).await {
            Ok(i) => i.room(id).await,
            Err(e) => return format!("err:{}", e),
        };
        match room {
            Some(room) => self.matrix(&room, r),
            None => "none".into(),
        }
    }

    pub async fn op_restart(&mut self, kv: &Kv) -> String {
        let s = match get_u(kv, "s") {
            Some(s) => s,
            None => return "bad-op".into(),
        };
        match self.sites.remove(&s) {
            None => "bad-op".into(),
            Some(Site::Dead) => {
                self.sites.insert(s, Site::Dead);
                "err:dead".into()
            }
            Some(Site::Live(inst)) => match inst.restart().await {
                Ok(i) => {
                    self.sites.insert(s, Site::Live(i));
                    "ok".into()
                }
                Err(e) => {
                    self.sites.insert(s, Site::Dead);
                    format!("err:{}", class(&e))
                }
            },
        }
    }

    pub async fn op_sync(&mut self, kv: &Kv) -> String {
        let (from, to, r) = match (get_u(kv, "from"), get_u(kv, "to"), get_u(kv, "r")) {
            (Some(a), Some(b), Some(r)) if a != b => (a, b, r),
            _ => return "bad-op".into(),
        };
        let id = match self.rooms.get(&r) {
            Some(id) => *id,
            None => return "err:no-room".into(),
        };
        let node = match self.site(from).await {
            Ok(i) => match i.export(id).await {
                Ok(Some(n)) => n,
                Ok(None) => return "err:no-room".into(),
                Err(e) => return format!("err:{}", class(&e)),
            },
            Err(e) => return format!("err:{}", e),
        };
        match self.site(to).await {
            Ok(i) => match i.import(node).await {
                Ok(()) => "ok".into(),
                Err(e) => format!("err:{}", class(&e)),
            },
            Err(e) => format!("err:{}", e),
        }
    }

    pub fn cleanup(&mut self) {
        let folders: Vec<PathBuf> = self
            .sites
            .values()
            .filter_map(|s| match s {
                Site::Live(i) => Some(i.folder.clone()),
                Site::Dead => None,
            })
            .collect();
        self.sites.clear();
        for f in folders {
            let _ = std::fs::remove_dir_all(f);
        }
        // folders of dead sites
        if let Ok(rd) = std::fs::read_dir(&self.base) {
            let prefix = format!("c{}s", self.case_id);
            for e in rd.flatten() {
                if e.file_name().to_string_lossy().starts_with(&prefix) {
                    let _ = std::fs::remove_dir_all(e.path());
                }
            }
        }
    }
}

#[allow(dead_code)]
pub fn unused(_: DbError) {}
