//! Generators of op files. Every random choice comes from the one `Gen` (seeded by the caller).
//!
//! C10 histories: several entries per user (enabled, disabled, re-enabled), rights replaced over time,
//! rights with all-rows but not own-rows, wildcard rights, several groups, two acting admins on two
//! instances exchanging the definition, equal dates (harmless ties), dates going backwards, entries
//! refused by the append-only check; then every construction path is observed.
//!
//! One C10 case in five (`c10_concurrent_case`) sends 2..8 updates of one room without awaiting in between (`cmut`).
//!
//! Uids are made sequential (ascending, or descending with `uids=desc` in the case header), so the order
//! SQLite returns equal-date rows in is determined and the model follows it. Most histories keep
//!  * one (list, key) pair used at most once per date (no conflicting equal-date entries),
//!  * one date used by one caller only;
//! a share of the cases (`ties`) drops both rules: that is the region excluded by the guard
//! `TiesHarmless` of the theorems, where live, reloaded and imported rooms may differ.
use dvcommon::Gen;
use std::collections::{HashMap, HashSet};
use std::io::Write;

struct Shadow {
    /// believed admins (enabled) per site
    admins: Vec<HashSet<u64>>,
    /// groups believed present per site
    groups: Vec<HashSet<u64>>,
    has_room: Vec<bool>,
    used: HashSet<(String, u64, i64)>,
    date_owner: HashMap<i64, u64>,
    last_date: i64,
    ngroups: u64,
    /// conflicting equal-date entries allowed
    ties: bool,
}

fn flag(g: &mut Gen, p_disable: u32) -> &'static str {
    if g.chance(p_disable, 100) {
        "-"
    } else if g.chance(1, 6) {
        ""
    } else {
        "+"
    }
}

impl Shadow {
    fn ulist(&mut self, g: &mut Gen, list: &str, d: i64, pool: &[u64], max: usize, p_disable: u32) -> Vec<String> {
        let n = 1 + g.below(max);
        let mut res = vec![];
        for _ in 0..n {
            let k = *g.pick(pool);
            if self.used.insert((list.to_string(), k, d)) || (self.ties && g.chance(2, 3)) {
                res.push(format!("{}{}", k, flag(g, p_disable)));
            }
        }
        res
    }

    fn rlist(&mut self, g: &mut Gen, list: &str, d: i64, max: usize) -> Vec<String> {
        let n = 1 + g.below(max);
        let mut res = vec![];
        for _ in 0..n {
            let e = g.weighted(&[4, 5, 3, 2, 1]) as u64;
            if self.used.insert((list.to_string(), e, d)) || (self.ties && g.chance(2, 3)) {
                // (self, all): all-without-self is the shape normalised on two of the three paths
                let (s, a) = match g.weighted(&[3, 3, 3, 2]) {
                    0 => (1, 1),
                    1 => (1, 0),
                    2 => (0, 1),
                    _ => (0, 0),
                };
                res.push(format!("{}:{}:{}", e, s, a));
            }
        }
        res
    }

    /// one room mutation on `site` at date `d`
    fn mutation(&mut self, g: &mut Gen, site: u64, d: i64, new: bool, keys: u64) -> String {
        let prefix = format!("mut s={} d={} r=0", site, d);
        self.mutation_with(g, site, site + 1, prefix, new, keys, d)
    }

    /// `prefix` = the op word and the caller/date/room tokens; `me` = the caller's key
    #[allow(clippy::too_many_arguments)]
    fn mutation_with(&mut self, g: &mut Gen, site: u64, me: u64, prefix: String, new: bool, keys: u64, d: i64) -> String {
        let all: Vec<u64> = (1..=keys).collect();
        let mut line = prefix;
        if new {
            line.push_str(" new=1");
        }
        let mut parts: Vec<String> = vec![];
        let want_admin = new || g.chance(1, 3);
        if want_admin {
            let mut l: Vec<String> = vec![];
            if new && !g.chance(1, 12) && self.used.insert(("adm".into(), me, d)) {
                l.push(format!("{}+", me));
            }
            if !new || g.chance(2, 3) {
                // other admins: the second identity often, disabled sometimes
                let pool: Vec<u64> = all.iter().copied().filter(|k| *k != me || g.chance(1, 10)).collect();
                let mut more = self.ulist(g, "adm", d, &pool, 2, if new { 5 } else { 35 });
                l.append(&mut more);
            }
            if !l.is_empty() {
                for t in &l {
                    let (k, en) = split_flag(t);
                    if en {
                        self.admins[site as usize].insert(k);
                    } else {
                        self.admins[site as usize].remove(&k);
                    }
                }
                parts.push(format!("adm={}", l.join(",")));
            }
        }
        let want_groups = if new { g.chance(9, 10) } else { g.chance(4, 5) || parts.is_empty() };
        if want_groups {
            let n = 1 + g.below(2);
            let mut gs: Vec<u64> = vec![];
            for _ in 0..n {
                let existing: Vec<u64> = self.groups[site as usize].iter().copied().collect();
                let gi = if !existing.is_empty() && !g.chance(1, 4) {
                    let mut e = existing.clone();
                    e.sort();
                    *g.pick(&e)
                } else if self.ngroups < 4 {
                    self.ngroups += 1;
                    self.ngroups - 1
                } else if !existing.is_empty() {
                    let mut e = existing.clone();
                    e.sort();
                    *g.pick(&e)
                } else {
                    continue;
                };
                if gs.contains(&gi) {
                    continue;
                }
                let is_new_group = !self.groups[site as usize].contains(&gi);
                let mut toks: Vec<String> = vec![];
                if g.chance(if is_new_group { 3 } else { 2 }, 4) {
                    let l = self.rlist(g, &format!("g{}.r", gi), d, 3);
                    if !l.is_empty() {
                        toks.push(format!("g{}.r={}", gi, l.join(",")));
                    }
                }
                if g.chance(3, 4) {
                    let l = self.ulist(g, &format!("g{}.u", gi), d, &all, 3, if is_new_group { 10 } else { 45 });
                    if !l.is_empty() {
                        toks.push(format!("g{}.u={}", gi, l.join(",")));
                    }
                }
                // a new group: the creator usually lists itself as user admin (otherwise peers holding the
                // room refuse the group's users — finding #33); sometimes it does not
                let ua = if is_new_group { g.chance(3, 4) } else { g.chance(1, 4) };
                if ua {
                    let mut l: Vec<String> = vec![];
                    if is_new_group && !g.chance(1, 5) && self.used.insert((format!("g{}.ua", gi), me, d)) {
                        l.push(format!("{}+", me));
                    }
                    if !is_new_group || g.chance(1, 3) {
                        let mut more = self.ulist(g, &format!("g{}.ua", gi), d, &all, 2, if is_new_group { 5 } else { 40 });
                        l.append(&mut more);
                    }
                    if !l.is_empty() {
                        toks.push(format!("g{}.ua={}", gi, l.join(",")));
                    }
                }
                if toks.is_empty() && !is_new_group {
                    continue; // an existing group must carry at least one entry
                }
                gs.push(gi);
                self.groups[site as usize].insert(gi);
                parts.append(&mut toks);
            }
            if !gs.is_empty() {
                let gl: Vec<String> = gs.iter().map(|x| x.to_string()).collect();
                parts.insert(0, format!("grp={}", gl.join(",")));
            }
        }
        if parts.is_empty() {
            // always do something: add a passive admin entry
            let k = keys;
            if self.used.insert(("adm".into(), k, d)) {
                parts.push(format!("adm={}+", k));
            } else {
                parts.push(format!("adm={}", 1 + g.below(keys as usize)));
            }
        }
        self.has_room[site as usize] = true;
        line.push(' ');
        line.push_str(&parts.join(" "));
        line
    }

    fn next_date(&mut self, g: &mut Gen, caller: u64, dmax: i64) -> i64 {
        for _ in 0..20 {
            let d = match g.weighted(if self.ties { &[5, 8, 3] } else { &[12, 3, 2] }) {
                0 => self.last_date + 1 + g.below(2) as i64,  // forward
                1 => self.last_date,                            // same date (same caller only)
                _ => 1 + g.below(self.last_date.max(1) as usize) as i64, // backwards
            };
            if d < 1 || d > dmax {
                continue;
            }
            match self.date_owner.get(&d) {
                Some(o) if *o != caller && !self.ties => continue,
                _ => {}
            }
            self.date_owner.insert(d, caller);
            if d > self.last_date {
                self.last_date = d;
            }
            return d;
        }
        // dates exhausted: reuse the caller's own last date if any, else the maximum
        let own: Vec<i64> = self.date_owner.iter().filter(|(_, o)| **o == caller).map(|(d, _)| *d).collect();
        if let Some(d) = own.iter().max() {
            return *d;
        }
        dmax
    }
}

fn split_flag(t: &str) -> (u64, bool) {
    if let Some(n) = t.strip_suffix('+') {
        (n.parse().unwrap(), true)
    } else if let Some(n) = t.strip_suffix('-') {
        (n.parse().unwrap(), false)
    } else {
        (t.parse().unwrap(), true)
    }
}

/// one C10 case: history on sites 0 and 1, then every construction path observed
pub fn c10_case(g: &mut Gen, id: u64, w: &mut impl Write, long: bool) {
    let keys = 5u64;
    let dmax = if long { 16 } else { 10 };
    let ties = g.chance(1, 5);
    let desc = g.chance(2, 5);
    writeln!(
        w,
        "case id={} keys={} dmax={}{}",
        id,
        keys,
        dmax,
        if desc { " uids=desc" } else { "" }
    )
    .unwrap();
    let mut sh = Shadow {
        admins: vec![HashSet::new(), HashSet::new(), HashSet::new()],
        groups: vec![HashSet::new(), HashSet::new(), HashSet::new()],
        has_room: vec![false, false, false],
        used: HashSet::new(),
        date_owner: HashMap::new(),
        last_date: 0,
        ngroups: 0,
        ties,
    };
    let d0 = sh.next_date(g, 1, dmax);
    let l = sh.mutation(g, 0, d0, true, keys);
    writeln!(w, "{}", l).unwrap();
    let steps = if long { 3 + g.below(10) } else { 1 + g.below(6) };
    let mut prefix_synced = false;
    for _ in 0..steps {
        match g.weighted(&[10, 3, 3, 1]) {
            0 => {
                let d = sh.next_date(g, 1, dmax);
                let l = sh.mutation(g, 0, d, false, keys);
                writeln!(w, "{}", l).unwrap();
            }
            1 => {
                // the importer holding a prefix
                writeln!(w, "sync from=0 to=1 r=0").unwrap();
                sh.has_room[1] = true;
                sh.groups[1] = sh.groups[0].clone();
                sh.admins[1] = sh.admins[0].clone();
                prefix_synced = true;
            }
            2 => {
                // the second identity acts on its own instance when it holds the room
                if sh.has_room[1] {
                    let d = sh.next_date(g, 2, dmax);
                    let l = sh.mutation(g, 1, d, false, keys);
                    writeln!(w, "{}", l).unwrap();
                    if g.chance(2, 3) {
                        writeln!(w, "sync from=1 to=0 r=0").unwrap();
                        let g1 = sh.groups[1].clone();
                        sh.groups[0].extend(g1);
                    }
                } else {
                    writeln!(w, "sync from=0 to=1 r=0").unwrap();
                    sh.has_room[1] = true;
                    sh.groups[1] = sh.groups[0].clone();
                    sh.admins[1] = sh.admins[0].clone();
                    prefix_synced = true;
                }
            }
            _ => {
                // mid-history observations: restart of the origin or a fresh import
                if g.chance(1, 2) {
                    writeln!(w, "obs s=0 r=0").unwrap();
                    writeln!(w, "restart s=0").unwrap();
                    writeln!(w, "obs s=0 r=0").unwrap();
                } else {
                    writeln!(w, "sync from=0 to=2 r=0").unwrap();
                    writeln!(w, "obs s=2 r=0").unwrap();
                }
            }
        }
    }
    let _ = prefix_synced;
    // every construction path
    writeln!(w, "obs s=0 r=0").unwrap();
    writeln!(w, "sync from=0 to=3 r=0").unwrap();
    writeln!(w, "obs s=3 r=0").unwrap();
    writeln!(w, "sync from=0 to=1 r=0").unwrap();
    writeln!(w, "obs s=1 r=0").unwrap();
    writeln!(w, "restart s=0").unwrap();
    writeln!(w, "obs s=0 r=0").unwrap();
    writeln!(w, "restart s=1").unwrap();
    writeln!(w, "obs s=1 r=0").unwrap();
    writeln!(w, "restart s=3").unwrap();
    writeln!(w, "obs s=3 r=0").unwrap();
}

fn new_shadow(ties: bool) -> Shadow {
    Shadow {
        admins: vec![HashSet::new(), HashSet::new(), HashSet::new()],
        groups: vec![HashSet::new(), HashSet::new(), HashSet::new()],
        has_room: vec![false, false, false],
        used: HashSet::new(),
        date_owner: HashMap::new(),
        last_date: 0,
        ngroups: 0,
        ties,
    }
}

fn label_types(f: usize) -> (usize, usize) {
    match f {
        0 => (1, 1),
        1 => (1, 2),
        _ => (2, 1),
    }
}

/// generator of the sub-entities of a nested mutation (see `bench.rs`, `parse_entries`, for the syntax)
struct TreeGen<'a> {
    rows: &'a Vec<(u64, usize, Option<u64>, u64)>,
    edges: &'a mut Vec<(u64, usize, u64)>,
    next_handle: &'a mut u64,
    nrooms: u64,
    used: Vec<u64>,
    new_rows: Vec<(u64, usize, Option<u64>, u64)>,
    caller: u64,
    max_depth: usize,
}

impl TreeGen<'_> {
    /// the targets of field `f` of row `h`; `inherited`: the room named by the nearest ancestor that names one
    #[allow(clippy::too_many_arguments)]
    fn kids(&mut self, g: &mut Gen, h: u64, f: usize, de: usize, depth: usize, inherited: Option<u64>, out: &mut Vec<String>) {
        let nchild = if f == 0 { 1 + g.below(2) } else { 1 };
        for _ in 0..nchild {
            let cands: Vec<_> = self.rows.iter().filter(|r| r.1 == de && !self.used.contains(&r.0)).cloned().collect();
            // prefer a target already referenced by the row above: that row then stays unchanged
            let linked: Vec<_> = cands.iter().filter(|c| self.edges.contains(&(h, f, c.0))).cloned().collect();
            let deeper = depth < self.max_depth && g.chance(3, 5);
            let mut t = ".".repeat(depth);
            let (ch, own_room);
            if !cands.is_empty() && !g.chance(1, 4) {
                let c = if !linked.is_empty() && g.chance(3, 4) { *g.pick(&linked) } else { *g.pick(&cands) };
                self.used.push(c.0);
                ch = c.0;
                t.push_str(&format!("h{}", c.0));
                // an inner entity without a value and with its targets already linked stays unchanged
                if g.chance(if deeper { 1 } else { 3 }, 4) {
                    t.push_str(&format!(":v{}", g.below(90)));
                }
                if g.chance(1, 6) {
                    let r = g.below(self.nrooms as usize) as u64;
                    t.push_str(&format!(":r{}", r));
                    own_room = Some(r);
                } else {
                    own_room = None;
                }
                if !self.edges.contains(&(h, f, c.0)) {
                    self.edges.push((h, f, c.0));
                }
            } else {
                ch = *self.next_handle;
                *self.next_handle += 1;
                self.used.push(ch);
                t.push_str(&format!("n{}:v{}", ch, g.below(90)));
                if g.chance(1, 3) {
                    let r = g.below(self.nrooms as usize) as u64;
                    t.push_str(&format!(":r{}", r));
                    own_room = Some(r);
                } else {
                    own_room = None;
                }
                self.new_rows.push((ch, de, own_room.or(inherited), self.caller));
                self.edges.push((h, f, ch));
            }
            if deeper {
                let f2 = if de == 1 { g.weighted(&[3, 1]) } else { 2 };
                t.push_str(&format!(":f{}", f2));
                out.push(t);
                self.kids(g, ch, f2, label_types(f2).1, depth + 1, own_room.or(inherited), out);
            } else {
                out.push(t);
            }
        }
    }
}

/// One C01 case (`mode=fn`): two or three rooms whose definitions change over time, callers in every
/// relation to them (admin, all-rows member, own-rows member, read-only, former member, user admin,
/// outsider), and data operations of every shape at dates spread over the history: create, update of an
/// own / a foreign row, move between rooms, nested sub-entities under a changed and under an UNCHANGED
/// parent, with inherited and explicit rooms, reference replacement and removal, node deletion, reference
/// deletion (existing and non-existing reference), reference deletion on the room row.
pub fn c01_case(g: &mut Gen, id: u64, w: &mut impl Write, long: bool, peer: bool) {
    let keys = 6u64;
    let dmax: i64 = if peer { 44 } else if long { 24 } else { 14 };
    writeln!(w, "case id={} keys={} dmax={} mode=fn{}", id, keys, dmax, if peer { " peer=1" } else { "" }).unwrap();
    let nrooms = 2 + g.below(2) as u64;
    let mut shadows: Vec<Shadow> = (0..nrooms).map(|_| new_shadow(false)).collect();
    let mut d: i64 = 1;
    // keys that were given a right in each room (members of a group that grants something)
    let mut writers: Vec<Vec<u64>> = vec![vec![]; nrooms as usize];
    // (group, key): keys made user admin of a group without being made room admin
    let mut user_admins: Vec<Vec<(u64, u64)>> = vec![vec![]; nrooms as usize];
    // the key that created each room (admin of it, not necessarily of the others)
    let mut creators: Vec<u64> = vec![];
    // room definitions by key 1 (often key 2 creates its own room)
    for r in 0..nrooms {
        let me = if r > 0 && g.chance(2, 5) { 2 } else { 1 };
        creators.push(me);
        let prefix = format!("rmut k={} d={} r={}", me, d, r);
        let l = shadows[r as usize].mutation_with(g, 0, me, prefix, true, keys, d);
        writeln!(w, "{}", l).unwrap();
        // make sure most rooms grant something to somebody: a second mutation with rights and users
        if g.chance(3, 4) {
            let gi = shadows[r as usize].ngroups.min(3);
            let fresh = gi == shadows[r as usize].ngroups;
            if fresh {
                shadows[r as usize].ngroups += 1;
            }
            let ent = 1 + g.below(3);
            let (s1, a1) = *g.pick(&[(1, 1), (1, 0), (1, 1), (0, 1)]);
            let u1 = 2 + g.below(4);
            let u2 = 2 + g.below(4);
            writeln!(
                w,
                "rmut k={} d={} r={} grp={} g{}.r={}:{}:{},0:1:0 g{}.u={}+,{}+ g{}.ua={}+",
                me, d, r, gi, gi, ent, s1, a1, gi, u1, u2, gi, me
            )
            .unwrap();
            shadows[r as usize].groups[0].insert(gi);
            writers[r as usize].push(u1 as u64);
            writers[r as usize].push(u2 as u64);
        }
        writers[r as usize].push(me);
        // a user admin that is NOT a room admin (it may manage the users of its group, nothing else)
        if g.chance(2, 3) && shadows[r as usize].ngroups > 0 {
            let gi = g.below(shadows[r as usize].ngroups as usize) as u64;
            let x = 3 + g.below(4) as u64;
            if shadows[r as usize].groups[0].contains(&gi) && shadows[r as usize].used.insert((format!("g{}.ua", gi), x, d)) {
                writeln!(w, "rmut k={} d={} r={} grp={} g{}.ua={}+", me, d, r, gi, gi, x).unwrap();
                user_admins[r as usize].push((gi, x));
            }
        }
    }
    for r in 0..nrooms {
        writeln!(w, "rstored r={}", r).unwrap();
    }
    let steps = if long { 14 + g.below(14) } else { 8 + g.below(10) };
    // shadow of the data: handle -> (entity, room?, author), references
    let mut rows: Vec<(u64, usize, Option<u64>, u64)> = vec![];
    let mut edges: Vec<(u64, usize, u64)> = vec![];
    let mut next_handle: u64 = 0;
    let pick_room = |g: &mut Gen| -> Option<u64> {
        if g.chance(1, 8) {
            None
        } else {
            Some(g.below(nrooms as usize) as u64)
        }
    };
    // a few rows to work on, created by keys that hold a right
    d += 1;
    for _ in 0..(2 + g.below(3)) {
        if peer {
            d += 1;
        }
        let room = g.below(nrooms as usize) as u64;
        let k = *g.pick(&writers[room as usize]);
        let e = if g.chance(2, 3) { 1 } else { 1 + g.below(3) };
        let h = next_handle;
        next_handle += 1;
        writeln!(w, "new k={} d={} h={} e={} room={} v={}", k, d, h, e, room, g.below(90)).unwrap();
        rows.push((h, e, Some(room), k));
    }
    for _ in 0..steps {
        if peer {
            // C12: every operation has its own date (rows of one millisecond are tie-broken by signature bytes)
            d += 1;
        } else if g.chance(2, 3) && d < dmax {
            d += 1 + g.below(2) as i64;
            if d > dmax {
                d = dmax;
            }
        }
        let k = 1 + g.below(keys as usize) as u64;
        let kind = g.weighted(&[5, 5, 3, 6, 3, 2, 3, 3, 1, 4]);
        match kind {
            0 => {
                // create
                let e = 1 + g.below(3);
                let room = pick_room(g);
                let k = match room {
                    Some(r) if g.chance(2, 3) => *g.pick(&writers[r as usize]),
                    _ => k,
                };
                let h = next_handle;
                next_handle += 1;
                let rs = room.map(|r| format!(" room={}", r)).unwrap_or_default();
                writeln!(w, "new k={} d={} h={} e={}{} v={}", k, d, h, e, rs, g.below(90)).unwrap();
                rows.push((h, e, room, k));
            }
            1 if !rows.is_empty() => {
                // update: own row half of the time
                let (h, _, _, author) = *g.pick(&rows);
                let caller = if g.chance(1, 2) { author } else { k };
                writeln!(w, "upd k={} d={} h={} v={}", caller, d, h, g.below(90)).unwrap();
            }
            2 if !rows.is_empty() => {
                // move between rooms (with or without a field change: without, nothing is written)
                let (h, _, _, author) = *g.pick(&rows);
                let caller = if g.chance(1, 3) { author } else { k };
                let room = g.below(nrooms as usize) as u64;
                if g.chance(4, 5) {
                    writeln!(w, "upd k={} d={} h={} room={} v={}", caller, d, h, room, g.below(90)).unwrap();
                } else {
                    writeln!(w, "upd k={} d={} h={} room={}", caller, d, h, room).unwrap();
                }
            }
            3 => {
                // nested mutation: a tree of depth 2..5 (entries of depth 0..3 below the mutated entity)
                let f = g.weighted(&[5, 2, 2]);
                let (se, de) = label_types(f);
                let parents: Vec<_> = rows.iter().filter(|r| r.1 == se).cloned().collect();
                let parent_new = parents.is_empty() || g.chance(1, 5);
                let (h, caller) = if parent_new {
                    let h = next_handle;
                    next_handle += 1;
                    (h, k)
                } else {
                    let p = g.pick(&parents);
                    (p.0, if g.chance(1, 2) { p.3 } else { k })
                };
                let proom = if parent_new { pick_room(g) } else if g.chance(1, 6) { Some(g.below(nrooms as usize) as u64) } else { None };
                let max_depth = g.weighted(&[10, 6, 4, 2]);
                // deep trees touch many rows: half of them are submitted by a key that holds rights (the admin of most
                // rooms), so that a fair share is accepted as a whole
                let caller = if max_depth > 0 && g.chance(1, 2) { 1 } else { caller };
                let mut t = TreeGen {
                    rows: &rows,
                    edges: &mut edges,
                    next_handle: &mut next_handle,
                    nrooms,
                    used: vec![h],
                    new_rows: vec![],
                    caller,
                    max_depth,
                };
                let mut cs: Vec<String> = vec![];
                t.kids(g, h, f, de, 0, proom, &mut cs);
                let new_rows = t.new_rows;
                let mut line = format!("nest k={} d={} h={}", caller, d, h);
                if parent_new {
                    line.push_str(&format!(" pn={}", se));
                }
                if let Some(r) = proom {
                    line.push_str(&format!(" room={}", r));
                }
                if parent_new || g.chance(1, 4) {
                    line.push_str(&format!(" v={}", g.below(90)));
                }
                line.push_str(&format!(" f={} c={}", f, cs.join("+")));
                writeln!(w, "{}", line).unwrap();
                if parent_new {
                    rows.push((h, se, proom, caller));
                }
                for nr in new_rows {
                    rows.push(nr);
                }
            }
            4 if !edges.is_empty() => {
                // remove every reference of a field
                let (h, f, _) = *g.pick(&edges);
                let author = rows.iter().find(|r| r.0 == h).map(|r| r.3).unwrap_or(k);
                let caller = if g.chance(1, 2) { author } else { k };
                writeln!(w, "null k={} d={} h={} f={}", caller, d, h, f).unwrap();
                edges.retain(|e| !(e.0 == h && e.1 == f));
            }
            5 if !rows.is_empty() => {
                let (h, _, _, author) = *g.pick(&rows);
                let caller = if g.chance(1, 2) { author } else { k };
                writeln!(w, "del k={} d={} h={}", caller, d, h).unwrap();
                if g.chance(1, 2) {
                    // keep it in the shadow sometimes: operations on deleted rows are part of the input space
                    rows.retain(|r| r.0 != h);
                    edges.retain(|e| e.0 != h && e.2 != h);
                }
            }
            6 if !edges.is_empty() => {
                let (h, f, c) = *g.pick(&edges);
                let author = rows.iter().find(|r| r.0 == h).map(|r| r.3).unwrap_or(k);
                let caller = if g.chance(1, 2) { author } else { k };
                writeln!(w, "delref k={} d={} h={} f={} c={}", caller, d, h, f, c).unwrap();
                edges.retain(|e| *e != (h, f, c));
            }
            7 if rows.len() >= 2 => {
                // deletion of a reference that does not exist
                let a = *g.pick(&rows);
                let f = if a.1 == 1 { g.below(2) } else { 2 };
                let de = match f {
                    0 => 1,
                    1 => 2,
                    _ => 1,
                };
                if a.1 != 3 {
                    let cands: Vec<_> = rows.iter().filter(|r| r.1 == de && r.0 != a.0 && !edges.contains(&(a.0, f, r.0))).cloned().collect();
                    if !cands.is_empty() {
                        let c = g.pick(&cands);
                        writeln!(w, "delref k={} d={} h={} f={} c={}", k, d, a.0, f, c.0).unwrap();
                    }
                }
            }
            8 => {
                let r = g.below(nrooms as usize);
                writeln!(w, "deladm k={} d={} r={} i=0", k, d, r).unwrap();
            }
            _ => {
                if g.chance(1, 4) {
                    // an admin of room A names, inside a mutation of room A, the id of a row that is NOT a group of A:
                    // a group of ANOTHER room (where it may be nobody), a data row, an admin entry — and hangs itself
                    // (or a right) under it. The stored definition of every room is observed afterwards.
                    let a = g.below(nrooms as usize);
                    let b = (a + 1 + g.below(nrooms as usize - 1)) % nrooms as usize;
                    let me = if g.chance(4, 5) { creators[a] } else { k };
                    let mut gb: Vec<u64> = shadows[b].groups[0].iter().copied().collect();
                    gb.sort();
                    let target = match g.weighted(&[6, 1, 1]) {
                        0 if !gb.is_empty() => format!("{}.{}", b, g.pick(&gb)),
                        1 if !rows.is_empty() => format!("h{}", g.pick(&rows).0),
                        _ => format!("a{}.0", b),
                    };
                    let what = match g.weighted(&[4, 2, 2]) {
                        0 => format!("g7.u={}+", me),
                        1 => format!("g7.r={}:1:1", 1 + g.below(3)),
                        _ => format!("g7.ua={}+", me),
                    };
                    writeln!(w, "rmut k={} d={} r={} grp=7 g7.id={} {}", me, d, a, target, what).unwrap();
                    for r in 0..nrooms {
                        writeln!(w, "rstored r={}", r).unwrap();
                    }
                    continue;
                }
                // the room definition changes: users disabled / enabled, rights replaced, admins changed
                let r = g.below(nrooms as usize);
                if !user_admins[r].is_empty() && g.chance(2, 5) {
                    // a user admin (not room admin) tries to change the definition: itself / another key as admin,
                    // rights, user admins (all need a room admin), users of its group (its own business)
                    let (gi, x) = *g.pick(&user_admins[r]);
                    let other = 2 + g.below(5) as u64;
                    let sh = &mut shadows[r];
                    let mut toks: Vec<String> = vec![];
                    let mut grp: Vec<String> = vec![];
                    match g.weighted(&[4, 2, 2, 2, 3, 2]) {
                        0 => {
                            if sh.used.insert(("adm".into(), x, d)) {
                                toks.push(format!("adm={}+", x));
                            }
                        }
                        1 => {
                            if other != x && sh.used.insert(("adm".into(), other, d)) {
                                toks.push(format!("adm={}+", other));
                            }
                        }
                        2 => {
                            let e = 1 + g.below(3) as u64;
                            if sh.used.insert((format!("g{}.r", gi), e, d)) {
                                grp.push(format!("g{}.r={}:1:1", gi, e));
                            }
                        }
                        3 => {
                            if other != x && sh.used.insert((format!("g{}.ua", gi), other, d)) {
                                grp.push(format!("g{}.ua={}+", gi, other));
                            }
                        }
                        4 => {
                            if sh.used.insert((format!("g{}.u", gi), other, d)) {
                                grp.push(format!("g{}.u={}{}", gi, other, if g.chance(1, 3) { "-" } else { "+" }));
                            }
                        }
                        _ => {
                            // itself as admin together with a legitimate change of its group's users
                            if sh.used.insert(("adm".into(), x, d)) && sh.used.insert((format!("g{}.u", gi), other, d)) {
                                toks.push(format!("adm={}+", x));
                                grp.push(format!("g{}.u={}+", gi, other));
                            }
                        }
                    }
                    if !grp.is_empty() {
                        toks.push(format!("grp={}", gi));
                        toks.append(&mut grp);
                    }
                    if !toks.is_empty() {
                        writeln!(w, "rmut k={} d={} r={} {}", x, d, r, toks.join(" ")).unwrap();
                    }
                    continue;
                }
                let me = if g.chance(3, 4) { 1 } else { k };
                let prefix = format!("rmut k={} d={} r={}", me, d, r);
                let l = shadows[r].mutation_with(g, 0, me, prefix, false, keys, d);
                writeln!(w, "{}", l).unwrap();
            }
        }
    }
    for r in 0..nrooms {
        writeln!(w, "robs r={}", r).unwrap();
        writeln!(w, "rstored r={}", r).unwrap();
    }
}

pub fn gen_c01(seed: u64, n: usize, out: &str, long: bool) {
    let mut g = Gen::new(seed);
    let mut w = std::io::BufWriter::new(std::fs::File::create(out).unwrap());
    for id in 0..n {
        c01_case(&mut g, id as u64, &mut w, long, false);
    }
    w.flush().unwrap();
}

/// C12: the same operations, each also replayed as the rows and records a peer would receive
pub fn gen_c12(seed: u64, n: usize, out: &str, long: bool) {
    let mut g = Gen::new(seed);
    let mut buf: Vec<u8> = vec![];
    for id in 0..n {
        c01_case(&mut g, id as u64, &mut buf, long, true);
    }
    // after every room mutation: the definition held locally and by the peer (the property's precondition)
    let mut w = std::io::BufWriter::new(std::fs::File::create(out).unwrap());
    for line in String::from_utf8(buf).unwrap().lines() {
        writeln!(w, "{}", line).unwrap();
        if line.starts_with("rmut ") {
            if let Some(r) = line.split_whitespace().find_map(|t| t.strip_prefix("r=")) {
                writeln!(w, "robs r={}", r).unwrap();
                writeln!(w, "pobs r={}", r).unwrap();
            }
        }
    }
    w.flush().unwrap();
}

pub fn gen_c10(seed: u64, n: usize, out: &str, long: bool) {
    let mut g = Gen::new(seed);
    let mut w = std::io::BufWriter::new(std::fs::File::create(out).unwrap());
    for id in 0..n {
        if id % 5 == 4 {
            c10_concurrent_case(&mut g, id as u64, &mut w, long);
        } else {
            c10_case(&mut g, id as u64, &mut w, long);
        }
    }
    w.flush().unwrap();
}

/// overlapping updates of one room: `cmut` sends 2..8 updates without awaiting in between; every update touches
/// a different (list, key) and none changes the caller's own admin / user-admin status, so neither the verdicts
/// nor the resulting room depend on the order the service handles them in. Then live, reloaded and imported
/// definitions are observed.
pub fn c10_concurrent_case(g: &mut Gen, id: u64, w: &mut impl Write, long: bool) {
    let keys = 5u64;
    let dmax: i64 = if long { 16 } else { 10 };
    let desc = g.chance(2, 5);
    writeln!(w, "case id={} keys={} dmax={}{}", id, keys, dmax, if desc { " uids=desc" } else { "" }).unwrap();
    let ng = 1 + g.below(3) as u64;
    let mut used: HashSet<(String, u64, i64)> = HashSet::new();
    let mut d = 1 + g.below(2) as i64;
    // creation: the creator is admin and user admin of every group
    let mut line = format!("mut s=0 d={} r=0 new=1 adm=1+", d);
    used.insert(("a".into(), 1, d));
    if g.chance(1, 3) {
        line.push_str(",2+");
        used.insert(("a".into(), 2, d));
    }
    let gl: Vec<String> = (0..ng).map(|x| x.to_string()).collect();
    line.push_str(&format!(" grp={}", gl.join(",")));
    for gi in 0..ng {
        line.push_str(&format!(" g{}.ua=1+", gi));
        used.insert((format!("{}.ua", gi), 1, d));
        if g.chance(1, 2) {
            let k = 2 + g.below(4) as u64;
            line.push_str(&format!(" g{}.u={}+", gi, k));
            used.insert((format!("{}.u", gi), k, d));
        }
        if g.chance(1, 2) {
            let e = g.below(5) as u64;
            line.push_str(&format!(" g{}.r={}:1:{}", gi, e, g.below(2)));
            used.insert((format!("{}.r", gi), e, d));
        }
    }
    writeln!(w, "{}", line).unwrap();
    let early_import = g.chance(1, 3);
    if early_import {
        writeln!(w, "sync from=0 to=1 r=0").unwrap();
    }
    let rounds = if long { 2 + g.below(4) } else { 1 + g.below(3) };
    for _ in 0..rounds {
        d = match g.weighted(&[6, 3, 1]) {
            0 => (d + 1 + g.below(2) as i64).min(dmax),
            1 => d,
            _ => 1 + g.below(d as usize) as i64, // backwards: items on keys with later entries are refused
        };
        // the pool of (list, key) pairs not used at this date
        let mut pool: Vec<(String, u64)> = vec![];
        for gi in 0..ng {
            for e in 0..5u64 {
                pool.push((format!("{}.r", gi), e));
            }
            for k in 1..=keys {
                pool.push((format!("{}.u", gi), k));
            }
            for k in 2..=keys {
                pool.push((format!("{}.ua", gi), k));
            }
        }
        for k in 2..=keys {
            pool.push(("a".into(), k));
        }
        pool.retain(|(l, k)| !used.contains(&(l.clone(), *k, d)));
        let n = (2 + g.weighted(&[3, 3, 2, 2, 1, 1, 2])).min(pool.len());
        if n < 2 {
            continue;
        }
        let mut items: Vec<String> = vec![];
        for _ in 0..n {
            let i = g.below(pool.len());
            let (l, k) = pool.swap_remove(i);
            used.insert((l.clone(), k, d));
            if l.ends_with(".r") {
                let (s, a) = match g.weighted(&[4, 3, 2, 1]) {
                    0 => (1, 1),
                    1 => (1, 0),
                    2 => (0, 1),
                    _ => (0, 0),
                };
                items.push(format!("{}.{}:{}:{}", l, k, s, a));
            } else {
                items.push(format!("{}.{}{}", l, k, if g.chance(1, 4) { "-" } else { "+" }));
            }
        }
        writeln!(w, "cmut s=0 d={} r=0 items={}", d, items.join(";")).unwrap();
        writeln!(w, "obs s=0 r=0").unwrap();
        if g.chance(1, 4) {
            // a sequential update in between
            let k = 2 + g.below(4) as u64;
            if used.insert(("0.u".into(), k, d)) {
                writeln!(w, "mut s=0 d={} r=0 grp=0 g0.u={}{}", d, k, if g.chance(1, 3) { "-" } else { "+" }).unwrap();
            }
        }
        if g.chance(1, 5) {
            writeln!(w, "restart s=0").unwrap();
            writeln!(w, "obs s=0 r=0").unwrap();
        }
    }
    writeln!(w, "obs s=0 r=0").unwrap();
    writeln!(w, "sync from=0 to=3 r=0").unwrap();
    writeln!(w, "obs s=3 r=0").unwrap();
    if early_import {
        writeln!(w, "sync from=0 to=1 r=0").unwrap();
        writeln!(w, "obs s=1 r=0").unwrap();
    }
    writeln!(w, "restart s=0").unwrap();
    writeln!(w, "obs s=0 r=0").unwrap();
}
