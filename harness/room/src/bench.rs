//! `mode=fn`: the real validation and write functions called directly, in the order the services call them,
//! on ONE sqlite connection with SEVERAL caller identities that share the room definitions.
//!
//! Why: a running `GraphDatabaseService` has one identity. C01 and C12 quantify over caller identities
//! (owner / all-rows member / own-rows member / read-only / former member / outsider / admin) acting on
//! rows written by other authors. Here caller `k` gets a `RoomAuthorisations { signing_key: key k, rooms }`
//! (the struct's fields are public) and the functions of the local path are called as
//! `graph_database.rs` / `authorisation_service.rs` / `sqlite_database.rs` chain them:
//!   mutate:  MutationParser::parse -> MutationQuery::execute (reads) -> validate_mutation -> write
//!            [-> validate_mutation again -> add_room, for room mutations]
//!   delete:  DeletionParser::parse -> DeletionQuery::build (reads) -> validate_deletion -> delete
//! Nothing of these functions is re-implemented.
//!
//! Op lines (case header `mode=fn`):
//!   rmut k=<key> d=<date> r=<room> [new=1] adm=.. grp=.. g<g>.u=.. (same tokens as `mut`)
//!   robs r=<room>
//!   new  k= d= h=<handle> e=<1 Person|2 Pet|3 Note> [room=<r>] v=<int>
//!   upd  k= d= h=<handle> [room=<r>] [v=<int>]
//!   nest k= d= h=<handle> [pn=<entity>] [room=<r>] [v=<int>] f=<0 parents|1 pet|2 owner> c=<entry>+<entry>…
//!        the tree below the mutated entity in pre-order, any depth; entry: `.`×depth then
//!        h<handle>[:v<int>][:r<room>][:f<label>] (existing row) | n<handle>:v<int>[:r<room>][:f<label>] (new row);
//!        `:f<label>`: the deeper entries that follow are the targets of that reference field of the entry
//!   null k= d= h=<handle> f=<label>
//!   del  k= d= h=<handle>
//!   delref k= d= h=<handle> f=<label> c=<handle>
//!   deladm k= d= r=<room> i=<n>      (deletes the reference room -> n-th admin entry)
//! Observation: `ok|err:<class>` followed by the canonical dump of the data rows, references and both
//! deletion logs.
use crate::inst::{class, params, DATA_MODEL};
use crate::world::*;
use discret::verif_hooks::clock;
use discret::verif_hooks::configuration::Configuration;
use discret::verif_hooks::database::authorisation_service::RoomAuthorisations;
use discret::verif_hooks::database::deletion::DeletionQuery;
use discret::verif_hooks::database::mutation_query::MutationQuery;
use discret::verif_hooks::database::query_language::data_model_parser::DataModel;
use discret::verif_hooks::database::query_language::deletion_parser::DeletionParser;
use discret::verif_hooks::database::query_language::mutation_parser::MutationParser;
use discret::verif_hooks::database::room::{user_from_json, Room};
use discret::verif_hooks::database::sqlite_database::{prepare_connection, Writeable};
use discret::verif_hooks::database::system_entities::{
    RIGHT_ENTITY_SHORT, RIGHT_MUTATE_ALL_SHORT, RIGHT_MUTATE_SELF_SHORT, SYSTEM_DATA_MODEL,
};
use discret::verif_hooks::database::Error as DbError;
use discret::verif_hooks::security::{base64_encode, Uid};
use crate::inst::Inst;
use discret::verif_hooks::database::edge::{Edge, EdgeDeletionEntry};
use discret::verif_hooks::database::mutation_query::InsertEntity;
use discret::verif_hooks::database::node::{Node, NodeDeletionEntry, NodeIdentifier};
use discret::verif_hooks::database::room_node::RoomNode;
use rusqlite::Connection;
use std::collections::{BTreeMap, HashMap, HashSet};
use std::sync::Arc;

/// what a peer would receive for one local operation
#[derive(Default)]
pub struct Outbox {
    pub local_ok: bool,
    pub nodes: Vec<Node>,
    pub edges: Vec<Edge>,
    pub node_dels: Vec<NodeDeletionEntry>,
    pub edge_dels: Vec<EdgeDeletionEntry>,
}

pub const ENT_NAMES: [&str; 4] = ["", "Person", "Pet", "Note"];
pub const LABELS: [&str; 3] = ["parents", "pet", "owner"];

pub struct Bench {
    pub case_id: u64,
    pub nkeys: u64,
    pub dmax: i64,
    conn: Connection,
    dm: DataModel,
    shared_rooms: HashMap<Uid, Room>,
    pub rooms: HashMap<u64, Uid>,
    pub groups: BTreeMap<(u64, u64), Uid>,
    keys: HashMap<u64, Vec<u8>>,
    /// handle -> (uid, entity index)
    handles: BTreeMap<u64, (Uid, usize)>,
    /// per room: uids of the admin entries in creation order
    admin_entries: HashMap<u64, Vec<Uid>>,
    max_node_size: u64,
    /// `peer=1`: a real instance holding the same room definitions, fed with what it would receive
    pub peer: Option<Inst>,
    pub peer_wanted: bool,
    pub peer_stopped: bool,
    pub outbox: Option<Outbox>,
    pub pending_room_sync: Option<u64>,
}

/// one entity below the mutated one (see `parse_children`)
struct Child {
    handle: u64,
    is_new: bool,
    v: Option<i64>,
    room: Option<u64>,
    /// reference field of this entity whose targets are `kids`
    f: Option<usize>,
    kids: Vec<Child>,
}

struct Entry {
    depth: usize,
    child: Child,
}

/// `c=<entry>+<entry>…`: the tree below the mutated entity in pre-order; an entry is `.`×depth followed by
/// `h<handle>[:v<int>][:r<room>][:f<label>]` (existing row) or `n<handle>:v<int>[:r<room>][:f<label>]` (new row);
/// `:f<label>` announces that the entries one level deeper that follow are the targets of that field
fn parse_entries(s: &str) -> Option<Vec<Entry>> {
    let mut res = vec![];
    for t0 in s.split('+').filter(|t| !t.is_empty()) {
        let depth = t0.chars().take_while(|c| *c == '.').count();
        let t = &t0[depth..];
        let parts: Vec<&str> = t.split(':').collect();
        let head = parts[0];
        let (is_new, num) = if let Some(n) = head.strip_prefix('h') {
            (false, n)
        } else if let Some(n) = head.strip_prefix('n') {
            (true, n)
        } else {
            return None;
        };
        let handle = num.parse::<u64>().ok()?;
        let mut v = None;
        let mut room = None;
        let mut f = None;
        for p in &parts[1..] {
            if let Some(x) = p.strip_prefix('v') {
                v = Some(x.parse::<i64>().ok()?);
            } else if let Some(x) = p.strip_prefix('r') {
                room = Some(x.parse::<u64>().ok()?);
            } else if let Some(x) = p.strip_prefix('f') {
                f = Some(x.parse::<usize>().ok()?);
            } else {
                return None;
            }
        }
        if is_new && v.is_none() {
            return None;
        }
        res.push(Entry { depth, child: Child { handle, is_new, v, room, f, kids: vec![] } });
    }
    if res.is_empty() {
        None
    } else {
        Some(res)
    }
}

/// the entities of one level, each followed by its own sub-entities one level deeper (`dst_e`: the entity the
/// enclosing field points to); `None`: the listing is not a tree of the data model
fn forest(entries: &mut std::iter::Peekable<std::vec::IntoIter<Entry>>, depth: usize, dst_e: usize) -> Option<Vec<Child>> {
    let mut res = vec![];
    loop {
        match entries.peek() {
            None => return Some(res),
            Some(e) if e.depth < depth => return Some(res),
            Some(e) if e.depth > depth => return None,
            Some(_) => {}
        }
        let mut c = entries.next().unwrap().child;
        match c.f {
            None => {
                if let Some(x) = entries.peek() {
                    if x.depth > depth {
                        return None;
                    }
                }
            }
            Some(f) => {
                if f >= 3 || label_types(f).0 != dst_e {
                    return None;
                }
                let kids = forest(entries, depth + 1, label_types(f).1)?;
                if kids.is_empty() || (f != 0 && kids.len() != 1) {
                    return None;
                }
                c.kids = kids;
            }
        }
        res.push(c);
    }
}

fn parse_children(s: &str, dst_e: usize) -> Option<Vec<Child>> {
    let entries = parse_entries(s)?;
    let mut it = entries.into_iter().peekable();
    let res = forest(&mut it, 0, dst_e)?;
    if it.peek().is_some() || res.is_empty() {
        return None;
    }
    Some(res)
}

/// (handle, new?, entity) of every entity of the forest, in pre-order
fn tree_handles(kids: &[Child], dst_e: usize, out: &mut Vec<(u64, bool, usize)>) {
    for c in kids {
        out.push((c.handle, c.is_new, dst_e));
        if let Some(f) = c.f {
            tree_handles(&c.kids, label_types(f).1, out);
        }
    }
}

/// entity index of the source and of the target of a reference label
fn label_types(f: usize) -> (usize, usize) {
    match f {
        0 => (1, 1),
        1 => (1, 2),
        _ => (2, 1),
    }
}

fn scalar_field(e: usize) -> &'static str {
    if e == 3 {
        "txt"
    } else {
        "name"
    }
}

impl Bench {
    pub fn new(case_id: u64, nkeys: u64, dmax: i64) -> Bench {
        let conn = Connection::open_in_memory().expect("sqlite");
        prepare_connection(&conn).expect("tables");
        let mut dm = DataModel::new();
        dm.update_system(SYSTEM_DATA_MODEL).expect("system model");
        dm.update(DATA_MODEL).expect("model");
        Bench {
            case_id,
            nkeys,
            dmax,
            conn,
            dm,
            shared_rooms: HashMap::new(),
            rooms: HashMap::new(),
            groups: BTreeMap::new(),
            keys: HashMap::new(),
            handles: BTreeMap::new(),
            admin_entries: HashMap::new(),
            max_node_size: Configuration::default().max_object_size_in_kb * 1024,
            peer: None,
            peer_wanted: false,
            peer_stopped: false,
            outbox: None,
            pending_room_sync: None,
        }
    }

    fn key(&mut self, k: u64) -> Vec<u8> {
        key_of(&mut self.keys, self.case_id, k)
    }

    fn auth_for(&self, k: u64) -> RoomAuthorisations {
        RoomAuthorisations {
            signing_key: signing_key_of(self.case_id, k),
            rooms: self.shared_rooms.clone(),
            max_node_size: self.max_node_size,
        }
    }

    /// parse, read, validate, write (in a transaction), and for room mutations validate again and install
    fn run_mutation(
        &mut self,
        k: u64,
        d: i64,
        q: &str,
        p: &[(String, String)],
    ) -> Result<MutationQuery, DbError> {
        clock::set(d);
        let parser = Arc::new(MutationParser::parse(q, &self.dm)?);
        let mut prm = params(p);
        let mut mq = MutationQuery::execute(&mut prm, parser, &self.conn)?;
        let mut auth = self.auth_for(k);
        let rooms = match auth.validate_mutation(&mut mq) {
            Ok(r) => r,
            Err(e) => {
                // refused: what the peers WOULD have received (rows are already signed by `sign_all`)
                if matches!(e, DbError::AuthorisationRejected(_, _) | DbError::UnknownRoom(_)) {
                    let mut out = Outbox::default();
                    for ent in &mq.mutate_entities {
                        collect_entity(ent, &mut out, Some((d, &auth.signing_key)));
                    }
                    self.outbox = Some(out);
                }
                return Err(e);
            }
        };
        {
            let mut out = Outbox { local_ok: true, ..Default::default() };
            for ent in &mq.mutate_entities {
                collect_entity(ent, &mut out, None);
            }
            self.outbox = Some(out);
        }
        self.conn.execute("BEGIN TRANSACTION", [])?;
        if let Err(e) = mq.write(&self.conn) {
            let _ = self.conn.execute("ROLLBACK", []);
            return Err(e.into());
        }
        self.conn.execute("COMMIT", [])?;
        if !rooms.is_empty() {
            let rooms = auth.validate_mutation(&mut mq)?;
            for room in rooms {
                self.shared_rooms.insert(room.id, room);
            }
        }
        Ok(mq)
    }

    fn run_deletion(&mut self, k: u64, d: i64, q: &str, p: &[(String, String)]) -> Result<(), DbError> {
        clock::set(d);
        let parser = Arc::new(DeletionParser::parse(q, &self.dm)?);
        let mut prm = params(p);
        let mut dq = DeletionQuery::build(&mut prm, parser, &self.conn)?;
        let auth = self.auth_for(k);
        if let Err(e) = auth.validate_deletion(&mut dq) {
            if matches!(e, DbError::AuthorisationRejected(_, _) | DbError::UnknownRoom(_)) {
                let mut out = Outbox::default();
                for n in &dq.nodes {
                    if let Some(r) = n.node.room_id {
                        out.node_dels.push(NodeDeletionEntry::build(r, &n.node, d, &auth.signing_key));
                    }
                }
                for e in &dq.edges {
                    if let Some(r) = e.room_id {
                        out.edge_dels.push(EdgeDeletionEntry::build(r, &e.edge, d, &auth.signing_key));
                    }
                }
                for n in &dq.updated_nodes {
                    let mut n = n.clone();
                    let _ = n.sign(&auth.signing_key);
                    out.nodes.push(n);
                }
                self.outbox = Some(out);
            }
            return Err(e);
        }
        self.outbox = Some(Outbox {
            local_ok: true,
            nodes: dq.updated_nodes.clone(),
            edges: vec![],
            node_dels: dq.node_log.iter().map(wire).collect(),
            edge_dels: dq.edge_log.iter().map(wire).collect(),
        });
        self.conn.execute("BEGIN TRANSACTION", [])?;
        if let Err(e) = dq.delete(&self.conn) {
            let _ = self.conn.execute("ROLLBACK", []);
            return Err(e.into());
        }
        self.conn.execute("COMMIT", [])?;
        Ok(())
    }

    /// after an accepted room mutation: the peer imports the new definition (`RoomNode::read` here,
    /// `add_room_node` there)
    pub async fn sync_room_to_peer(&mut self) -> String {
        let r = match self.pending_room_sync.take() {
            Some(r) if self.peer_wanted => r,
            _ => return String::new(),
        };
        if self.peer_stopped {
            return " peer:stopped".into();
        }
        if self.peer.is_none() {
            let folder = std::env::temp_dir().join(format!("dv-room-peer-{}-{}", std::process::id(), self.case_id));
            let _ = std::fs::remove_dir_all(&folder);
            match Inst::start(folder, crate::inst::secret_of(777, self.case_id)).await {
                Ok(i) => self.peer = Some(i),
                Err(e) => {
                    self.peer_stopped = true;
                    return format!(" peer:err:start-{}", class(&e));
                }
            }
        }
        let id = match self.rooms.get(&r) {
            Some(id) => *id,
            None => return " peer:err:no-room".into(),
        };
        let node = match RoomNode::read(&self.conn, &id) {
            Ok(Some(n)) => {
                let ser = bincode::serialize(&n).unwrap();
                bincode::deserialize::<RoomNode>(&ser).unwrap()
            }
            _ => return " peer:err:no-room".into(),
        };
        match self.peer.as_ref().unwrap().import(node).await {
            Ok(()) => " peer:ok".into(),
            Err(e) => {
                self.peer_stopped = true;
                if std::env::var("DV_DEBUG").is_ok() {
                    eprintln!("peer import error: {}", e);
                }
                format!(" peer:err:{}", class(&e))
            }
        }
    }

    /// feed the peer with what it would receive for the last data operation; returns ` peer=…`
    pub async fn feed_peer(&mut self) -> String {
        let out = match self.outbox.take() {
            Some(o) if self.peer_wanted => o,
            _ => return String::new(),
        };
        if self.peer_stopped {
            return " peer=stopped".into();
        }
        let peer = match self.peer.as_ref() {
            Some(p) => p,
            None => return " peer=none".into(),
        };
        let mut sent = 0usize;
        let mut accepted = 0usize;
        let mut refused: Vec<String> = vec![];
        let mut taken: Vec<String> = vec![];
        // 1. reference deletion records
        for e in &out.edge_dels {
            sent += 1;
            let label = format!(
                "de{}>{}>{}",
                self.handle_of(&e.src),
                self.label_index(&e.src_entity, &e.label),
                self.handle_of(&e.dest)
            );
            let _ = peer.svc.delete_edges(vec![wire(e)]).await;
            let (room, src, lab, dest, dd) = (e.room_id, e.src, e.label.clone(), e.dest, e.deletion_date);
            let n = peer_count(
                peer,
                "SELECT count(*) FROM _edge_deletion_log WHERE room_id=? AND src=? AND label=? AND dest=? AND deletion_date=?",
                move |conn, sql| conn.query_row(sql, (room, src, lab, dest, dd), |row| row.get::<_, i64>(0)),
            )
            .await;
            if n > 0 {
                accepted += 1;
                taken.push(label);
            } else {
                refused.push(label);
            }
        }
        // 2. node deletion records
        for e in &out.node_dels {
            sent += 1;
            let label = format!("dn{}", self.handle_of(&e.id));
            let _ = peer.svc.delete_nodes(vec![wire(e)]).await;
            let (room, id, dd) = (e.room_id, e.id, e.deletion_date);
            let n = peer_count(
                peer,
                "SELECT count(*) FROM _node_deletion_log WHERE room_id=? AND id=? AND deletion_date=?",
                move |conn, sql| conn.query_row(sql, (room, id, dd), |row| row.get::<_, i64>(0)),
            )
            .await;
            if n > 0 {
                accepted += 1;
                taken.push(label);
            } else {
                refused.push(label);
            }
        }
        // 3. rows, per room (rows without room are not synchronised)
        let mut by_room: Vec<(Uid, Vec<Node>)> = vec![];
        for n in &out.nodes {
            if let Some(r) = n.room_id {
                match by_room.iter_mut().find(|(x, _)| *x == r) {
                    Some((_, v)) => v.push(n.clone()),
                    None => by_room.push((r, vec![n.clone()])),
                }
            }
        }
        for (room, nodes) in by_room {
            let mut set = HashSet::new();
            for n in &nodes {
                set.insert(NodeIdentifier { id: n.id, mdate: n.mdate, signature: n._signature.clone() });
            }
            // as `synchronise_day` does since /repo ffeda5d: ids that carry a deletion record of the room are not requested
            let mut ntis = match peer.svc.filter_existing_room_node(room, set).await {
                Ok(v) => v,
                Err(_) => vec![],
            };
            let mut requested: Vec<Uid> = vec![];
            for nti in ntis.iter_mut() {
                if let Some(n) = nodes.iter().find(|n| n.id == nti.id) {
                    // as `synchronise_day` does (peer_inbound_service.rs:895-900): the body arrives over the
                    // wire (no local row id) and takes the slot of the local row it replaces
                    let mut n: Node = wire(n);
                    n._local_id = nti.old_local_id;
                    nti.node = Some(n);
                    requested.push(nti.id);
                }
            }
            for n in &nodes {
                sent += 1;
                if !requested.contains(&n.id) {
                    refused.push(format!("stale:n{}", self.handle_of(&n.id)));
                }
            }
            let rejected = peer.svc.add_nodes(room, ntis).await.unwrap_or_default();
            for id in &requested {
                if rejected.contains(id) {
                    refused.push(format!("n{}", self.handle_of(id)));
                } else {
                    accepted += 1;
                    taken.push(format!("n{}", self.handle_of(id)));
                }
            }
        }
        // 4. references, in the room of their source row
        for e in &out.edges {
            let room = match out.nodes.iter().find(|n| n.id == e.src) {
                Some(n) => n.room_id,
                None => self
                    .conn
                    .query_row("SELECT room_id FROM _node WHERE id = ?", [&e.src], |row| row.get::<_, Option<Uid>>(0))
                    .ok()
                    .flatten(),
            };
            let room = match room {
                Some(r) => r,
                None => continue,
            };
            sent += 1;
            let label = format!(
                "e{}>{}>{}",
                self.handle_of(&e.src),
                self.label_index(&e.src_entity, &e.label),
                self.handle_of(&e.dest)
            );
            match peer.svc.add_edges(room, vec![wire(e)]).await {
                Ok(rej) if rej.is_empty() => {
                    accepted += 1;
                    taken.push(label);
                }
                _ => refused.push(label),
            }
        }
        refused.sort();
        taken.sort();
        if (out.local_ok && !refused.is_empty()) || (!out.local_ok && accepted > 0) {
            // the peer's content no longer equals the local content before the next operation
            self.peer_stopped = true;
        }
        if sent == 0 {
            " peer=none".into()
        } else if refused.is_empty() {
            " peer=accept".into()
        } else if accepted == 0 {
            format!(" peer=refuse:{}", refused.join(","))
        } else {
            format!(" peer=partial:{};ok:{}", refused.join(","), taken.join(","))
        }
    }

    pub fn op_rmut(&mut self, kv: &Kv) -> String {
        let (k, d) = match (get_u(kv, "k"), get_i(kv, "d")) {
            (Some(k), Some(d)) => (k, d),
            _ => return "bad-op".into(),
        };
        let case = self.case_id;
        let keys = &mut self.keys;
        let handles = &self.handles;
        let admin_entries = &self.admin_entries;
        let other = |x: &str| -> Option<Uid> {
            if let Some(h) = x.strip_prefix('h') {
                return handles.get(&h.parse::<u64>().ok()?).map(|(id, _)| *id);
            }
            if let Some(a) = x.strip_prefix('a') {
                let (r2, i) = a.split_once('.')?;
                return admin_entries.get(&r2.parse::<u64>().ok()?)?.get(i.parse::<usize>().ok()?).copied();
            }
            None
        };
        let rm = match build_room_mutation_with(kv, &self.rooms, &self.groups, &mut |k| key_of(keys, case, k), &other) {
            Some(rm) => rm,
            None => return "bad-op".into(),
        };
        match self.run_mutation(k, d, &rm.q, &rm.p) {
            Ok(mq) => {
                let ent = &mq.mutate_entities[0];
                if rm.is_new {
                    self.rooms.insert(rm.r, ent.node_to_mutate.id);
                }
                if let Some(subs) = ent.sub_nodes.get("authorisations") {
                    for (i, g) in rm.mentioned.iter().enumerate() {
                        if rm.created.contains(g) && !kv.contains_key(&format!("g{}.id", g)) {
                            self.groups.insert((rm.r, *g), subs[i].node_to_mutate.id);
                        }
                    }
                }
                if let Some(subs) = ent.sub_nodes.get("admin") {
                    let l = self.admin_entries.entry(rm.r).or_default();
                    for s in subs {
                        l.push(s.node_to_mutate.id);
                    }
                }
                self.outbox = None;
                self.pending_room_sync = Some(rm.r);
                "ok".into()
            }
            Err(e) => {
                self.outbox = None;
                format!("err:{}", class(&e))
            }
        }
    }

    /// the decision matrix of the room as the PEER holds it
    pub async fn op_pobs(&mut self, kv: &Kv) -> String {
        let r = match get_u(kv, "r") {
            Some(r) => r,
            None => return "bad-op".into(),
        };
        let id = match self.rooms.get(&r) {
            Some(id) => *id,
            None => return "none".into(),
        };
        let room = match self.peer.as_ref() {
            Some(p) => p.room(id).await,
            None => None,
        };
        match room {
            Some(room) => {
                let case = self.case_id;
                matrix_of(&room, r, &self.groups, self.nkeys, self.dmax, &mut self.keys, case)
            }
            None => "none".into(),
        }
    }

    /// the data rows the peer holds: `h:room:author:mdate` sorted
    pub async fn op_pdump(&mut self) -> String {
        let peer = match self.peer.as_ref() {
            Some(p) => p,
            None => return "none".into(),
        };
        let (tx, rx) = tokio::sync::oneshot::channel::<Vec<(Uid, Option<Uid>, i64, String, Vec<u8>)>>();
        let _ = peer
            .svc
            .db
            .reader
            .send_async(Box::new(move |conn| {
                let mut res = vec![];
                if let Ok(mut stmt) = conn.prepare("SELECT id, room_id, mdate, _entity, verifying_key FROM _node") {
                    if let Ok(it) = stmt.query_map([], |row| {
                        Ok((row.get(0)?, row.get(1)?, row.get(2)?, row.get(3)?, row.get(4)?))
                    }) {
                        for r in it.flatten() {
                            res.push(r);
                        }
                    }
                }
                let _ = tx.send(res);
            }))
            .await;
        let rows = rx.await.unwrap_or_default();
        let mut out: Vec<String> = vec![];
        for (id, room, mdate, ent, key) in rows {
            if self.entity_index(&ent) == "?" {
                continue;
            }
            out.push(format!(
                "{}:{}:{}:{}",
                self.handle_of(&id),
                self.room_index(&room),
                self.key_index(&key),
                mdate
            ));
        }
        out.sort();
        format!("P[{}]", out.join(","))
    }

    /// the STORED definition of a room (`RoomNode::read`): the room row, its admin entries and its groups with their
    /// entries, each with the key that signed it — `S <author>:<mdate> A[..] G[..]`, lists sorted
    pub fn op_rstored(&mut self, kv: &Kv) -> String {
        let r = match get_u(kv, "r") {
            Some(r) => r,
            None => return "bad-op".into(),
        };
        let id = match self.rooms.get(&r) {
            Some(id) => *id,
            None => return "none".into(),
        };
        let node = match RoomNode::read(&self.conn, &id) {
            Ok(Some(n)) => n,
            _ => return "none".into(),
        };
        let users = |b: &mut Bench, l: &[discret::verif_hooks::database::room_node::UserNode]| -> String {
            let mut v: Vec<String> = l
                .iter()
                .map(|u| {
                    let (k, en) = match u.node._json.as_deref().map(|j| user_from_json(j, u.node.mdate)) {
                        Some(Ok(x)) => (b.key_index(&x.verifying_key), x.enabled),
                        _ => ("!".to_string(), false),
                    };
                    format!("{}:{}:{}:{}", k, u.node.mdate, en as u8, b.key_index(&u.node.verifying_key))
                })
                .collect();
            v.sort();
            v.join(",")
        };
        let admins = users(self, &node.admin_nodes);
        let mut groups: Vec<String> = vec![];
        for a in &node.auth_nodes {
            let name = self
                .groups
                .iter()
                .find(|(_, v)| **v == a.node.id)
                .map(|((r2, g2), _)| format!("{}.{}", r2, g2))
                .unwrap_or("?".into());
            let mut rights: Vec<String> = a
                .right_nodes
                .iter()
                .map(|x| {
                    // the stored JSON (short field names of sys.EntityRight); own-rows shown as `EntityRight::new` reads it
                    let body = match x.node._json.as_deref().and_then(|j| serde_json::from_str::<serde_json::Value>(j).ok()) {
                        Some(v) => {
                            let ent = v.get(RIGHT_ENTITY_SHORT).and_then(|e| e.as_str()).unwrap_or("");
                            let ms = v.get(RIGHT_MUTATE_SELF_SHORT).and_then(|e| e.as_bool()).unwrap_or(false);
                            let ma = v.get(RIGHT_MUTATE_ALL_SHORT).and_then(|e| e.as_bool()).unwrap_or(false);
                            format!(
                                "{}:{}:{}",
                                ENTITIES.iter().position(|e| *e == ent).map(|i| i.to_string()).unwrap_or("?".into()),
                                (ms || ma) as u8,
                                ma as u8
                            )
                        }
                        None => "!".to_string(),
                    };
                    format!("{}:{}:{}", body, x.node.mdate, self.key_index(&x.node.verifying_key))
                })
                .collect();
            rights.sort();
            let us = users(self, &a.user_nodes);
            let uas = users(self, &a.user_admin_nodes);
            let author = self.key_index(&a.node.verifying_key);
            groups.push(format!("{}={}:{}:U[{}]:R[{}]:UA[{}]", name, author, a.node.mdate, us, rights.join(","), uas));
        }
        groups.sort();
        let author = self.key_index(&node.node.verifying_key);
        format!("S {}:{} A[{}] G[{}]", author, node.node.mdate, admins, groups.join(";"))
    }

    pub fn op_robs(&mut self, kv: &Kv) -> String {
        let r = match get_u(kv, "r") {
            Some(r) => r,
            None => return "bad-op".into(),
        };
        let room = match self.rooms.get(&r).and_then(|id| self.shared_rooms.get(id)) {
            Some(room) => room.clone(),
            None => return "none".into(),
        };
        let case = self.case_id;
        matrix_of(&room, r, &self.groups, self.nkeys, self.dmax, &mut self.keys, case)
    }

    fn room_param(&self, r: Option<u64>, name: &str, p: &mut Vec<(String, String)>) -> Result<String, ()> {
        match r {
            None => Ok(String::new()),
            Some(r) => match self.rooms.get(&r) {
                Some(id) => {
                    p.push((name.to_string(), base64_encode(id)));
                    Ok(format!("room_id:${} ", name))
                }
                None => Err(()),
            },
        }
    }

    fn finish(&mut self, res: Result<(), DbError>) -> String {
        let head = match res {
            Ok(()) => "ok".to_string(),
            Err(e) => format!("err:{}", class(&e)),
        };
        format!("{} {}", head, self.dump())
    }

    pub fn op_new(&mut self, kv: &Kv) -> String {
        let (k, d, h, e, v) = match (get_u(kv, "k"), get_i(kv, "d"), get_u(kv, "h"), get_u(kv, "e"), get_i(kv, "v")) {
            (Some(k), Some(d), Some(h), Some(e), Some(v)) if (1..=3).contains(&e) => (k, d, h, e as usize, v),
            _ => return "bad-op".into(),
        };
        if self.handles.contains_key(&h) {
            return "bad-op".into();
        }
        let mut p = vec![("v".to_string(), format!("v{}", v))];
        let room = match self.room_param(get_u(kv, "room"), "r", &mut p) {
            Ok(s) => s,
            Err(()) => return "bad-op".into(),
        };
        let q = format!("mutate {{ {} {{ {}{}:$v }} }}", ENT_NAMES[e], room, scalar_field(e));
        let res = self.run_mutation(k, d, &q, &p).map(|mq| {
            self.handles.insert(h, (mq.mutate_entities[0].node_to_mutate.id, e));
        });
        self.finish(res)
    }

    pub fn op_upd(&mut self, kv: &Kv) -> String {
        let (k, d, h) = match (get_u(kv, "k"), get_i(kv, "d"), get_u(kv, "h")) {
            (Some(k), Some(d), Some(h)) => (k, d, h),
            _ => return "bad-op".into(),
        };
        let (id, e) = match self.handles.get(&h) {
            Some(x) => *x,
            None => return "bad-op".into(),
        };
        let mut p = vec![("i".to_string(), base64_encode(&id))];
        let room = match self.room_param(get_u(kv, "room"), "r", &mut p) {
            Ok(s) => s,
            Err(()) => return "bad-op".into(),
        };
        let val = match kv.get("v") {
            Some(v) => match v.parse::<i64>() {
                Ok(v) => {
                    p.push(("v".to_string(), format!("v{}", v)));
                    format!("{}:$v ", scalar_field(e))
                }
                Err(_) => return "bad-op".into(),
            },
            None => String::new(),
        };
        let q = format!("mutate {{ {} {{ id:$i {}{}}} }}", ENT_NAMES[e], room, val);
        let res = self.run_mutation(k, d, &q, &p).map(|_| ());
        self.finish(res)
    }

    /// the text of the sub-entities of one reference field, the parameters they need (numbered in pre-order)
    fn emit_children(
        &self,
        kids: &[Child],
        f: usize,
        counter: &mut usize,
        p: &mut Vec<(String, String)>,
    ) -> Result<String, ()> {
        let dst_e = label_types(f).1;
        let mut subs = String::new();
        for c in kids {
            let i = *counter;
            *counter += 1;
            let mut cq = String::new();
            if !c.is_new {
                match self.handles.get(&c.handle) {
                    Some((id, e)) if *e == dst_e => {
                        p.push((format!("c{}", i), base64_encode(id)));
                        cq.push_str(&format!("id:$c{} ", i));
                    }
                    _ => return Err(()),
                }
            }
            cq.push_str(&self.room_param(c.room, &format!("cr{}", i), p)?);
            if let Some(v) = c.v {
                p.push((format!("cv{}", i), format!("v{}", v)));
                cq.push_str(&format!("{}:$cv{} ", scalar_field(dst_e), i));
            }
            if let Some(cf) = c.f {
                cq.push_str(&self.emit_children(&c.kids, cf, counter, p)?);
            }
            subs.push_str(&format!("{{ {}}}, ", cq));
        }
        if f == 0 {
            Ok(format!("{}:[{}] ", LABELS[f], subs))
        } else {
            Ok(format!("{}:{} ", LABELS[f], subs.trim_end_matches(", ")))
        }
    }

    /// binds the handles of the rows created by an accepted nested mutation
    fn bind_new(&mut self, ent: &InsertEntity, kids: &[Child], f: usize) {
        let dst_e = label_types(f).1;
        let subs = match ent.sub_nodes.get(LABELS[f]) {
            Some(s) => s,
            None => return,
        };
        for (i, c) in kids.iter().enumerate() {
            if c.is_new {
                self.handles.insert(c.handle, (subs[i].node_to_mutate.id, dst_e));
            }
            if let Some(cf) = c.f {
                self.bind_new(&subs[i], &c.kids, cf);
            }
        }
    }

    pub fn op_nest(&mut self, kv: &Kv) -> String {
        let (k, d, h, f) = match (get_u(kv, "k"), get_i(kv, "d"), get_u(kv, "h"), get_u(kv, "f")) {
            (Some(k), Some(d), Some(h), Some(f)) if f < 3 => (k, d, h, f as usize),
            _ => return "bad-op".into(),
        };
        let (src_e, dst_e) = label_types(f);
        let children = match kv.get("c").and_then(|c| parse_children(c, dst_e)) {
            Some(c) => c,
            None => return "bad-op".into(),
        };
        if f != 0 && children.len() != 1 {
            return "bad-op".into();
        }
        let mut p: Vec<(String, String)> = vec![];
        // the mutated entity
        let parent_new = kv.get("pn").is_some();
        let mut q = String::new();
        if parent_new {
            match get_u(kv, "pn") {
                Some(e) if e as usize == src_e => {}
                _ => return "bad-op".into(),
            }
            if kv.get("v").is_none() {
                return "bad-op".into();
            }
        }
        // handles: distinct over the whole tree; a new entity's handle is free, an existing one's is bound to the
        // entity its field points to
        let mut hs: Vec<(u64, bool, usize)> = vec![(h, parent_new, src_e)];
        tree_handles(&children, dst_e, &mut hs);
        for (i, (hh, is_new, e)) in hs.iter().enumerate() {
            if hs[..i].iter().any(|x| x.0 == *hh) {
                return "bad-op".into();
            }
            match self.handles.get(hh) {
                None if *is_new => {}
                Some((_, e0)) if !*is_new && e0 == e => {}
                _ => return "bad-op".into(),
            }
        }
        if !parent_new {
            let id = self.handles.get(&h).unwrap().0;
            p.push(("i".to_string(), base64_encode(&id)));
            q.push_str("id:$i ");
        }
        match self.room_param(get_u(kv, "room"), "r", &mut p) {
            Ok(s) => q.push_str(&s),
            Err(()) => return "bad-op".into(),
        }
        if let Some(v) = kv.get("v") {
            match v.parse::<i64>() {
                Ok(v) => {
                    p.push(("v".to_string(), format!("v{}", v)));
                    q.push_str(&format!("{}:$v ", scalar_field(src_e)));
                }
                Err(_) => return "bad-op".into(),
            }
        }
        let mut counter = 0usize;
        match self.emit_children(&children, f, &mut counter, &mut p) {
            Ok(s) => q.push_str(&s),
            Err(()) => return "bad-op".into(),
        }
        let q = format!("mutate {{ {} {{ {}}} }}", ENT_NAMES[src_e], q);
        let res = match self.run_mutation(k, d, &q, &p) {
            Ok(mq) => {
                let ent = &mq.mutate_entities[0];
                if parent_new {
                    self.handles.insert(h, (ent.node_to_mutate.id, src_e));
                }
                self.bind_new(ent, &children, f);
                Ok(())
            }
            Err(e) => Err(e),
        };
        self.finish(res)
    }

    pub fn op_null(&mut self, kv: &Kv) -> String {
        let (k, d, h, f) = match (get_u(kv, "k"), get_i(kv, "d"), get_u(kv, "h"), get_u(kv, "f")) {
            (Some(k), Some(d), Some(h), Some(f)) if f < 3 => (k, d, h, f as usize),
            _ => return "bad-op".into(),
        };
        let (src_e, _) = label_types(f);
        let id = match self.handles.get(&h) {
            Some((id, e)) if *e == src_e => *id,
            _ => return "bad-op".into(),
        };
        let p = vec![("i".to_string(), base64_encode(&id))];
        let q = format!("mutate {{ {} {{ id:$i {}:null }} }}", ENT_NAMES[src_e], LABELS[f]);
        let res = self.run_mutation(k, d, &q, &p).map(|_| ());
        self.finish(res)
    }

    pub fn op_del(&mut self, kv: &Kv) -> String {
        let (k, d, h) = match (get_u(kv, "k"), get_i(kv, "d"), get_u(kv, "h")) {
            (Some(k), Some(d), Some(h)) => (k, d, h),
            _ => return "bad-op".into(),
        };
        let (id, e) = match self.handles.get(&h) {
            Some(x) => *x,
            None => return "bad-op".into(),
        };
        let p = vec![("i".to_string(), base64_encode(&id))];
        let q = format!("delete {{ {} {{ $i }} }}", ENT_NAMES[e]);
        let res = self.run_deletion(k, d, &q, &p);
        self.finish(res)
    }

    pub fn op_delref(&mut self, kv: &Kv) -> String {
        let (k, d, h, f, c) = match (get_u(kv, "k"), get_i(kv, "d"), get_u(kv, "h"), get_u(kv, "f"), get_u(kv, "c")) {
            (Some(k), Some(d), Some(h), Some(f), Some(c)) if f < 3 => (k, d, h, f as usize, c),
            _ => return "bad-op".into(),
        };
        let (src_e, dst_e) = label_types(f);
        let id = match self.handles.get(&h) {
            Some((id, e)) if *e == src_e => *id,
            _ => return "bad-op".into(),
        };
        let cid = match self.handles.get(&c) {
            Some((id, e)) if *e == dst_e => *id,
            _ => return "bad-op".into(),
        };
        let p = vec![("i".to_string(), base64_encode(&id)), ("c".to_string(), base64_encode(&cid))];
        let q = format!("delete {{ {} {{ $i {}[$c] }} }}", ENT_NAMES[src_e], LABELS[f]);
        let res = self.run_deletion(k, d, &q, &p);
        self.finish(res)
    }

    /// deletion of the reference room -> its i-th admin entry (candidate defect 32)
    pub fn op_deladm(&mut self, kv: &Kv) -> String {
        let (k, d, r, i) = match (get_u(kv, "k"), get_i(kv, "d"), get_u(kv, "r"), get_u(kv, "i")) {
            (Some(k), Some(d), Some(r), Some(i)) => (k, d, r, i as usize),
            _ => return "bad-op".into(),
        };
        let rid = match self.rooms.get(&r) {
            Some(id) => *id,
            None => return "bad-op".into(),
        };
        let uid = match self.admin_entries.get(&r).and_then(|l| l.get(i)) {
            Some(u) => *u,
            None => return "bad-op".into(),
        };
        let p = vec![("i".to_string(), base64_encode(&rid)), ("c".to_string(), base64_encode(&uid))];
        let q = "delete { sys.Room { $i admin[$c] } }".to_string();
        let res = self.run_deletion(k, d, &q, &p);
        let head = match res {
            Ok(()) => "ok".to_string(),
            Err(e) => format!("err:{}", class(&e)),
        };
        // what a restart would load now: number of admin references left and the author of the room row
        let n: i64 = self
            .conn
            .query_row("SELECT count(*) FROM _edge WHERE src = ? AND label = '32'", [&rid], |row| row.get(0))
            .unwrap_or(-1);
        let author: Vec<u8> = self
            .conn
            .query_row("SELECT verifying_key FROM _node WHERE id = ?", [&rid], |row| row.get(0))
            .unwrap_or_default();
        let a = self.key_index(&author);
        format!("{} adminrefs={} roomauthor={}", head, n, a)
    }

    fn key_index(&mut self, key: &[u8]) -> String {
        for k in 1..=self.nkeys {
            if self.key(k) == key {
                return k.to_string();
            }
        }
        "?".into()
    }

    fn room_index(&self, id: &Option<Uid>) -> String {
        match id {
            None => "-".into(),
            Some(id) => self
                .rooms
                .iter()
                .find(|(_, v)| *v == id)
                .map(|(k, _)| k.to_string())
                .unwrap_or("?".into()),
        }
    }

    fn handle_of(&self, id: &Uid) -> String {
        self.handles
            .iter()
            .find(|(_, (u, _))| u == id)
            .map(|(h, _)| h.to_string())
            .unwrap_or("?".into())
    }

    fn label_index(&self, src_entity_short: &str, label_short: &str) -> String {
        for (f, name) in LABELS.iter().enumerate() {
            let (se, _) = label_types(f);
            if let Ok(ent) = self.dm.get_entity(ENT_NAMES[se]) {
                if ent.short_name == src_entity_short {
                    if let Ok(field) = ent.get_field(name) {
                        if field.short_name == label_short {
                            return f.to_string();
                        }
                    }
                }
            }
        }
        "?".into()
    }

    fn entity_index(&self, short: &str) -> String {
        for e in 1..=3 {
            if let Ok(ent) = self.dm.get_entity(ENT_NAMES[e]) {
                if ent.short_name == short {
                    return e.to_string();
                }
            }
        }
        "?".into()
    }

    /// canonical dump of the data rows, their references and both deletion logs
    pub fn dump(&mut self) -> String {
        let mut rows: Vec<(u64, String)> = vec![];
        let mut extra: Vec<String> = vec![];
        {
            let mut stmt = self
                .conn
                .prepare("SELECT id, room_id, cdate, mdate, _entity, _json, verifying_key FROM _node")
                .unwrap();
            let it = stmt
                .query_map([], |row| {
                    Ok((
                        row.get::<_, Uid>(0)?,
                        row.get::<_, Option<Uid>>(1)?,
                        row.get::<_, i64>(2)?,
                        row.get::<_, i64>(3)?,
                        row.get::<_, String>(4)?,
                        row.get::<_, Option<String>>(5)?,
                        row.get::<_, Vec<u8>>(6)?,
                    ))
                })
                .unwrap();
            let all: Vec<_> = it.map(|r| r.unwrap()).collect();
            drop(stmt);
            for (id, room, cdate, mdate, ent, json, key) in all {
                let e = self.entity_index(&ent);
                if e == "?" {
                    continue; // system rows are observed through the room definition
                }
                let v = json
                    .and_then(|j| serde_json::from_str::<serde_json::Value>(&j).ok())
                    .and_then(|j| j.as_object().and_then(|o| o.values().find_map(|x| x.as_str().map(|s| s.to_string()))))
                    .unwrap_or("-".into());
                let h = self.handle_of(&id);
                let line = format!(
                    "{}:{}:{}:{}:{}:{}:{}",
                    h,
                    e,
                    self.room_index(&room),
                    self.key_index(&key),
                    cdate,
                    mdate,
                    v
                );
                match h.parse::<u64>() {
                    Ok(n) => rows.push((n, line)),
                    Err(_) => extra.push(line),
                }
            }
        }
        rows.sort();
        extra.sort();
        let mut nodes: Vec<String> = rows.into_iter().map(|(_, l)| l).collect();
        nodes.append(&mut extra);

        let mut edges: Vec<String> = vec![];
        {
            let mut stmt = self
                .conn
                .prepare("SELECT src, src_entity, label, dest, cdate, verifying_key FROM _edge")
                .unwrap();
            let all: Vec<(Uid, String, String, Uid, i64, Vec<u8>)> = stmt
                .query_map([], |row| {
                    Ok((row.get(0)?, row.get(1)?, row.get(2)?, row.get(3)?, row.get(4)?, row.get(5)?))
                })
                .unwrap()
                .map(|r| r.unwrap())
                .collect();
            drop(stmt);
            for (src, se, label, dest, cdate, key) in all {
                if self.entity_index(&se) == "?" {
                    continue;
                }
                edges.push(format!(
                    "{}>{}>{}:{}:{}",
                    self.handle_of(&src),
                    self.label_index(&se, &label),
                    self.handle_of(&dest),
                    self.key_index(&key),
                    cdate
                ));
            }
        }
        edges.sort();

        let mut dn: Vec<String> = vec![];
        {
            let mut stmt = self
                .conn
                .prepare("SELECT room_id, id, entity, mdate, deletion_date, verifying_key FROM _node_deletion_log")
                .unwrap();
            let all: Vec<(Uid, Uid, String, i64, i64, Vec<u8>)> = stmt
                .query_map([], |row| {
                    Ok((row.get(0)?, row.get(1)?, row.get(2)?, row.get(3)?, row.get(4)?, row.get(5)?))
                })
                .unwrap()
                .map(|r| r.unwrap())
                .collect();
            drop(stmt);
            for (room, id, ent, mdate, ddate, key) in all {
                dn.push(format!(
                    "{}:{}:{}:{}:{}:{}",
                    self.room_index(&Some(room)),
                    self.handle_of(&id),
                    self.entity_index(&ent),
                    mdate,
                    ddate,
                    self.key_index(&key)
                ));
            }
        }
        dn.sort();

        let mut de: Vec<String> = vec![];
        {
            let mut stmt = self
                .conn
                .prepare("SELECT room_id, src, src_entity, label, dest, cdate, deletion_date, verifying_key FROM _edge_deletion_log")
                .unwrap();
            let all: Vec<(Uid, Uid, String, String, Uid, i64, i64, Vec<u8>)> = stmt
                .query_map([], |row| {
                    Ok((
                        row.get(0)?,
                        row.get(1)?,
                        row.get(2)?,
                        row.get(3)?,
                        row.get(4)?,
                        row.get(5)?,
                        row.get(6)?,
                        row.get(7)?,
                    ))
                })
                .unwrap()
                .map(|r| r.unwrap())
                .collect();
            drop(stmt);
            for (room, src, se, label, dest, cdate, ddate, key) in all {
                de.push(format!(
                    "{}:{}>{}>{}:{}:{}:{}",
                    self.room_index(&Some(room)),
                    self.handle_of(&src),
                    self.label_index(&se, &label),
                    self.handle_of(&dest),
                    cdate,
                    ddate,
                    self.key_index(&key)
                ));
            }
        }
        de.sort();
        format!(
            "N[{}] E[{}] DN[{}] DE[{}]",
            nodes.join(","),
            edges.join(","),
            dn.join(","),
            de.join(",")
        )
    }
}

/// the rows, references and deletion records of one entity of a mutation tree and of its sub-entities.
/// `would_be`: the mutation was refused; the deletion records it would have produced are built here.
fn collect_entity(ent: &InsertEntity, out: &mut Outbox, would_be: Option<(i64, &discret::verif_hooks::security::Ed25519SigningKey)>) {
    if let Some(n) = &ent.node_to_mutate.node {
        out.nodes.push(n.clone());
    }
    for e in &ent.edge_insertions {
        out.edges.push(e.clone());
    }
    match would_be {
        None => {
            for l in &ent.edge_deletions_log {
                out.edge_dels.push(wire(l));
            }
        }
        Some((now, sk)) => {
            if let Some(r) = ent.node_to_mutate.room_id {
                if ent.node_to_mutate.node.is_some() {
                    for e in &ent.edge_deletions {
                        out.edge_dels.push(EdgeDeletionEntry::build(r, e, now, sk));
                    }
                }
            }
        }
    }
    for (_, subs) in &ent.sub_nodes {
        for s in subs {
            collect_entity(s, out, would_be);
        }
    }
}

/// a record as it arrives over the wire (bincode round trip; fields marked `serde(skip)` are reset)
fn wire<T: serde::Serialize + serde::de::DeserializeOwned>(x: &T) -> T {
    bincode::deserialize(&bincode::serialize(x).unwrap()).unwrap()
}

async fn peer_count<F>(peer: &Inst, sql: &'static str, f: F) -> i64
where
    F: FnOnce(&Connection, &str) -> rusqlite::Result<i64> + Send + 'static,
{
    let (tx, rx) = tokio::sync::oneshot::channel::<i64>();
    let _ = peer
        .svc
        .db
        .reader
        .send_async(Box::new(move |conn| {
            let _ = tx.send(f(conn, sql).unwrap_or(-1));
        }))
        .await;
    rx.await.unwrap_or(-1)
}
