//! Engine `room` (local path): drives real `GraphDatabaseService` instances.
//!
//!   dv-room gen  --prop C10 --seed S --n N --out FILE
//!   dv-room run  --ops FILE --out FILE [--stats FILE] [--work DIR] [--jobs J]
mod bench;
mod gen;
mod inst;
mod world;
use dvcommon::{parse_kv, Args, Stats};
use std::io::{BufRead, BufWriter, Write};
use std::path::PathBuf;
use world::*;

async fn run_lines(lines: &[String], work: &PathBuf, stats: &mut Stats) -> Vec<String> {
    let mut out = Vec::with_capacity(lines.len());
    let mut world: Option<World> = None;
    let mut bench: Option<bench::Bench> = None;
    for line in lines {
        let (kind, kv) = parse_kv(line);
        let res: String = match kind.as_str() {
            "case" => {
                if let Some(w) = world.as_mut() {
                    w.cleanup();
                }
                world = None;
                if let Some(b) = bench.as_mut() {
                    if let Some(p) = b.peer.take() {
                        let folder = p.folder.clone();
                        drop(p);
                        let _ = std::fs::remove_dir_all(folder);
                    }
                }
                bench = None;
                let id = kv.get("id").and_then(|v| v.parse::<u64>().ok());
                let keys = kv.get("keys").and_then(|v| v.parse::<u64>().ok());
                let dmax = kv.get("dmax").and_then(|v| v.parse::<i64>().ok());
                match (id, keys, dmax) {
                    (Some(id), Some(keys), Some(dmax)) if keys <= 12 && dmax <= 64 => {
                        // uid order = creation order, or its reverse (`uids=desc`)
                        if kv.get("uids").map(|v| v == "desc").unwrap_or(false) {
                            discret::verif_hooks::uid::set_descending(1 << 40);
                        } else {
                            discret::verif_hooks::uid::set_sequential(1);
                        }
                        if kv.get("mode").map(|m| m == "fn").unwrap_or(false) {
                            let mut b = bench::Bench::new(id, keys, dmax);
                            b.peer_wanted = kv.get("peer").map(|m| m == "1").unwrap_or(false);
                            bench = Some(b);
                        } else {
                            world = Some(World::new(work.clone(), id, keys, dmax));
                        }
                        stats.inc("cases");
                        format!("case {}", id)
                    }
                    _ => {
                        world = None;
                        "bad-op".into()
                    }
                }
            }
            k if bench.is_some() => {
                let b = bench.as_mut().unwrap();
                b.outbox = None;
                let r = match k {
                    "rmut" => b.op_rmut(&kv),
                    "robs" => b.op_robs(&kv),
                    "rstored" => b.op_rstored(&kv),
                    "pobs" => b.op_pobs(&kv).await,
                    "pdump" => b.op_pdump().await,
                    "new" => b.op_new(&kv),
                    "upd" => b.op_upd(&kv),
                    "nest" => b.op_nest(&kv),
                    "null" => b.op_null(&kv),
                    "del" => b.op_del(&kv),
                    "delref" => b.op_delref(&kv),
                    "deladm" => b.op_deladm(&kv),
                    _ => "bad-op".into(),
                };
                let r = if k == "rmut" {
                    let p = b.sync_room_to_peer().await;
                    format!("{}{}", r, p)
                } else if matches!(k, "new" | "upd" | "nest" | "null" | "del" | "delref") && r != "bad-op" {
                    let p = b.feed_peer().await;
                    format!("{}{}", r, p)
                } else {
                    r
                };
                stats.inc(&format!("op.{}", k));
                let cls = r.split(' ').next().unwrap_or("").to_string();
                if cls.starts_with("err") || cls == "ok" {
                    stats.inc(&format!("res.{}.{}", k, cls));
                }
                r
            }
            k => match world.as_mut() {
                None => "bad-op".into(),
                Some(w) => {
                    let r = match k {
                        "mut" => w.op_mut(&kv).await,
                        "cmut" => w.op_cmut(&kv).await,
                        "obs" => w.op_obs(&kv).await,
                        "restart" => w.op_restart(&kv).await,
                        "sync" => w.op_sync(&kv).await,
                        _ => "bad-op".into(),
                    };
                    stats.inc(&format!("op.{}", k));
                    let cls = r.split(' ').next().unwrap_or("");
                    if k == "cmut" {
                        for v in cls.split(',') {
                            stats.inc(&format!("res.cmut.{}", v));
                        }
                    } else if cls.starts_with("err") || cls == "ok" || cls == "none" {
                        stats.inc(&format!("res.{}.{}", k, cls));
                    }
                    r
                }
            },
        };
        out.push(res);
    }
    if let Some(w) = world.as_mut() {
        w.cleanup();
    }
    if let Some(b) = bench.as_mut() {
        if let Some(p) = b.peer.take() {
            let folder = p.folder.clone();
            drop(p);
            let _ = std::fs::remove_dir_all(folder);
        }
    }
    out
}

fn read_lines(path: &str) -> Vec<String> {
    let f = std::fs::File::open(path).expect("ops file");
    std::io::BufReader::new(f).lines().map(|l| l.unwrap()).collect()
}

/// Split at case boundaries into chunks of at most `CHUNK` cases, run the chunks in child processes (`jobs` at
/// a time), concatenate. One process per chunk bounds what instance churn accumulates in a process (threads and
/// connections of dropped instances are not all released) and the cost of re-running a chunk after a crash.
const CHUNK: usize = 40;

fn spawn_chunk(exe: &std::path::Path, part: &str, work: &str, tag: &str) -> std::process::Child {
    std::process::Command::new(exe)
        .args([
            "run",
            "--ops",
            &format!("{}.ops", part),
            "--out",
            part,
            "--stats",
            &format!("{}.stats", part),
            "--work",
            &format!("{}/{}", work, tag),
            "--jobs",
            "1",
        ])
        .spawn()
        .expect("spawn child")
}

fn run_parallel(ops: &str, out: &str, stats_path: Option<&str>, work: &str, jobs: usize) {
    let lines = read_lines(ops);
    let starts: Vec<usize> = lines
        .iter()
        .enumerate()
        .filter(|(_, l)| l.starts_with("case "))
        .map(|(i, _)| i)
        .collect();
    if jobs <= 1 || starts.is_empty() {
        return run_single(ops, out, stats_path, work);
    }
    let exe = std::env::current_exe().unwrap();
    // chunk boundaries (line indices); lines before the first case go to the first chunk
    let per = CHUNK.min((starts.len() + jobs - 1) / jobs).max(1);
    let mut parts: Vec<String> = vec![];
    let mut lo = 0usize;
    let mut j = 0;
    while j * per < starts.len() {
        let hi = if (j + 1) * per < starts.len() { starts[(j + 1) * per] } else { lines.len() };
        let part = format!("{}.part{}", out, j);
        std::fs::write(format!("{}.ops", part), lines[lo..hi].join("\n") + "\n").unwrap();
        parts.push(part);
        lo = hi;
        j += 1;
    }
    let mut total = Stats::default();
    // a pool of `jobs` children
    let mut running: Vec<(usize, std::process::Child, usize)> = vec![]; // (part index, child, tries)
    let mut next = 0usize;
    while next < parts.len() || !running.is_empty() {
        while running.len() < jobs && next < parts.len() {
            let c = spawn_chunk(&exe, &parts[next], work, &format!("j{}", next));
            running.push((next, c, 0));
            next += 1;
        }
        // wait for the oldest child
        let (idx, mut child, tries) = running.remove(0);
        let st = child.wait().expect("child");
        if st.success() {
            continue;
        } else if tries < 3 {
            // the real code occasionally aborts (heap corruption at instance teardown/start-up, seen a few times
            // in some thousand restarts); the chunk is deterministic, so it is run again and counted
            total.inc("child_process_crash_retries");
            let c = spawn_chunk(&exe, &parts[idx], work, &format!("j{}r{}", idx, tries + 1));
            running.push((idx, c, tries + 1));
        } else {
            eprintln!("child failed: {}", parts[idx]);
            std::process::exit(3);
        }
    }
    let mut w = BufWriter::new(std::fs::File::create(out).unwrap());
    for part in &parts {
        for l in read_lines(part) {
            writeln!(w, "{}", l).unwrap();
        }
        if let Ok(s) = std::fs::read_to_string(format!("{}.stats", part)) {
            if let Ok(v) = serde_json::from_str::<serde_json::Value>(&s) {
                if let Some(m) = v.get("counters").and_then(|c| c.as_object()) {
                    for (k, n) in m {
                        total.add(k, n.as_u64().unwrap_or(0));
                    }
                }
            }
        }
        let _ = std::fs::remove_file(part);
        let _ = std::fs::remove_file(format!("{}.ops", part));
        let _ = std::fs::remove_file(format!("{}.stats", part));
    }
    w.flush().unwrap();
    let _ = std::fs::remove_dir_all(work);
    if let Some(p) = stats_path {
        total.write(p);
    }
}

fn run_single(ops: &str, out: &str, stats_path: Option<&str>, work: &str) {
    // uids in creation order: the order SQLite returns equal-date rows in becomes deterministic
    discret::verif_hooks::uid::set_sequential(1);
    let rt = tokio::runtime::Builder::new_multi_thread()
        .worker_threads(2)
        .enable_all()
        .build()
        .unwrap();
    let lines = read_lines(ops);
    let mut stats = Stats::default();
    let workdir = PathBuf::from(work);
    std::fs::create_dir_all(&workdir).unwrap();
    let res = rt.block_on(run_lines(&lines, &workdir, &mut stats));
    let mut w = BufWriter::new(std::fs::File::create(out).unwrap());
    for l in res {
        writeln!(w, "{}", l).unwrap();
    }
    w.flush().unwrap();
    if let Some(p) = stats_path {
        stats.write(p);
    }
    let _ = std::fs::remove_dir(&workdir);
}

fn main() {
    let a = Args::parse();
    match a.cmd.as_str() {
        "run" => {
            let out = a.str_or("out", "impl.out");
            let default_work = format!("{}.work", out);
            run_parallel(
                &a.str_or("ops", "cases.ops"),
                &out,
                a.get("stats"),
                &a.str_or("work", &default_work),
                a.usize_or("jobs", 4),
            );
        }
        "gen" => {
            let prop = a.str_or("prop", "C10");
            let out = a.str_or("out", "cases.ops");
            match prop.as_str() {
                "C10" => gen::gen_c10(a.u64_or("seed", 1), a.usize_or("n", 100), &out, a.get("long").is_some()),
                "C01" => gen::gen_c01(a.u64_or("seed", 1), a.usize_or("n", 100), &out, a.get("long").is_some()),
                "C12" => gen::gen_c12(a.u64_or("seed", 1), a.usize_or("n", 100), &out, a.get("long").is_some()),
                _ => {
                    eprintln!("unknown --prop {}", prop);
                    std::process::exit(2);
                }
            }
        }
        _ => {
            eprintln!("usage: dv-room gen|run …");
            std::process::exit(2);
        }
    }
}
