//! Op-file generators (every random choice from the one seeded PRNG).
use dvcommon::Gen;
use std::collections::{BTreeMap, BTreeSet};
use std::io::{BufWriter, Write};

pub fn gen(prop: &str, seed: u64, n: usize, len: usize, out: &str) {
    match prop {
        "C18" => gen_ev(seed, n, len, out),
        "C17" => crate::fts::gen_fts(seed, n, len, out),
        _ => {
            eprintln!("unknown --prop {}", prop);
            std::process::exit(2);
        }
    }
}

/// C18: sequences over 1–2 sites, 1–2 rooms, 2 entities, several days, biased towards what the proofs
/// needed as hypotheses: requests ordered after acknowledgements, changes that
/// mark nothing (reference deletions of absent references), re-ingested tombstones, room moves,
/// no-op updates, concurrent mixes, flushes that show what was left marked.
fn gen_ev(seed: u64, n: usize, len: usize, out: &str) {
    let mut g = Gen::new(seed);
    let mut w = BufWriter::new(std::fs::File::create(out).unwrap());
    for id in 0..n {
        let sites = if g.chance(2, 5) { 2 } else { 1 };
        let subs = 1 + g.below(3);
        writeln!(w, "case id={} eng=ev sites={} subs={}", id, sites, subs).unwrap();
        // approximate bookkeeping, only used to pick mostly applicable operations
        let mut rows: Vec<BTreeMap<u64, (u64, u64)>> = vec![BTreeMap::new(); sites]; // n -> (room, entity)
        let mut has_room: Vec<BTreeSet<u64>> = vec![BTreeSet::new(); sites];
        let mut owner: BTreeMap<u64, usize> = BTreeMap::new();
        let mut next_row = 1u64;
        let mut next_room = 1u64;
        let s0 = g.below(sites);
        writeln!(w, "room s={} r={}", s0, next_room).unwrap();
        has_room[s0].insert(next_room);
        owner.insert(next_room, s0);
        next_room += 1;
        if sites == 2 && g.chance(3, 4) {
            writeln!(w, "pull s={} from={} r=1", 1 - s0, s0).unwrap();
            has_room[1 - s0].insert(1);
        }
        let l = 6 + g.below(len);
        for _ in 0..l {
            let s = g.below(sites);
            let my_rooms: Vec<u64> = has_room[s].iter().copied().collect();
            let my_rows: Vec<u64> = rows[s].keys().copied().collect();
            let persons: Vec<u64> = rows[s].iter().filter(|(_, v)| v.1 == 0).map(|(k, _)| *k).collect();
            let kind = g.weighted(&[8, 6, 3, 1, 3, 1, 3, 3, 3, 1, if sites == 2 { 5 } else { 0 }, 3, 2, 2, 3]);
            match kind {
                0 => {
                    if let Some(r) = pick(&mut g, &my_rooms) {
                        let e = if g.chance(2, 3) { 0 } else { 1 };
                        writeln!(w, "new s={} n={} r={} e={}", s, next_row, r, e).unwrap();
                        rows[s].insert(next_row, (r, e));
                        next_row += 1;
                    }
                }
                1 => {
                    if let Some(n) = pick(&mut g, &my_rows) {
                        writeln!(w, "upd s={} n={}", s, n).unwrap();
                    }
                }
                2 => {
                    if let Some(n) = pick(&mut g, &my_rows) {
                        writeln!(w, "del s={} n={}", s, n).unwrap();
                        rows[s].remove(&n);
                    }
                }
                3 => {
                    if let Some(n) = pick(&mut g, &my_rows) {
                        writeln!(w, "nop s={} n={}", s, n).unwrap();
                    }
                }
                4 => {
                    if let Some((a, b)) = pick2(&mut g, &persons) {
                        writeln!(w, "ref s={} n={} m={}", s, a, b).unwrap();
                    }
                }
                5 => {
                    if let Some(a) = pick(&mut g, &persons) {
                        writeln!(w, "unref s={} n={}", s, a).unwrap();
                    }
                }
                6 => {
                    if let Some((a, b)) = pick2(&mut g, &persons) {
                        writeln!(w, "refdel s={} n={} m={}", s, a, b).unwrap();
                    }
                }
                7 => writeln!(w, "day add={}", 1 + g.below(3)).unwrap(),
                8 => {
                    if !my_rooms.is_empty() {
                        let k = 1 + g.below(4);
                        // `early` (reader held, stream closed before the acknowledgements) is no longer generated: since
                        // /repo e303771 the request waits for the acknowledgements and the harness would wait 3 s for an
                        // event that cannot come; the corpus keeps it as a regression replay
                        // a third of the streams are fire-and-forget: the result receiver is dropped before or in
                        // the middle of the stream
                        // the middle of the stream, with at least two mutations sent afterwards
                        let mode = if k >= 2 && g.chance(1, 3) {
                            format!("dropped keep={}", g.below(k - 1))
                        } else {
                            "acked".to_string()
                        };
                        let mut items = vec![];
                        for _ in 0..k {
                            let r = *g.pick(&my_rooms);
                            let e = g.below(2) as u64;
                            items.push(format!("{}:{}:{}", next_row, r, e));
                            rows[s].insert(next_row, (r, e));
                            next_row += 1;
                        }
                        writeln!(w, "stream s={} mode={} rows={}", s, mode, items.join(",")).unwrap();
                    }
                }
                9 => {
                    let mine: Vec<u64> = owner.iter().filter(|(_, o)| **o == s).map(|(r, _)| *r).collect();
                    if let Some(r) = pick(&mut g, &mine) {
                        writeln!(w, "roomadd s={} r={}", s, r).unwrap();
                    }
                }
                10 => {
                    let t = 1 - s;
                    let theirs: Vec<u64> = has_room[t].iter().copied().collect();
                    if let Some(r) = pick(&mut g, &theirs) {
                        writeln!(w, "pull s={} from={} r={}", s, t, r).unwrap();
                        has_room[s].insert(r);
                        let add: Vec<(u64, (u64, u64))> =
                            rows[t].iter().filter(|(_, v)| v.0 == r).map(|(k, v)| (*k, *v)).collect();
                        for (k, v) in add {
                            rows[s].insert(k, v);
                        }
                    }
                }
                11 => {
                    // concurrent mix of local operations on distinct rows
                    let k = 2 + g.below(4);
                    let mut used = BTreeSet::new();
                    let mut items = vec![];
                    // a concurrent ingestion from the other site
                    let with_pull = sites == 2 && g.chance(1, 2);
                    let mut pull = String::new();
                    if with_pull {
                        let t = 1 - s;
                        let theirs: Vec<u64> = has_room[t].iter().copied().collect();
                        if let Some(r) = pick(&mut g, &theirs) {
                            pull = format!(" pull={}:{}", t, r);
                        }
                    }
                    for _ in 0..k {
                        match g.weighted(&[4, if pull.is_empty() { 3 } else { 0 }, if pull.is_empty() { 2 } else { 0 }, 1, 2]) {
                            0 => {
                                if let Some(r) = pick(&mut g, &my_rooms) {
                                    let e = g.below(2) as u64;
                                    items.push(format!("new,n:{},r:{},e:{}", next_row, r, e));
                                    rows[s].insert(next_row, (r, e));
                                    next_row += 1;
                                }
                            }
                            1 => {
                                if let Some(n) = pick(&mut g, &my_rows) {
                                    if used.insert(n) {
                                        items.push(format!("upd,n:{}", n));
                                    }
                                }
                            }
                            2 => {
                                if let Some(n) = pick(&mut g, &my_rows) {
                                    if used.insert(n) {
                                        items.push(format!("del,n:{}", n));
                                        rows[s].remove(&n);
                                    }
                                }
                            }
                            3 => {
                                let mine: Vec<u64> =
                                    owner.iter().filter(|(_, o)| **o == s).map(|(r, _)| *r).collect();
                                if let Some(r) = pick(&mut g, &mine) {
                                    items.push(format!("roomadd,r:{}", r));
                                }
                            }
                            _ => {
                                if !my_rooms.is_empty() {
                                    let m = 1 + g.below(3);
                                    let mut rs = vec![];
                                    for _ in 0..m {
                                        let r = *g.pick(&my_rooms);
                                        let e = g.below(2) as u64;
                                        rs.push(format!("{}.{}.{}", next_row, r, e));
                                        rows[s].insert(next_row, (r, e));
                                        next_row += 1;
                                    }
                                    items.push(format!("stream,rows:{}", rs.join("+")));
                                }
                            }
                        }
                    }
                    if !items.is_empty() {
                        writeln!(w, "mix s={} ops={}{}", s, items.join(";"), pull).unwrap();
                        if !pull.is_empty() {
                            let t = 1 - s;
                            let r: u64 = pull.rsplit(':').next().unwrap().parse().unwrap();
                            has_room[s].insert(r);
                            let add: Vec<(u64, (u64, u64))> =
                                rows[t].iter().filter(|(_, v)| v.0 == r).map(|(k, v)| (*k, *v)).collect();
                            for (k, v) in add {
                                rows[s].insert(k, v);
                            }
                        }
                    }
                }
                12 => {
                    // two to four room mutations of one room in flight at once
                    let mine: Vec<u64> = owner.iter().filter(|(_, o)| **o == s).map(|(r, _)| *r).collect();
                    if let (Some(r), true) = (pick(&mut g, &mine), g.chance(2, 3)) {
                        let k = 2 + g.below(3);
                        let items: Vec<String> = (0..k).map(|_| format!("roomadd,r:{}", r)).collect();
                        writeln!(w, "mix s={} ops={}", s, items.join(";")).unwrap();
                    } else {
                        writeln!(w, "flush s={}", s).unwrap();
                    }
                }
                13 => {
                    if next_room <= 2 {
                        writeln!(w, "room s={} r={}", s, next_room).unwrap();
                        has_room[s].insert(next_room);
                        owner.insert(next_room, s);
                        next_room += 1;
                    }
                }
                _ => {
                    // move a row to another room
                    if let (Some(n), Some(r)) = (pick(&mut g, &my_rows), pick(&mut g, &my_rooms)) {
                        writeln!(w, "upd s={} n={} r={}", s, n, r).unwrap();
                        if let Some(v) = rows[s].get_mut(&n) {
                            v.0 = r;
                        }
                    }
                }
            }
        }
        for s in 0..sites {
            writeln!(w, "flush s={}", s).unwrap();
        }
    }
    w.flush().unwrap();
}

fn pick2(g: &mut Gen, v: &[u64]) -> Option<(u64, u64)> {
    if v.len() < 2 {
        return None;
    }
    let a = g.below(v.len());
    let mut b = g.below(v.len() - 1);
    if b >= a {
        b += 1;
    }
    Some((v[a], v[b]))
}

fn pick(g: &mut Gen, v: &[u64]) -> Option<u64> {
    if v.is_empty() {
        None
    } else {
        Some(*g.pick(v))
    }
}
