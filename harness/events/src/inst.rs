//! One running discret database instance (the real `GraphDatabaseService`) with eager event
//! subscribers, plus helpers shared by the C18 (`ev`) and C17 (`fts`) op interpreters.
use discret::verif_hooks::configuration::Configuration;
use discret::verif_hooks::database::authorisation_service::AuthorisationMessage;
use discret::verif_hooks::database::graph_database::GraphDatabaseService;
use discret::verif_hooks::database::query_language::parameter::{Parameters, ParametersAdd};
use discret::verif_hooks::database::room::Room;
use discret::verif_hooks::database::Error as DbError;
use discret::verif_hooks::event_service::{Event, EventService, EventServiceMessage};
use discret::verif_hooks::security::{base64_encode, Uid};
use discret::verif_hooks::database::edge::{Edge, EdgeDeletionEntry};
use discret::verif_hooks::database::node::{Node, NodeDeletionEntry, NodeIdentifier};
use discret::verif_hooks::database::room_node::RoomNode;
use std::collections::{HashMap, HashSet};
use std::path::PathBuf;
use std::sync::{Arc, Mutex};
use std::time::Duration;
use tokio::sync::{broadcast, oneshot, Notify};

pub const APP: &str = "dv events";

/// logical clock: day 0 starts here (2023-11-15 00:00:00 UTC), one op = +1000 ms
pub const BASE_DAY: i64 = 1_700_006_400_000;
pub const DAY_MS: i64 = 86_400_000;

pub fn secret_of(ident: u64, salt: u64) -> [u8; 32] {
    let mut s = [0u8; 32];
    s[..8].copy_from_slice(&ident.to_be_bytes());
    s[8..16].copy_from_slice(&salt.to_be_bytes());
    s[31] = 0xE7;
    s
}

pub fn class(e: &DbError) -> String {
    match e {
        DbError::AuthorisationRejected(_, _) => "rejected".into(),
        DbError::UnknownRoom(_) => "unknown-room".into(),
        DbError::UnknownEntity(_, _) => "unknown-entity".into(),
        DbError::Parsing(_) => "parse".into(),
        DbError::Database(_) => "sql".into(),
        DbError::DatabaseWrite(_) => "sql-write".into(),
        other => {
            let d = format!("{:?}", other);
            let name: String = d.chars().take_while(|c| c.is_ascii_alphanumeric()).collect();
            format!("other-{}", name)
        }
    }
}

/// what a subscriber received, in order
#[derive(Clone, Debug)]
pub enum RawEv {
    /// (room base64, entity name, day timestamp), as carried by the event
    Data(Vec<(String, String, i64)>),
    Room(Box<Room>),
    Barrier,
    /// not an event: inserted by the harness where the changes of a stream reach the writer
    Mark,
    Lagged(u64),
    Other(&'static str),
}

pub struct Sub {
    pub buf: Arc<Mutex<Vec<RawEv>>>,
    pub notify: Arc<Notify>,
}

fn spawn_sub(mut rx: broadcast::Receiver<Event>) -> Sub {
    let buf = Arc::new(Mutex::new(Vec::new()));
    let notify = Arc::new(Notify::new());
    let (b, n) = (buf.clone(), notify.clone());
    tokio::spawn(async move {
        loop {
            let ev = match rx.recv().await {
                Ok(Event::DataChanged(d)) => {
                    let mut v = vec![];
                    for (room, ents) in &d.rooms {
                        for (ent, days) in ents {
                            for day in days {
                                v.push((room.clone(), ent.clone(), *day));
                            }
                        }
                    }
                    RawEv::Data(v)
                }
                Ok(Event::RoomModified(r)) => RawEv::Room(Box::new((*r).clone())),
                Ok(Event::PendingPeer()) => RawEv::Barrier,
                Ok(Event::PeerConnected(..)) => RawEv::Other("peer-connected"),
                Ok(Event::PeerDisconnected(..)) => RawEv::Other("peer-disconnected"),
                Ok(Event::RoomSynchronized(_)) => RawEv::Other("room-synchronized"),
                Ok(Event::PendingHardware()) => RawEv::Other("pending-hardware"),
                Err(broadcast::error::RecvError::Lagged(k)) => RawEv::Lagged(k),
                Err(broadcast::error::RecvError::Closed) => break,
            };
            b.lock().unwrap().push(ev);
            n.notify_waiters();
        }
    });
    Sub { buf, notify }
}

pub struct Inst {
    pub svc: GraphDatabaseService,
    pub events: EventService,
    pub key: Vec<u8>,
    pub folder: PathBuf,
    pub subs: Vec<Sub>,
}

pub fn config() -> Configuration {
    let mut c = Configuration::default();
    c.parallelism = 1;
    c
}

impl Inst {
    pub async fn start(
        folder: PathBuf,
        secret: [u8; 32],
        data_model: &str,
        nsubs: usize,
    ) -> Result<Inst, DbError> {
        std::fs::create_dir_all(&folder)?;
        let events = EventService::new();
        // subscribers exist before the instance does: nothing can be missed
        let mut subs = vec![];
        for _ in 0..nsubs.max(1) {
            subs.push(spawn_sub(events.subcribe().await));
        }
        let (svc, key, _private_room) = GraphDatabaseService::start(
            APP,
            data_model,
            &secret,
            &[7u8; 32],
            folder.clone(),
            &config(),
            events.clone(),
        )
        .await?;
        Ok(Inst {
            svc,
            events,
            key,
            folder,
            subs,
        })
    }

    /// the in-memory definition of a room held by the authorisation service (verification hook)
    pub async fn room(&self, id: Uid) -> Option<Room> {
        let (reply, receive) = oneshot::channel::<Option<Room>>();
        let _ = self
            .svc
            .auth
            .send(AuthorisationMessage::VerifGetRoom(id, reply))
            .await;
        receive.await.ok().flatten()
    }

    fn count_data(&self, sub: usize, from: usize) -> usize {
        let b = self.subs[sub].buf.lock().unwrap();
        b[from.min(b.len())..]
            .iter()
            .filter(|e| matches!(e, RawEv::Data(_)))
            .count()
    }

    fn has_barrier(&self, sub: usize, from: usize) -> bool {
        let b = self.subs[sub].buf.lock().unwrap();
        b[from.min(b.len())..]
            .iter()
            .any(|e| matches!(e, RawEv::Barrier))
    }

    /// Waits until subscriber 0 has received `n_data` data-changed events (one per recompute
    /// request made by the operation), then sends a barrier event through the event service's
    /// own queue and waits for every subscriber to see it. Returns, per subscriber, everything
    /// received since the previous call (barrier excluded); `Err` on a timeout.
    pub async fn collect(&mut self, n_data: usize, timeout_ms: u64) -> Result<Vec<Vec<RawEv>>, String> {
        let deadline = tokio::time::Instant::now() + Duration::from_millis(timeout_ms);
        let mut timed_out = false;
        loop {
            let notified = self.subs[0].notify.notified();
            if self.count_data(0, 0) >= n_data {
                break;
            }
            if tokio::time::timeout_at(deadline, notified).await.is_err() {
                timed_out = true;
                break;
            }
        }
        self.events.notify(EventServiceMessage::PendingPeer()).await;
        let deadline = tokio::time::Instant::now() + Duration::from_millis(10_000);
        for i in 0..self.subs.len() {
            loop {
                let notified = self.subs[i].notify.notified();
                if self.has_barrier(i, 0) {
                    break;
                }
                if tokio::time::timeout_at(deadline, notified).await.is_err() {
                    return Err("barrier-timeout".into());
                }
            }
        }
        let mut res = vec![];
        for s in &self.subs {
            let mut b = s.buf.lock().unwrap();
            let pos = b.iter().position(|e| matches!(e, RawEv::Barrier)).unwrap();
            let mut got: Vec<RawEv> = b.drain(..=pos).collect();
            got.pop();
            res.push(got);
        }
        if timed_out {
            return Err(format!("timeout:{}", res[0].iter().filter(|e| matches!(e, RawEv::Data(_))).count()));
        }
        Ok(res)
    }

    /// waits (at most `timeout_ms`) until subscriber 0 holds `n_data` data-changed events; consumes nothing
    pub async fn wait_data(&self, n_data: usize, timeout_ms: u64) -> bool {
        let deadline = tokio::time::Instant::now() + Duration::from_millis(timeout_ms);
        loop {
            let notified = self.subs[0].notify.notified();
            if self.count_data(0, 0) >= n_data {
                return true;
            }
            if tokio::time::timeout_at(deadline, notified).await.is_err() {
                return false;
            }
        }
    }

    /// run a closure on the instance's reader connection
    pub async fn read<T: Send + 'static>(
        &self,
        f: impl FnOnce(&rusqlite::Connection) -> T + Send + 'static,
    ) -> T {
        let (reply, receive) = oneshot::channel::<T>();
        self.svc
            .db
            .reader
            .send_async(Box::new(move |conn| {
                let _ = reply.send(f(conn));
            }))
            .await
            .expect("reader");
        receive.await.expect("reader reply")
    }
}

pub fn params(kv: &[(&str, String)]) -> Parameters {
    let mut p = Parameters::default();
    for (k, v) in kv {
        p.add(k, v.clone()).unwrap();
    }
    p
}

pub fn b64(u: &Uid) -> String {
    base64_encode(u)
}

/// canonical text of a room definition (hash maps sorted)
pub fn room_canon(r: &Room) -> String {
    let users = |m: &std::collections::HashMap<Vec<u8>, Vec<discret::verif_hooks::database::room::User>>| {
        let mut v: Vec<String> = m
            .iter()
            .map(|(k, l)| {
                format!(
                    "{}:{}",
                    base64_encode(k),
                    l.iter()
                        .map(|u| format!("{}{}", u.date, if u.enabled { "+" } else { "-" }))
                        .collect::<Vec<_>>()
                        .join(",")
                )
            })
            .collect();
        v.sort();
        v.join(";")
    };
    let mut auths: Vec<String> = r
        .authorisations
        .iter()
        .map(|(id, a)| {
            let mut rights: Vec<String> = a
                .rights
                .iter()
                .map(|(e, l)| format!("{}={:?}", e, l))
                .collect();
            rights.sort();
            format!(
                "{}@{}[u {}][ua {}][r {}]",
                base64_encode(id),
                a.mdate,
                users(&a.users),
                users(&a.user_admins),
                rights.join(";")
            )
        })
        .collect();
    auths.sort();
    format!("{}@{}[a {}]{}", base64_encode(&r.id), r.mdate, users(&r.admins), auths.join(""))
}

/// entry counts of a room definition: admins, groups, users, user admins, rights
pub fn room_digest(r: &Room) -> String {
    let n = |m: &std::collections::HashMap<Vec<u8>, Vec<discret::verif_hooks::database::room::User>>| {
        m.values().map(|l| l.len()).sum::<usize>()
    };
    let a = n(&r.admins);
    let g = r.authorisations.len();
    let u: usize = r.authorisations.values().map(|x| n(&x.users)).sum();
    let ua: usize = r.authorisations.values().map(|x| n(&x.user_admins)).sum();
    let rg: usize = r
        .authorisations
        .values()
        .map(|x| x.rights.values().map(|l| l.len()).sum::<usize>())
        .sum();
    format!("a{}g{}u{}v{}r{}", a, g, u, ua, rg)
}

/// `dst` ingests room `room` of `src`: the call sequence of `synchronise_room` / `synchronise_day`
/// (peer_inbound_service.rs) for every (entity, day) of the remote log, over direct calls.
/// Returns (status, number of recompute requests made, room definition imported).
pub async fn pull_room(src: &GraphDatabaseService, dst: &GraphDatabaseService, room: Uid) -> (String, usize, bool) {
    let remote_def = match src.get_room_definition(room).await {
        Ok(Some(d)) => d,
        Ok(None) => return ("err:room-unknown".into(), 0, false),
        Err(e) => return (format!("err:{}", class(&e)), 0, false),
    };
    let local_def = dst.get_room_definition(room).await.ok().flatten();
    let load = match &local_def {
        Some(l) => l.room_def_date < remote_def.room_def_date,
        None => true,
    };
    if load {
        match src.get_room_node(room).await {
            Ok(Some(n)) => {
                let ser = bincode::serialize(&n).unwrap();
                let n = bincode::deserialize::<RoomNode>(&ser).unwrap();
                if let Err(e) = dst.add_room_node(n).await {
                    return (format!("err:room-{}", class(&e)), 0, false);
                }
            }
            _ => return ("err:room-node".into(), 0, false),
        }
    }
    let mut log = vec![];
    let mut rx = src.get_room_log(room).await;
    while let Some(l) = rx.recv().await {
        match l {
            Ok(mut l) => log.append(&mut l),
            Err(e) => return (format!("err:{}", class(&e)), 0, false),
        }
    }
    let mut modified = false;
    for entry in log {
        let (entity, date) = (entry.entity.clone(), entry.date);
        let mut rx = src.get_room_edge_deletion_log(room, entity.clone(), date).await;
        while let Some(v) = rx.recv().await {
            let v: Vec<EdgeDeletionEntry> = match v {
                Ok(v) => v,
                Err(e) => return (format!("err:{}", class(&e)), modified as usize, false),
            };
            if !v.is_empty() {
                modified = true;
                let v: Vec<EdgeDeletionEntry> = bincode::deserialize(&bincode::serialize(&v).unwrap()).unwrap();
                if let Err(e) = dst.delete_edges(v).await {
                    return (format!("err:{}", class(&e)), 0, false);
                }
            }
        }
        let mut rx = src.get_room_node_deletion_log(room, entity.clone(), date).await;
        while let Some(v) = rx.recv().await {
            let v: Vec<NodeDeletionEntry> = match v {
                Ok(v) => v,
                Err(e) => return (format!("err:{}", class(&e)), modified as usize, false),
            };
            if !v.is_empty() {
                modified = true;
                let v: Vec<NodeDeletionEntry> = bincode::deserialize(&bincode::serialize(&v).unwrap()).unwrap();
                if let Err(e) = dst.delete_nodes(v).await {
                    return (format!("err:{}", class(&e)), 0, false);
                }
            }
        }
        let mut remote_nodes: HashSet<NodeIdentifier> = HashSet::new();
        let mut rx = src.get_room_daily_nodes(room, entity.clone(), date).await;
        while let Some(v) = rx.recv().await {
            match v {
                Ok(v) => {
                    for n in v {
                        remote_nodes.insert(n);
                    }
                }
                Err(e) => return (format!("err:{}", class(&e)), modified as usize, false),
            }
        }
        // as `synchronise_day` does since /repo ffeda5d: ids that carry a deletion record of the room are not requested
        let filtered = match dst.filter_existing_room_node(room, remote_nodes).await {
            Ok(f) => f,
            Err(e) => return (format!("err:{}", class(&e)), modified as usize, false),
        };
        if filtered.is_empty() {
            continue;
        }
        modified = true;
        let node_list: Vec<Uid> = filtered.iter().map(|n| n.id).collect();
        let edge_list: Vec<(Uid, i64)> = filtered.iter().map(|n| (n.id, n.old_mdate)).collect();
        let mut node_map: HashMap<Uid, _> = filtered.into_iter().map(|n| (n.id, n)).collect();
        let mut rx = src.get_nodes(room, node_list).await;
        while let Some(v) = rx.recv().await {
            let nodes: Vec<Node> = match v {
                Ok(v) => bincode::deserialize(&bincode::serialize(&v).unwrap()).unwrap(),
                Err(e) => return (format!("err:{}", class(&e)), 1, false),
            };
            let mut to_insert = vec![];
            // the peer answers in an arbitrary order (`id in (…)`); the harness fixes one: creation order
            let mut nodes = nodes;
            nodes.sort_by(|a, b| (a.cdate, a.id).cmp(&(b.cdate, b.id)));
            for mut node in nodes {
                if node.verify().is_err() {
                    continue;
                }
                if let Some(mut nti) = node_map.remove(&node.id) {
                    node._local_id = nti.old_local_id;
                    nti.node = Some(node);
                    to_insert.push(nti);
                }
            }
            if let Err(e) = dst.add_nodes(room, to_insert).await {
                return (format!("err:{}", class(&e)), 1, false);
            }
        }
        let mut rx = src.get_edges(room, edge_list).await;
        while let Some(v) = rx.recv().await {
            let edges: Vec<Edge> = match v {
                Ok(v) => bincode::deserialize(&bincode::serialize(&v).unwrap()).unwrap(),
                Err(e) => return (format!("err:{}", class(&e)), 1, false),
            };
            if let Err(e) = dst.add_edges(room, edges).await {
                return (format!("err:{}", class(&e)), 1, false);
            }
        }
    }
    if modified {
        dst.compute_daily_log().await;
    }
    ("ok".into(), modified as usize, load)
}
