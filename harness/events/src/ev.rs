//! C18 — op interpreter driving the real `GraphDatabaseService` of 1–2 sites with eager subscribers.
//!
//! Op lines (shared with the Lean driver `dmodel_events`, see `lean/Driver/Events.lean`):
//!   case id=<n> eng=ev sites=<1|2> subs=<1..3>
//!   day add=<k>
//!   room s=<site> r=<room>                  create room r at site s (every site key admin + member, all rights)
//!   roomadd s=<site> r=<room>               room-definition change: one more (dummy) user entry
//!   new s= n=<row> r=<room> e=<0|1>         create row n (entity 0 = Person, 1 = Pet)
//!   upd s= n= [r=<room>]                    update the text (and move the row to room r)
//!   nop s= n=                               mutation naming only the id
//!   ref s= n= m=                            add the reference parents n -> m
//!   unref s= n=                             parents:null
//!   del s= n=                               delete row n
//!   refdel s= n= m=                         delete the reference parents n -> m
//!   stream s= mode=<acked|early|dropped> [keep=<k>] rows=<n>:<r>:<e>,...   (`dropped`: the result receiver is dropped
//!                                           after k acknowledgements and the caller keeps streaming)
//!   stream s= mode=<acked|early> rows=<n>:<r>:<e>,...   mutation stream creating rows; `acked`: closed after the
//!                                           acknowledgements; `early`: the reader thread is held so that the close is processed first
//!                                           (`W` in the observation = the point where the mutations reach the writer)
//!   pull s= from=<site> r=<room>            s ingests room r of `from` (the synchronise_day call sequence)
//!   mix s= ops=<op>;<op>;... [pull=<site>:<room>]   local ops launched concurrently, written
//!                                           `new,n:5,r:1,e:0;upd,n:2;del,n:3;roomadd,r:1;stream,rows:7.1.0+8.1.1`, optionally with a concurrent ingestion
//!   flush s=                                recompute requested by the harness (shows what was left marked)
//!
//! Observation: `<status> ev <events> | g <cells>`; events in order of receipt:
//!   `D[r.e.d,...]` data-changed (cells sorted), `R<r>:<digest><=|!>` room-modified (`=`: equal to the installed room);
//!   cells gained by the stored content (new row versions, tombstones) since the previous observation.
use crate::inst::*;
use discret::verif_hooks::clock;
use discret::verif_hooks::security::{derive_key, Ed25519SigningKey, SigningKey, Uid};
use dvcommon::{parse_kv, Stats};
use std::collections::{BTreeMap, BTreeSet, HashMap, HashSet};
use std::path::PathBuf;

pub const DATA_MODEL: &str = "{
    Person{ name:String, parents:[Person] }
    Pet{ name:String }
}";
pub const ENT_NAMES: [&str; 2] = ["Person", "Pet"];

type Kv = HashMap<String, String>;
type Cell = (u64, u64, i64);

fn get_u(kv: &Kv, k: &str) -> Option<u64> {
    kv.get(k).and_then(|v| v.parse::<u64>().ok())
}

pub struct Site {
    pub inst: Inst,
    /// rows known to exist here: row number -> (uid, entity index)
    pub rows: BTreeMap<u64, (Uid, u64)>,
    /// previous content snapshot: (room uid, entity short, day, signature)
    pub snap: HashSet<(Vec<u8>, String, i64, Vec<u8>)>,
}

pub struct World {
    pub base: PathBuf,
    pub case_id: u64,
    pub sites: Vec<Site>,
    pub rooms: BTreeMap<u64, Uid>,
    pub room_of_uid: HashMap<String, u64>,
    pub groups: BTreeMap<u64, Uid>,
    pub owner: BTreeMap<u64, usize>,
    pub row_uid: BTreeMap<u64, (Uid, u64)>,
    pub row_of_uid: HashMap<Uid, u64>,
    pub short_of: HashMap<String, u64>,
    pub day: i64,
    pub tick: i64,
    pub dummy: u64,
    pub allow_free: bool,
    /// an expected event did not arrive: the remaining operations of the case are not run
    pub dead: bool,
    /// property-level findings of the harness-side oracle (written to `<out>.oracle`)
    pub oracle: Vec<(String, String)>,
    /// per room: the user keys of every acknowledged room mutation (creation included)
    pub room_users: BTreeMap<u64, BTreeSet<Vec<u8>>>,
    /// the operation being executed (for the oracle's messages and signatures)
    pub cur_op: String,
}

fn site_key(case: u64, s: u64) -> Vec<u8> {
    let signature_key = derive_key(&format!("{} SIGNING_KEY", APP), &secret_of(s + 1, case));
    Ed25519SigningKey::create_from(&signature_key).export_verifying_key()
}

impl World {
    pub async fn new(base: PathBuf, case_id: u64, nsites: u64, nsubs: usize) -> Result<World, String> {
        let mut w = World {
            base,
            case_id,
            sites: vec![],
            rooms: BTreeMap::new(),
            room_of_uid: HashMap::new(),
            groups: BTreeMap::new(),
            owner: BTreeMap::new(),
            row_uid: BTreeMap::new(),
            row_of_uid: HashMap::new(),
            short_of: HashMap::new(),
            day: 0,
            tick: 0,
            dummy: 0,
            allow_free: false,
            dead: false,
            oracle: vec![],
            room_users: BTreeMap::new(),
            cur_op: String::new(),
        };
        w.set_clock();
        for s in 0..nsites {
            let folder = w.base.join(format!("c{}s{}", case_id, s));
            let _ = std::fs::remove_dir_all(&folder);
            let mut inst = Inst::start(folder, secret_of(s + 1, case_id), DATA_MODEL, nsubs)
                .await
                .map_err(|e| format!("start: {}", e))?;
            assert_eq!(inst.key, site_key(case_id, s));
            // the start-up recompute request produces one (empty) data-changed event
            inst.collect(1, 10_000).await?;
            w.sites.push(Site {
                inst,
                rows: BTreeMap::new(),
                snap: HashSet::new(),
            });
        }
        // short names of the entities, read from the model the instance holds
        let dm = w.sites[0].inst.svc.datamodel().await.map_err(|e| e.to_string())?;
        let v: serde_json::Value = serde_json::from_str(&dm).map_err(|e| e.to_string())?;
        fn walk(v: &serde_json::Value, out: &mut HashMap<String, u64>) {
            if let Some(o) = v.as_object() {
                if let (Some(n), Some(s)) = (o.get("name").and_then(|x| x.as_str()), o.get("short_name").and_then(|x| x.as_str())) {
                    if let Some(i) = ENT_NAMES.iter().position(|e| *e == n) {
                        out.insert(s.to_string(), i as u64);
                    }
                }
                for (_, x) in o {
                    walk(x, out);
                }
            } else if let Some(a) = v.as_array() {
                for x in a {
                    walk(x, out);
                }
            }
        }
        walk(&v, &mut w.short_of);
        for s in 0..w.sites.len() {
            w.sites[s].snap = w.snapshot(s).await;
        }
        if w.short_of.len() != ENT_NAMES.len() {
            return Err(format!("entity short names not found in the data model: {:?}", w.short_of));
        }
        Ok(w)
    }

    pub fn cleanup(&mut self) {
        let folders: Vec<PathBuf> = self.sites.iter().map(|s| s.inst.folder.clone()).collect();
        self.sites.clear();
        for f in folders {
            let _ = std::fs::remove_dir_all(f);
        }
    }

    fn set_clock(&self) {
        clock::set(BASE_DAY + self.day * DAY_MS + 3_600_000 + self.tick * 1000);
    }
    fn step_clock(&mut self) {
        self.tick += 1;
        self.set_clock();
    }

    fn cell_of(&self, room_b64_or_uid: &str, ent: Option<u64>, date: i64) -> String {
        let r = match self.room_of_uid.get(room_b64_or_uid) {
            Some(r) => r.to_string(),
            None => "x".to_string(),
        };
        let e = match ent {
            Some(e) => e.to_string(),
            None => "x".to_string(),
        };
        let d = (date - BASE_DAY).div_euclid(DAY_MS);
        format!("{}.{}.{}", r, e, d)
    }

    fn fmt_events(&self, evs: &[RawEv], installed: &HashMap<u64, String>) -> String {
        let mut out = vec![];
        for e in evs {
            match e {
                RawEv::Data(cells) => {
                    let mut v: Vec<(u64, u64, i64, String)> = cells
                        .iter()
                        .map(|(r, en, d)| {
                            let ei = ENT_NAMES.iter().position(|x| x == en).map(|i| i as u64);
                            let s = self.cell_of(r, ei, *d);
                            let rr = self.room_of_uid.get(r).copied().unwrap_or(u64::MAX);
                            (rr, ei.unwrap_or(u64::MAX), *d, s)
                        })
                        .collect();
                    v.sort();
                    out.push(format!("D[{}]", v.iter().map(|x| x.3.clone()).collect::<Vec<_>>().join(",")));
                }
                RawEv::Room(room) => {
                    let id = b64(&room.id);
                    let rn = self.room_of_uid.get(&id).copied();
                    let same = match rn.and_then(|r| installed.get(&r)) {
                        Some(c) => *c == room_canon(room),
                        None => false,
                    };
                    out.push(format!(
                        "R{}:{}{}",
                        rn.map(|r| r.to_string()).unwrap_or("x".into()),
                        room_digest(room),
                        if same { "=" } else { "!" }
                    ));
                }
                RawEv::Barrier => {}
                RawEv::Mark => out.push("W".into()),
                RawEv::Lagged(k) => out.push(format!("LAGGED{}", k)),
                RawEv::Other(s) => out.push(format!("O:{}", s)),
            }
        }
        out.join(" ")
    }

    /// content that the daily log hashes: rows, row tombstones, reference tombstones of every room
    async fn snapshot(&self, s: usize) -> HashSet<(Vec<u8>, String, i64, Vec<u8>)> {
        self.sites[s]
            .inst
            .read(|conn| {
                let mut res = HashSet::new();
                let mut stmt = conn
                    .prepare(
                        "SELECT room_id, _entity, mdate, _signature FROM _node WHERE room_id IS NOT NULL
                         UNION ALL SELECT room_id, entity, deletion_date, signature FROM _node_deletion_log
                         UNION ALL SELECT room_id, src_entity, deletion_date, signature FROM _edge_deletion_log",
                    )
                    .unwrap();
                let mut rows = stmt.query([]).unwrap();
                while let Some(r) = rows.next().unwrap() {
                    let room: Vec<u8> = r.get(0).unwrap();
                    let ent: String = r.get(1).unwrap();
                    let date: i64 = r.get(2).unwrap();
                    let sig: Vec<u8> = r.get(3).unwrap();
                    res.insert((room, ent, date, sig));
                }
                res
            })
            .await
    }

    /// Harness-side oracle, on the implementation's observations only:
    /// * every cell whose stored content LOST a row version during the operation (the day a re-dated row leaves,
    ///   the room a moved row leaves) must be named by a data-changed event of the operation, like the cells that gain one;
    /// * at the owning site, the last room-modified event of a room carries every acknowledged change of the room.
    fn post_checks(&mut self, s: usize, evs: &[RawEv], snap: &HashSet<(Vec<u8>, String, i64, Vec<u8>)>, room_ops: bool) {
        let start = evs.iter().rposition(|e| matches!(e, RawEv::Mark)).map(|i| i + 1).unwrap_or(0);
        let mut announced: HashSet<(String, u64, i64)> = HashSet::new();
        for e in &evs[start..] {
            if let RawEv::Data(cs) = e {
                for (r, en, d) in cs {
                    let ei = ENT_NAMES.iter().position(|x| x == en).map(|i| i as u64).unwrap_or(u64::MAX);
                    announced.insert((r.clone(), ei, *d));
                }
            }
        }
        let mut lost: BTreeSet<(String, u64, i64)> = BTreeSet::new();
        for (room, ent, date, sig) in &self.sites[s].snap {
            if !snap.contains(&(room.clone(), ent.clone(), *date, sig.clone())) {
                let mut u = [0u8; 16];
                if room.len() == 16 {
                    u.copy_from_slice(room);
                }
                let day = BASE_DAY + (*date - BASE_DAY).div_euclid(DAY_MS) * DAY_MS;
                lost.insert((b64(&u), self.short_of.get(ent).copied().unwrap_or(u64::MAX), day));
            }
        }
        let is_move = self.cur_op.starts_with("upd ") && self.cur_op.contains(" r=");
        for (room, ent, day) in lost {
            if !announced.contains(&(room.clone(), ent, day)) {
                let sig = if is_move { "room-move-old-room-unannounced" } else { "cell-losing-content-unannounced" };
                let cell = self.cell_of(&room, Some(ent), day);
                self.oracle.push((
                    sig.to_string(),
                    format!("{}: cell {} lost a row version but no data-changed event of the operation names it", self.cur_op, cell),
                ));
            }
        }
        if room_ops {
            let mut last: HashMap<u64, &discret::verif_hooks::database::room::Room> = HashMap::new();
            for e in evs {
                if let RawEv::Room(room) = e {
                    if let Some(rn) = self.room_of_uid.get(&b64(&room.id)) {
                        last.insert(*rn, room);
                    }
                }
            }
            let mut found = vec![];
            for (rn, room) in last {
                if self.owner.get(&rn) != Some(&s) {
                    continue;
                }
                let mut have: BTreeSet<Vec<u8>> = BTreeSet::new();
                for a in room.authorisations.values() {
                    for k in a.users.keys() {
                        have.insert(k.clone());
                    }
                }
                let missing = self.room_users.get(&rn).map(|exp| exp.iter().filter(|k| !have.contains(*k)).count()).unwrap_or(0);
                if missing > 0 {
                    found.push((
                        "room-event-misses-acknowledged-change".to_string(),
                        format!(
                            "{}: the last room-modified event of room {} lacks {} acknowledged user entr{}",
                            self.cur_op,
                            rn,
                            missing,
                            if missing == 1 { "y" } else { "ies" }
                        ),
                    ));
                }
            }
            self.oracle.extend(found);
        }
    }

    /// observation of site `s` after an op that requested `n_data` recomputes
    async fn observe(&mut self, s: usize, status: &str, n_data: usize) -> String {
        let got = self.sites[s].inst.collect(n_data, 15_000).await;
        let (status, evs) = match got {
            Ok(per_sub) => {
                let first = format!("{:?}", per_sub[0]);
                if per_sub.iter().any(|x| format!("{:?}", x) != first) {
                    ("subs-differ".to_string(), per_sub[0].clone())
                } else {
                    (status.to_string(), per_sub[0].clone())
                }
            }
            Err(e) => (e, vec![]),
        };
        let mut installed = HashMap::new();
        for (rn, uid) in &self.rooms {
            if let Some(r) = self.sites[s].inst.room(*uid).await {
                installed.insert(*rn, room_canon(&r));
            }
        }
        let snap = self.snapshot(s).await;
        let mut gained: BTreeSet<Cell> = BTreeSet::new();
        let mut gained_s: BTreeMap<Cell, String> = BTreeMap::new();
        for (room, ent, date, sig) in &snap {
            if !self.sites[s].snap.contains(&(room.clone(), ent.clone(), *date, sig.clone())) {
                let mut u = [0u8; 16];
                if room.len() == 16 {
                    u.copy_from_slice(room);
                }
                let key = b64(&u);
                let ei = self.short_of.get(ent).copied();
                let c = (
                    self.room_of_uid.get(&key).copied().unwrap_or(u64::MAX),
                    ei.unwrap_or(u64::MAX),
                    (*date - BASE_DAY).div_euclid(DAY_MS),
                );
                gained.insert(c);
                gained_s.insert(c, self.cell_of(&key, ei, *date));
            }
        }
        let room_ops = self.cur_op.starts_with("room");
        self.post_checks(s, &evs, &snap, room_ops);
        self.sites[s].snap = snap;
        let g: Vec<String> = gained.iter().map(|c| gained_s[c].clone()).collect();
        format!("{} ev {} | g {}", status, self.fmt_events(&evs, &installed), g.join(","))
            .replace("ev  |", "ev |")
            .trim_end()
            .to_string()
    }

    fn all_keys(&self) -> Vec<Vec<u8>> {
        (0..self.sites.len() as u64).map(|s| site_key(self.case_id, s)).collect()
    }

    // ------------------------------------------------------------------ local ops (return status, #recomputes)

    async fn do_room(&mut self, s: usize, r: u64) -> (String, usize) {
        let keys = self.all_keys();
        let mut p: Vec<(String, String)> = vec![];
        let mut adm = String::new();
        let mut usr = String::new();
        for (i, k) in keys.iter().enumerate() {
            p.push((format!("k{}", i), discret::verif_hooks::security::base64_encode(k)));
            let sep = if i > 0 { "," } else { "" };
            adm.push_str(&format!("{}{{verif_key:$k{}}} ", sep, i));
            usr.push_str(&format!("{}{{verif_key:$k{}}} ", sep, i));
        }
        let q = format!(
            "mutate {{ sys.Room {{ admin:[{}] authorisations:[{{ name:\"g\" rights:[{{entity:\"*\" mutate_self:true mutate_all:true}}] users:[{}] }}] }} }}",
            adm, usr
        );
        let pr: Vec<(&str, String)> = p.iter().map(|(k, v)| (k.as_str(), v.clone())).collect();
        match self.sites[s].inst.svc.mutate_raw(&q, Some(params(&pr))).await {
            Ok(mq) => {
                let ent = &mq.mutate_entities[0];
                let id = ent.node_to_mutate.id;
                self.rooms.insert(r, id);
                self.room_of_uid.insert(b64(&id), r);
                self.owner.insert(r, s);
                self.room_users.insert(r, keys.iter().cloned().collect());
                if let Some(subs) = ent.sub_nodes.get("authorisations") {
                    self.groups.insert(r, subs[0].node_to_mutate.id);
                }
                ("ok".into(), 1)
            }
            Err(e) => {
                if std::env::var("DV_DEBUG").is_ok() {
                    eprintln!("room: {} :: {}", e, q);
                }
                (format!("err:{}", class(&e)), 1)
            }
        }
    }

    async fn do_roomadd(&mut self, s: usize, r: u64) -> (String, usize) {
        let (room, group) = (self.rooms[&r], self.groups[&r]);
        self.dummy += 1;
        let signature_key = derive_key("dummy", &secret_of(1000 + self.dummy, self.case_id));
        let k = Ed25519SigningKey::create_from(&signature_key).export_verifying_key();
        let q = "mutate { sys.Room { id:$r authorisations:[{ id:$g users:[{verif_key:$k}] }] } }";
        let p = params(&[
            ("r", b64(&room)),
            ("g", b64(&group)),
            ("k", discret::verif_hooks::security::base64_encode(&k)),
        ]);
        match self.sites[s].inst.svc.mutate_raw(q, Some(p)).await {
            Ok(_) => {
                self.room_users.entry(r).or_default().insert(k);
                ("ok".into(), 1)
            }
            Err(e) => (format!("err:{}", class(&e)), 1),
        }
    }

    fn new_query(e: u64) -> String {
        format!("mutate {{ {} {{ room_id:$r name:$t }} }}", ENT_NAMES[e as usize])
    }

    async fn do_new(&mut self, s: usize, n: u64, r: u64, e: u64) -> (String, usize) {
        let p = params(&[("r", b64(&self.rooms[&r])), ("t", format!("row{} v{}", n, self.tick))]);
        match self.sites[s].inst.svc.mutate_raw(&Self::new_query(e), Some(p)).await {
            Ok(mq) => {
                let id = mq.mutate_entities[0].node_to_mutate.id;
                self.row_uid.insert(n, (id, e));
                self.row_of_uid.insert(id, n);
                self.sites[s].rows.insert(n, (id, e));
                ("ok".into(), 1)
            }
            Err(e) => (format!("err:{}", class(&e)), 1),
        }
    }

    async fn do_upd(&mut self, s: usize, n: u64, r: Option<u64>) -> (String, usize) {
        let (id, e) = self.sites[s].rows[&n];
        let (q, p) = match r {
            Some(r) => (
                format!("mutate {{ {} {{ id:$id room_id:$r name:$t }} }}", ENT_NAMES[e as usize]),
                params(&[("id", b64(&id)), ("r", b64(&self.rooms[&r])), ("t", format!("row{} v{}", n, self.tick))]),
            ),
            None => (
                format!("mutate {{ {} {{ id:$id name:$t }} }}", ENT_NAMES[e as usize]),
                params(&[("id", b64(&id)), ("t", format!("row{} v{}", n, self.tick))]),
            ),
        };
        match self.sites[s].inst.svc.mutate_raw(&q, Some(p)).await {
            Ok(_) => ("ok".into(), 1),
            Err(e) => (format!("err:{}", class(&e)), 1),
        }
    }

    async fn do_simple(&mut self, s: usize, q: String, p: Vec<(&str, String)>) -> (String, usize) {
        match self.sites[s].inst.svc.mutate_raw(&q, Some(params(&p))).await {
            Ok(_) => ("ok".into(), 1),
            Err(e) => (format!("err:{}", class(&e)), 1),
        }
    }

    async fn do_delete(&mut self, s: usize, q: String, p: Vec<(&str, String)>) -> (String, usize) {
        match self.sites[s].inst.svc.delete(&q, Some(params(&p))).await {
            Ok(_) => ("ok".into(), 1),
            Err(e) => (format!("err:{}", class(&e)), 1),
        }
    }

    async fn do_stream(&mut self, s: usize, mode: &str, keep: usize, rows: &[(u64, u64, u64)]) -> (String, usize) {
        let svc = self.sites[s].inst.svc.clone();
        let (send, recv) = svc.mutation_stream();
        // `dropped`: a fire-and-forget caller: the result receiver is dropped after `keep` acknowledgements
        // (before anything is sent when keep = 0) and the caller keeps streaming
        let mut recv = Some(recv);
        if mode == "dropped" && keep == 0 {
            recv = None;
        }
        let mut status = "ok".to_string();
        let mut ids = vec![];
        // `early`: the (single) reader thread is held until the stream is closed and the recompute it
        // requests has been answered, so the mutations reach the writer after it (what the scheduler
        // may do anyway when the caller closes the stream without waiting for the acknowledgements)
        let stall = if mode == "early" {
            let (tx, rx) = std::sync::mpsc::channel::<()>();
            let (started_tx, started_rx) = tokio::sync::oneshot::channel::<()>();
            svc.db
                .reader
                .send_async(Box::new(move |_conn| {
                    let _ = started_tx.send(());
                    let _ = rx.recv();
                }))
                .await
                .expect("reader");
            let _ = started_rx.await;
            Some(tx)
        } else {
            None
        };
        let mut pre = vec![];
        let mut texts = vec![];
        for (i, (n, r, e)) in rows.iter().enumerate() {
            let text = format!("row{} v{}", n, self.tick);
            if mode == "dropped" && recv.is_none() && i > 0 {
                // the caller keeps streaming slowly: the previous row is stored before the next one is sent
                let deadline = std::time::Instant::now() + std::time::Duration::from_secs(5);
                while self.lookup_by_text(s, &texts[i - 1..i]).await.is_empty() && std::time::Instant::now() < deadline {
                    tokio::time::sleep(std::time::Duration::from_millis(10)).await;
                }
                if i + 1 == rows.len() && i > keep {
                    // an acknowledgement could not be delivered already: whatever event that triggered is received
                    // BEFORE the last mutation is sent (nothing comes when the request waits for the end of the stream)
                    let _ = self.sites[s].inst.wait_data(1, 200).await;
                    let nsubs = self.sites[s].inst.subs.len();
                    for k in 0..nsubs {
                        let mut b = self.sites[s].inst.subs[k].buf.lock().unwrap();
                        pre.push(b.drain(..).collect::<Vec<RawEv>>());
                    }
                }
            }
            texts.push(text.clone());
            let p = params(&[("r", b64(&self.rooms[r])), ("t", text)]);
            if send.send((Self::new_query(*e), Some(p))).await.is_err() {
                status = "err:stream".into();
            }
            if mode == "acked" || (mode == "dropped" && recv.is_some()) {
                match recv.as_mut().unwrap().recv().await {
                    Some(Ok(mq)) => ids.push(Some(mq.mutate_entities[0].node_to_mutate.id)),
                    Some(Err(e)) => {
                        status = format!("err:{}", class(&e));
                        ids.push(None)
                    }
                    None => status = "err:stream-closed".into(),
                }
                if mode == "dropped" && i + 1 >= keep {
                    recv = None;
                }
            }
        }
        drop(send);
        if mode == "dropped" {
            // no acknowledgement is read any more: wait for the stream's data event, then until every row is
            // stored (it is, before the event, when the request follows the last acknowledgement)
            let early = pre.first().map(|v| v.iter().filter(|e| matches!(e, RawEv::Data(_))).count()).unwrap_or(0);
            if early == 0 {
                let _ = self.sites[s].inst.wait_data(1, 15_000).await;
            }
            let deadline = std::time::Instant::now() + std::time::Duration::from_secs(5);
            loop {
                let found = self.lookup_by_text(s, &texts).await;
                if found.len() == texts.len() || std::time::Instant::now() > deadline {
                    while ids.len() < rows.len() {
                        ids.push(found.get(&texts[ids.len()]).copied());
                    }
                    break;
                }
                tokio::time::sleep(std::time::Duration::from_millis(20)).await;
            }
        }
        if let Some(tx) = stall {
            // the stream's recompute request is answered (one data event) while the reader is held — unless
            // the code orders the request after the acknowledgements, in which case nothing comes until the
            // reader is released
            if self.sites[s].inst.wait_data(1, 3_000).await {
                match self.sites[s].inst.collect(1, 15_000).await {
                    Ok(per_sub) => pre = per_sub,
                    Err(e) => status = e,
                }
            }
            let _ = tx.send(());
        }
        if mode != "acked" && mode != "dropped" {
            for _ in rows {
                match recv.as_mut().unwrap().recv().await {
                    Some(Ok(mq)) => ids.push(Some(mq.mutate_entities[0].node_to_mutate.id)),
                    Some(Err(e)) => {
                        status = format!("err:{}", class(&e));
                        ids.push(None)
                    }
                    None => status = "err:stream-closed".into(),
                }
            }
        }
        for ((n, _, e), id) in rows.iter().zip(ids) {
            if let Some(id) = id {
                self.row_uid.insert(*n, (id, *e));
                self.row_of_uid.insert(id, *n);
                self.sites[s].rows.insert(*n, (id, *e));
            }
        }
        // events received before the first mutation reached the writer, then the marker, then the rest
        let nsubs = self.sites[s].inst.subs.len();
        for i in 0..nsubs {
            let mut b = self.sites[s].inst.subs[i].buf.lock().unwrap();
            let mut v = if pre.is_empty() { vec![] } else { pre[i].clone() };
            v.push(RawEv::Mark);
            v.extend(b.drain(..));
            *b = v;
        }
        // (the events put back in the buffers count for the expected number of data events)
        (status, 1)
    }

    /// ids of the rows whose `name` is one of `texts` (rows created by a stream whose results were not read)
    async fn lookup_by_text(&self, s: usize, texts: &[String]) -> HashMap<String, Uid> {
        let texts: Vec<String> = texts.to_vec();
        self.sites[s]
            .inst
            .read(move |conn| {
                let mut res = HashMap::new();
                let mut stmt = conn.prepare("SELECT id, _json FROM _node WHERE room_id IS NOT NULL AND _json IS NOT NULL").unwrap();
                let mut rows = stmt.query([]).unwrap();
                while let Some(r) = rows.next().unwrap() {
                    let id: Vec<u8> = r.get(0).unwrap();
                    let json: String = r.get(1).unwrap();
                    if id.len() != 16 {
                        continue;
                    }
                    if let Ok(v) = serde_json::from_str::<serde_json::Value>(&json) {
                        if let Some(o) = v.as_object() {
                            for val in o.values() {
                                if let Some(t) = val.as_str() {
                                    if texts.iter().any(|x| x == t) {
                                        let mut u = [0u8; 16];
                                        u.copy_from_slice(&id);
                                        res.insert(t.to_string(), u);
                                    }
                                }
                            }
                        }
                    }
                }
                res
            })
            .await
    }

    async fn do_pull(&mut self, s: usize, t: usize, r: u64) -> (String, usize) {
        let room = self.rooms[&r];
        let src = self.sites[t].inst.svc.clone();
        let dst = self.sites[s].inst.svc.clone();
        let (st, n_req, load) = pull_room(&src, &dst, room).await;
        if st != "ok" {
            return (st, n_req);
        }
        // which rows exist at the destination now (bookkeeping for later ops; not an observation)
        let known: Vec<(u64, (Uid, u64))> = self.row_uid.iter().map(|(n, v)| (*n, *v)).collect();
        let present: HashSet<Uid> = self.sites[s]
            .inst
            .read(|conn| {
                let mut res = HashSet::new();
                let mut stmt = conn.prepare("SELECT id FROM _node").unwrap();
                let mut rows = stmt.query([]).unwrap();
                while let Some(r) = rows.next().unwrap() {
                    let id: Vec<u8> = r.get(0).unwrap();
                    if id.len() == 16 {
                        let mut u = [0u8; 16];
                        u.copy_from_slice(&id);
                        res.insert(u);
                    }
                }
                res
            })
            .await;
        self.sites[s].rows = known.into_iter().filter(|(_, (id, _))| present.contains(id)).collect();
        ((if load { "ok+def" } else { "ok" }).into(), n_req)
    }

    // ------------------------------------------------------------------ dispatch

    /// validity of a local op against the harness's bookkeeping; invalid ops are skipped (`skip`)
    fn runnable(&self, kind: &str, kv: &Kv) -> bool {
        let s = match get_u(kv, "s") {
            Some(s) if (s as usize) < self.sites.len() => s as usize,
            _ => return false,
        };
        let has_row = |k: &str| get_u(kv, k).map(|n| self.sites[s].rows.contains_key(&n)).unwrap_or(false);
        let has_room = |k: &str| get_u(kv, k).map(|r| self.rooms.contains_key(&r)).unwrap_or(false);
        match kind {
            "room" => get_u(kv, "r").map(|r| !self.rooms.contains_key(&r)).unwrap_or(false),
            "roomadd" => has_room("r") && get_u(kv, "r").map(|r| self.owner.get(&r) == Some(&s)).unwrap_or(false),
            "new" => {
                has_room("r")
                    && get_u(kv, "n").map(|n| !self.row_uid.contains_key(&n)).unwrap_or(false)
                    && get_u(kv, "e").map(|e| e < 2).unwrap_or(false)
            }
            "upd" => has_row("n") && (kv.get("r").is_none() || has_room("r")),
            "nop" | "del" => has_row("n"),
            "unref" => has_row("n") && get_u(kv, "n").map(|n| self.sites[s].rows[&n].1 == 0).unwrap_or(false),
            "ref" | "refdel" => {
                has_row("n")
                    && has_row("m")
                    && get_u(kv, "n") != get_u(kv, "m")
                    && get_u(kv, "n").map(|n| self.sites[s].rows[&n].1 == 0).unwrap_or(false)
                    && get_u(kv, "m").map(|n| self.sites[s].rows[&n].1 == 0).unwrap_or(false)
            }
            _ => false,
        }
    }

    pub async fn op(&mut self, kind: &str, kv: &Kv, stats: &mut Stats) -> String {
        if self.dead {
            return "dead".into();
        }
        let mut kvs: Vec<String> = kv.iter().map(|(k, v)| format!("{}={}", k, v)).collect();
        kvs.sort();
        self.cur_op = format!("{} {}", kind, kvs.join(" "));
        let r = self.op_inner(kind, kv, stats).await;
        if r.starts_with("timeout") || r.starts_with("barrier-timeout") {
            self.dead = true;
        }
        r
    }

    async fn op_inner(&mut self, kind: &str, kv: &Kv, stats: &mut Stats) -> String {
        let s = get_u(kv, "s").unwrap_or(0) as usize;
        match kind {
            "day" => match get_u(kv, "add") {
                Some(k) => {
                    self.day += k as i64;
                    self.set_clock();
                    "ok".into()
                }
                None => "bad-op".into(),
            },
            "flush" => {
                if s >= self.sites.len() {
                    return "skip".into();
                }
                self.sites[s].inst.svc.compute_daily_log().await;
                self.step_clock();
                self.observe(s, "ok", 1).await
            }
            "room" | "roomadd" | "new" | "upd" | "nop" | "ref" | "unref" | "del" | "refdel" => {
                if !self.runnable(kind, kv) {
                    return "skip".into();
                }
                if !self.site_has_room(s, kind, kv).await {
                    return "skip".into();
                }
                let (st, n) = self.local(kind, kv).await;
                stats.inc(&format!("op.{}", kind));
                self.step_clock();
                self.observe(s, &st, n).await
            }
            "stream" => {
                let mode = kv.get("mode").map(|x| x.as_str()).unwrap_or("");
                // `free` (natural schedule: send everything, close, then drain) is not deterministic: only
                // available to the `race` sub-command, which measures how often it loses the announcement
                if !["acked", "early", "dropped"].contains(&mode) && !(mode == "free" && self.allow_free) {
                    return "bad-op".into();
                }
                let keep = get_u(kv, "keep").unwrap_or(0) as usize;
                let rows = match parse_rows(kv.get("rows").map(|x| x.as_str()).unwrap_or("")) {
                    Some(r) => r,
                    None => return "bad-op".into(),
                };
                if s >= self.sites.len() {
                    return "skip".into();
                }
                let mut seen = HashSet::new();
                for (n, r, e) in &rows {
                    if self.row_uid.contains_key(n) || !self.rooms.contains_key(r) || *e >= 2 || !seen.insert(*n) {
                        return "skip".into();
                    }
                    if self.sites[s].inst.room(self.rooms[r]).await.is_none() {
                        return "skip".into();
                    }
                }
                let (st, n) = self.do_stream(s, mode, keep, &rows).await;
                stats.inc(&format!("op.stream.{}", mode));
                self.step_clock();
                self.observe(s, &st, n).await
            }
            "pull" => {
                let (t, r) = match (get_u(kv, "from"), get_u(kv, "r")) {
                    (Some(t), Some(r)) => (t as usize, r),
                    _ => return "bad-op".into(),
                };
                if s >= self.sites.len() || t >= self.sites.len() || s == t || !self.rooms.contains_key(&r) {
                    return "skip".into();
                }
                if self.sites[t].inst.room(self.rooms[&r]).await.is_none() {
                    return "skip".into();
                }
                let (st, n) = self.do_pull(s, t, r).await;
                stats.inc("op.pull");
                self.step_clock();
                self.observe(s, &st, n).await
            }
            "mix" => {
                let ops: Vec<(String, Kv)> = kv
                    .get("ops")
                    .map(|x| x.as_str())
                    .unwrap_or("")
                    .split(';')
                    .filter(|x| !x.is_empty())
                    .map(|x| parse_kv(&x.replace(',', " ").replace(':', "=")))
                    .collect();
                let pull = match kv.get("pull") {
                    None => None,
                    Some(v) => {
                        let p: Vec<Option<u64>> = v.split(':').map(|x| x.parse::<u64>().ok()).collect();
                        match p.as_slice() {
                            [Some(t), Some(r)] => Some((*t as usize, *r)),
                            _ => return "bad-op".into(),
                        }
                    }
                };
                if s >= self.sites.len() {
                    return "skip".into();
                }
                self.do_mix(s, ops, pull, stats).await
            }
            _ => "bad-op".into(),
        }
    }

    /// the room a local op writes into must be installed at the site
    async fn site_has_room(&self, s: usize, kind: &str, kv: &Kv) -> bool {
        match kind {
            "room" => true,
            _ => match get_u(kv, "r") {
                Some(r) => self.sites[s].inst.room(self.rooms[&r]).await.is_some(),
                None => true,
            },
        }
    }

    async fn local(&mut self, kind: &str, kv: &Kv) -> (String, usize) {
        let s = get_u(kv, "s").unwrap() as usize;
        let n = get_u(kv, "n").unwrap_or(0);
        match kind {
            "room" => self.do_room(s, get_u(kv, "r").unwrap()).await,
            "roomadd" => self.do_roomadd(s, get_u(kv, "r").unwrap()).await,
            "new" => self.do_new(s, n, get_u(kv, "r").unwrap(), get_u(kv, "e").unwrap()).await,
            "upd" => self.do_upd(s, n, get_u(kv, "r")).await,
            "nop" => {
                let (id, e) = self.sites[s].rows[&n];
                self.do_simple(s, format!("mutate {{ {} {{ id:$id }} }}", ENT_NAMES[e as usize]), vec![("id", b64(&id))])
                    .await
            }
            "ref" => {
                let (id, _) = self.sites[s].rows[&n];
                let (m, _) = self.sites[s].rows[&get_u(kv, "m").unwrap()];
                self.do_simple(
                    s,
                    "mutate { Person { id:$id parents:[{id:$m}] } }".into(),
                    vec![("id", b64(&id)), ("m", b64(&m))],
                )
                .await
            }
            "unref" => {
                let (id, _) = self.sites[s].rows[&n];
                self.do_simple(s, "mutate { Person { id:$id parents:null } }".into(), vec![("id", b64(&id))])
                    .await
            }
            "del" => {
                let (id, e) = self.sites[s].rows[&n];
                let r = self
                    .do_delete(s, format!("delete {{ {} {{ $id }} }}", ENT_NAMES[e as usize]), vec![("id", b64(&id))])
                    .await;
                if r.0 == "ok" {
                    self.sites[s].rows.remove(&n);
                }
                r
            }
            "refdel" => {
                let (id, _) = self.sites[s].rows[&n];
                let (m, _) = self.sites[s].rows[&get_u(kv, "m").unwrap()];
                self.do_delete(
                    s,
                    "delete { Person { $id parents[$m] } }".into(),
                    vec![("id", b64(&id)), ("m", b64(&m))],
                )
                .await
            }
            _ => ("bad-op".into(), 0),
        }
    }

    /// Concurrent operations on one site: local sub-operations on pairwise distinct rows (each one a task
    /// calling the public API, so each one's recompute request follows its own acknowledgement) and,
    /// optionally, an ingestion from the other site running at the same time. With an ingestion only
    /// creations, streams and room changes are kept (an update could race with an ingested version).
    async fn do_mix(&mut self, s: usize, ops: Vec<(String, Kv)>, pull: Option<(usize, u64)>, stats: &mut Stats) -> String {
        let pull = match pull {
            Some((t, r))
                if t < self.sites.len()
                    && t != s
                    && self.rooms.contains_key(&r)
                    && self.sites[t].inst.room(self.rooms[&r]).await.is_some() =>
            {
                Some((t, r))
            }
            _ => None,
        };
        let mut todo = vec![];
        let mut used: HashSet<u64> = HashSet::new();
        for (k, mut kv) in ops {
            kv.insert("s".into(), s.to_string());
            let (ok, rows): (bool, Vec<u64>) = match k.as_str() {
                "new" | "upd" | "del" | "roomadd" => (
                    self.runnable(&k, &kv) && self.site_has_room(s, &k, &kv).await,
                    if k == "roomadd" { vec![] } else { vec![get_u(&kv, "n").unwrap_or(0)] },
                ),
                "stream" => match parse_rows(&kv.get("rows").cloned().unwrap_or_default().replace('.', ":").replace('+', ",")) {
                    Some(rows) => {
                        let mut ok = true;
                        let mut seen = HashSet::new();
                        for (n, r, e) in &rows {
                            if self.row_uid.contains_key(n) || !self.rooms.contains_key(r) || *e >= 2 || !seen.insert(*n) {
                                ok = false;
                            } else if self.sites[s].inst.room(self.rooms[r]).await.is_none() {
                                ok = false;
                            }
                        }
                        (ok, rows.iter().map(|x| x.0).collect())
                    }
                    None => return "bad-op".into(),
                },
                _ => return "bad-op".into(),
            };
            let row_op = k == "upd" || k == "del";
            if ok && !rows.iter().any(|n| used.contains(n)) && !(pull.is_some() && row_op) {
                for n in rows {
                    used.insert(n);
                }
                todo.push((k, kv));
            }
        }
        if todo.is_empty() {
            return "skip".into();
        }
        let svc = self.sites[s].inst.svc.clone();
        let mut handles = vec![];
        let mut room_keys: Vec<Option<(u64, Vec<u8>)>> = vec![];
        for (k, kv) in &todo {
            let svc = svc.clone();
            let n = get_u(kv, "n").unwrap_or(0);
            let tick = self.tick;
            room_keys.push(None);
            if k == "stream" {
                let rows = parse_rows(&kv["rows"].replace('.', ":").replace('+', ",")).unwrap();
                let items: Vec<(String, Vec<(&'static str, String)>)> = rows
                    .iter()
                    .map(|(n, r, e)| {
                        (Self::new_query(*e), vec![("r", b64(&self.rooms[r])), ("t", format!("row{} v{}", n, tick))])
                    })
                    .collect();
                handles.push(tokio::spawn(async move {
                    let (send, mut recv) = svc.mutation_stream();
                    let mut ids = vec![];
                    for (q, p) in items {
                        if send.send((q, Some(params(&p)))).await.is_err() {
                            return Err("stream".to_string());
                        }
                        match recv.recv().await {
                            Some(Ok(mq)) => ids.push(mq.mutate_entities[0].node_to_mutate.id),
                            Some(Err(e)) => return Err(class(&e)),
                            None => return Err("stream-closed".to_string()),
                        }
                    }
                    drop(send);
                    Ok(ids)
                }));
                continue;
            }
            let (q, p): (String, Vec<(&'static str, String)>) = match k.as_str() {
                "new" => (
                    Self::new_query(get_u(kv, "e").unwrap()),
                    vec![("r", b64(&self.rooms[&get_u(kv, "r").unwrap()])), ("t", format!("row{} v{}", n, tick))],
                ),
                "upd" => {
                    let (id, e) = self.sites[s].rows[&n];
                    (
                        format!("mutate {{ {} {{ id:$id name:$t }} }}", ENT_NAMES[e as usize]),
                        vec![("id", b64(&id)), ("t", format!("row{} v{}", n, tick))],
                    )
                }
                "del" => {
                    let (id, e) = self.sites[s].rows[&n];
                    (format!("delete {{ {} {{ $id }} }}", ENT_NAMES[e as usize]), vec![("id", b64(&id))])
                }
                _ => {
                    let r = get_u(kv, "r").unwrap();
                    self.dummy += 1;
                    let signature_key = derive_key("dummy", &secret_of(1000 + self.dummy, self.case_id));
                    let key = Ed25519SigningKey::create_from(&signature_key).export_verifying_key();
                    *room_keys.last_mut().unwrap() = Some((r, key.clone()));
                    (
                        "mutate { sys.Room { id:$r authorisations:[{ id:$g users:[{verif_key:$k}] }] } }".to_string(),
                        vec![
                            ("r", b64(&self.rooms[&r])),
                            ("g", b64(&self.groups[&r])),
                            ("k", discret::verif_hooks::security::base64_encode(&key)),
                        ],
                    )
                }
            };
            let is_del = k == "del";
            handles.push(tokio::spawn(async move {
                if is_del {
                    svc.delete(&q, Some(params(&p))).await.map(|_| vec![]).map_err(|e| class(&e))
                } else {
                    svc.mutate_raw(&q, Some(params(&p)))
                        .await
                        .map(|mq| vec![mq.mutate_entities[0].node_to_mutate.id])
                        .map_err(|e| class(&e))
                }
            }));
        }
        let mut status = "ok".to_string();
        let mut n_req = 0;
        // the ingestion runs here while the spawned callers run on the other worker threads
        let mut created: Vec<(u64, Uid, u64)> = vec![];
        if let Some((t, r)) = pull {
            let (st, n) = self.do_pull(s, t, r).await;
            stats.inc("mix.pull");
            if !st.starts_with("ok") {
                status = st;
            }
            n_req += n;
        }
        for (((k, kv), h), rk) in todo.iter().zip(handles).zip(room_keys) {
            n_req += 1;
            stats.inc(&format!("mix.{}", k));
            match h.await {
                Ok(Ok(ids)) => {
                    if let Some((r, key)) = rk {
                        self.room_users.entry(r).or_default().insert(key);
                    }
                    let n = get_u(kv, "n").unwrap_or(0);
                    match k.as_str() {
                        "new" => created.push((n, ids[0], get_u(kv, "e").unwrap())),
                        "stream" => {
                            let rows = parse_rows(&kv["rows"].replace('.', ":").replace('+', ",")).unwrap();
                            for ((n, _, e), id) in rows.iter().zip(ids) {
                                created.push((*n, id, *e));
                            }
                        }
                        "del" => {
                            self.sites[s].rows.remove(&n);
                        }
                        _ => {}
                    }
                }
                Ok(Err(c)) => status = format!("err:{}", c),
                Err(_) => status = "err:panic".into(),
            }
        }
        for (n, id, e) in created {
            self.row_uid.insert(n, (id, e));
            self.row_of_uid.insert(id, n);
            self.sites[s].rows.insert(n, (id, e));
        }
        self.step_clock();
        // the grouping of cells into events depends on the schedule: the observation is the union
        let got = self.sites[s].inst.collect(n_req, 15_000).await;
        let obs = match got {
            Ok(per_sub) => {
                let first = format!("{:?}", per_sub[0]);
                if per_sub.iter().any(|x| format!("{:?}", x) != first) {
                    status = "subs-differ".into();
                }
                per_sub[0].clone()
            }
            Err(e) => {
                status = e;
                vec![]
            }
        };
        let mut cells: BTreeSet<(u64, u64, i64)> = BTreeSet::new();
        let mut n_data = 0;
        let mut room_evs: BTreeMap<u64, (usize, String)> = BTreeMap::new();
        let mut extra = vec![];
        for e in &obs {
            match e {
                RawEv::Data(cs) => {
                    n_data += 1;
                    for (r, en, d) in cs {
                        let ei = ENT_NAMES.iter().position(|x| x == en).map(|i| i as u64).unwrap_or(u64::MAX);
                        cells.insert((
                            self.room_of_uid.get(r).copied().unwrap_or(u64::MAX),
                            ei,
                            (*d - BASE_DAY).div_euclid(DAY_MS),
                        ));
                    }
                }
                RawEv::Room(room) => {
                    let rn = self.room_of_uid.get(&b64(&room.id)).copied().unwrap_or(u64::MAX);
                    let ent = room_evs.entry(rn).or_insert((0, String::new()));
                    ent.0 += 1;
                    ent.1 = room_canon(room);
                }
                RawEv::Lagged(k) => extra.push(format!("LAGGED{}", k)),
                RawEv::Other(o) => extra.push(format!("O:{}", o)),
                RawEv::Barrier | RawEv::Mark => {}
            }
        }
        let mut parts = vec![];
        for (rn, (cnt, last)) in &room_evs {
            let inst = match self.rooms.get(rn) {
                Some(uid) => self.sites[s].inst.room(*uid).await.map(|r| (room_canon(&r), room_digest(&r))),
                None => None,
            };
            let (same, dig) = match inst {
                Some((c, d)) => (c == *last, d),
                None => (false, "?".into()),
            };
            parts.push(format!("R{}x{}:{}{}", rn, cnt, dig, if same { "=" } else { "!" }));
        }
        parts.push(format!(
            "Dx{}[{}]",
            n_data,
            cells.iter().map(|c| format!("{}.{}.{}", c.0, c.1, c.2)).collect::<Vec<_>>().join(",")
        ));
        parts.extend(extra);
        // gained cells
        let snap = self.snapshot(s).await;
        let mut gained: BTreeSet<Cell> = BTreeSet::new();
        for (room, ent, date, sig) in &snap {
            if !self.sites[s].snap.contains(&(room.clone(), ent.clone(), *date, sig.clone())) {
                let mut u = [0u8; 16];
                if room.len() == 16 {
                    u.copy_from_slice(room);
                }
                gained.insert((
                    self.room_of_uid.get(&b64(&u)).copied().unwrap_or(u64::MAX),
                    self.short_of.get(ent).copied().unwrap_or(u64::MAX),
                    (*date - BASE_DAY).div_euclid(DAY_MS),
                ));
            }
        }
        self.post_checks(s, &obs, &snap, true);
        self.sites[s].snap = snap;
        format!(
            "{} ev {} | g {}",
            status,
            parts.join(" "),
            gained.iter().map(|c| format!("{}.{}.{}", c.0, c.1, c.2)).collect::<Vec<_>>().join(",")
        )
        .trim_end()
        .to_string()
    }
}

fn parse_rows(s: &str) -> Option<Vec<(u64, u64, u64)>> {
    let mut res = vec![];
    for t in s.split(',').filter(|t| !t.is_empty()) {
        let p: Vec<&str> = t.split(':').collect();
        if p.len() != 3 {
            return None;
        }
        res.push((p[0].parse().ok()?, p[1].parse().ok()?, p[2].parse().ok()?));
    }
    if res.is_empty() {
        None
    } else {
        Some(res)
    }
}

