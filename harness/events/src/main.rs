//! Engine `events`: C18 (every committed change is announced) and C17 (full-text search).
//!
//!   dv-events gen --prop C18|C17 --seed S --n N --len L --out FILE
//!   dv-events run --ops FILE --out FILE [--stats FILE] [--work DIR]
//!
//! The `case` line selects the interpreter: `eng=ev` (C18, see ev.rs) or `eng=fts` (C17, see fts.rs).
mod ev;
mod fts;
mod gen;
mod inst;

use dvcommon::{parse_kv, Args, Stats};
use std::io::{BufRead, BufWriter, Write};
use std::path::PathBuf;

enum Case {
    None,
    Ev(ev::World),
    Fts(fts::World),
}

fn end_case(case: &mut Case) {
    match case {
        Case::Ev(world) => world.cleanup(),
        Case::Fts(world) => world.cleanup(),
        Case::None => {}
    }
    *case = Case::None;
}

/// one case = one tokio runtime: when it is shut down the instances' background tasks end, their writer
/// threads close their SQLite connections, and nothing piles up until the process exits
async fn run_case(
    lines: Vec<String>,
    case_index: usize,
    work: PathBuf,
) -> (Vec<String>, Stats, Vec<String>) {
    let mut stats = Stats::default();
    let mut case = Case::None;
    let mut oracle_lines: Vec<String> = vec![];
    let mut outs = vec![];
    for line in lines {
        let (kind, kv) = parse_kv(&line);
        let get = |k: &str| kv.get(k).and_then(|v| v.parse::<u64>().ok());
        let res: String = if kind == "case" {
            end_case(&mut case);
            match (get("id"), kv.get("eng").map(|x| x.as_str())) {
                (Some(id), Some("fts")) => {
                    let sites = get("sites").unwrap_or(1).clamp(1, 2);
                    match fts::World::new(work.clone(), id, sites).await {
                        Ok(world) => {
                            case = Case::Fts(world);
                            stats.inc("cases");
                            format!("case {}", id)
                        }
                        Err(e) => format!("case-failed {}", e),
                    }
                }
                (Some(id), Some("ev")) => {
                    let sites = get("sites").unwrap_or(1).clamp(1, 2);
                    let subs = get("subs").unwrap_or(1).clamp(1, 3) as usize;
                    match ev::World::new(work.clone(), id, sites, subs).await {
                        Ok(world) => {
                            case = Case::Ev(world);
                            stats.inc("cases");
                            format!("case {}", id)
                        }
                        Err(e) => format!("case-failed {}", e),
                    }
                }
                _ => "bad-op".into(),
            }
        } else {
            match &mut case {
                Case::Ev(world) => {
                    let r = world.op(&kind, &kv, &mut stats).await;
                    for (sig, detail) in world.oracle.drain(..) {
                        stats.inc(&format!("oracle.{}", sig));
                        oracle_lines.push(format!("{} {} {}", case_index, sig, detail));
                    }
                    if r.contains(" ev ") && r.contains("D[") && !r.contains("D[]") || r.contains("Dx") {
                        stats.inc("ops_with_announced_cells");
                    }
                    r
                }
                Case::Fts(world) => {
                    let mut found = vec![];
                    let r = world.op(&kind, &kv, &mut stats, &mut found).await;
                    let again = world.retries.replace(0);
                    if again > 0 {
                        stats.add("search_retried_after_sql_error", again);
                    }
                    for (sig, detail) in found {
                        stats.inc(&format!("oracle.{}", sig));
                        oracle_lines.push(format!("{} {} {}", case_index, sig, detail));
                    }
                    r
                }
                Case::None => "bad-op".into(),
            }
        };
        outs.push(res);
    }
    end_case(&mut case);
    (outs, stats, oracle_lines)
}

fn run(ops: &str, out: &str, stats_path: Option<&str>, work: PathBuf) {
    let f = std::fs::File::open(ops).expect("ops file");
    let mut w = BufWriter::new(std::fs::File::create(out).expect("out file"));
    let _ = std::fs::create_dir_all(&work);
    // split into cases (lines before the first `case` form a case of their own: they are all `bad-op`)
    let mut cases: Vec<Vec<String>> = vec![];
    for line in std::io::BufReader::new(f).lines() {
        let line = line.unwrap();
        if line.starts_with("case ") || cases.is_empty() {
            cases.push(vec![]);
        }
        cases.last_mut().unwrap().push(line);
    }
    let mut stats = Stats::default();
    let mut oracle_lines: Vec<String> = vec![];
    for (i, lines) in cases.into_iter().enumerate() {
        let rt = tokio::runtime::Builder::new_multi_thread()
            .worker_threads(4)
            .enable_all()
            .build()
            .unwrap();
        let (outs, st, orc) = rt.block_on(run_case(lines, i, work.clone()));
        rt.shutdown_timeout(std::time::Duration::from_secs(5));
        for o in outs {
            writeln!(w, "{}", o).unwrap();
        }
        for (k, v) in st.counters {
            stats.add(&k, v);
        }
        oracle_lines.extend(orc);
    }
    w.flush().unwrap();
    if !oracle_lines.is_empty() {
        std::fs::write(format!("{}.oracle", out), oracle_lines.join("\n") + "\n").unwrap();
    }
    if let Some(p) = stats_path {
        stats.write(p);
    }
}

fn main() {
    let a = Args::parse();
    match a.cmd.as_str() {
        "gen" => gen::gen(
            &a.str_or("prop", "C18"),
            a.u64_or("seed", 1),
            a.usize_or("n", 50),
            a.usize_or("len", 12),
            &a.str_or("out", "cases.ops"),
        ),
        "run" => {
            let out = a.str_or("out", "impl.out");
            let work = a
                .get("work")
                .map(PathBuf::from)
                .unwrap_or_else(|| PathBuf::from(format!("{}.db", out)));
            run(&a.str_or("ops", "cases.ops"), &out, a.get("stats"), work.clone());
            // let the last writer threads close their connections before the exit handlers run
            std::thread::sleep(std::time::Duration::from_millis(300));
            let _ = std::fs::remove_dir_all(&work);
        }
        "race" => {
            // how often does the natural use of a mutation stream (send all, close, drain the results)
            // leave its last changes unannounced?  (timing dependent: a measurement, not a check)
            let rt = tokio::runtime::Builder::new_multi_thread().worker_threads(4).enable_all().build().unwrap();
            let n = a.usize_or("n", 30);
            let work = PathBuf::from(a.str_or("work", "/tmp/dv-events-race"));
            let lost = rt.block_on(async {
                let mut lost = 0;
                let mut stats = Stats::default();
                for i in 0..n {
                    let mut w = ev::World::new(work.clone(), i as u64, 1, 1).await.unwrap();
                    w.allow_free = true;
                    let (_, kv) = parse_kv("room s=0 r=1");
                    w.op("room", &kv, &mut stats).await;
                    let (_, kv) = parse_kv("stream s=0 mode=free rows=1:1:0,2:1:0,3:1:1");
                    let r = w.op("stream", &kv, &mut stats).await;
                    let (_, kv) = parse_kv("flush s=0");
                    let f = w.op("flush", &kv, &mut stats).await;
                    if !f.contains("D[]") {
                        lost += 1;
                    }
                    if i < 3 {
                        println!("# stream: {}   flush: {}", r, f);
                    }
                    w.cleanup();
                }
                lost
            });
            let _ = std::fs::remove_dir_all(&work);
            println!("{}", serde_json::json!({"streams": n, "left_unannounced_until_next_request": lost}));
        }
        _ => {
            eprintln!("usage: dv-events gen|run|race …");
            std::process::exit(2);
        }
    }
}
