//! C17 — full-text search returns exactly the rows whose current text matches.
//!
//! Op lines (shared with the Lean driver `dmodel_events`, interpreter `eng=fts`):
//!   case id=<n> eng=fts sites=<1|2>
//!   model s=<site> v=<0..3>          data-model version: bit 0 = `Doc` declared without index, bit 1 = `Note` declared WITH index
//!                                    (version 0 — Doc indexed, Note not — is the one every site starts with)
//!   new s= n=<row> e=<0|1> w=<words>  create row n (entity 0 = Doc, 1 = Note) with text `words` (word numbers k1+k2+…, may be
//!                                    empty; word k is the string `w<k>x<letter>`)
//!   newx s= n= e=                     create row n without any text field
//!   upd s= n= w=<words>               replace the text
//!   clr s= n=                         remove the text (null with one site, the empty string with two: a peer refuses explicit nulls)
//!   del s= n=
//!   pull s= from=<site>               s ingests the (single) room of `from`
//!   link s= n= m=                     add the reference kids n -> m between two `Doc` rows (single-site cases only, else `skip`)
//!   qn s= t=<word>                    search placed on the nested field: `Doc { kids(search(t)) { … } }` -> `nhits p:c1,c2;p2:…`
//!   qnall s=                          the nested search for every word -> `nall <word>=p:c1,c2/p2:…;…`
//!   q s= e= t=<word>                  search -> `hits n1,n2,…` (row numbers, sorted)
//!   qall s=                           every word of past and current texts, for both entities -> `all <e>:<word>:<rows>;…` (non-empty results only)
//!   slots s=                          the storage slot (rowid) of every row of the site, relative to the largest rowid of `_node`
//!                                    when the case started -> `slots n:slot,…`
//!   docs s=                           the slots that have a document record in the index (`_node_fts_docsize`) -> `docs slot,…`
//!   xj j=<json>                       the real `extract_json` on a JSON value (spaces travel as `+`) -> `text <extracted>`
//!
//! Oracle (written next to the observations, `<out>.oracle`): for every search the result must be the set of
//! rows of that entity whose CURRENT text (read back with a plain query) contains the word — only checked
//! for entities whose current model version declares an index. The verdict never depends on anything but the two
//! result sets; the NAME given to a difference does: it is chosen from what the harness did to the row (and to the
//! former holders of its slot) and from the index flag the implementation reports for the entity, so that each
//! known defect keeps its own signature whatever other defects are present or repaired.
use crate::inst::*;
use discret::verif_hooks::clock;
use discret::verif_hooks::security::{derive_key, Ed25519SigningKey, SigningKey, Uid};
use dvcommon::{Gen, Stats};
use std::collections::{BTreeMap, BTreeSet, HashMap};
use std::io::{BufWriter, Write};
use std::path::PathBuf;

pub const ENT_NAMES: [&str; 2] = ["Doc", "Note"];

pub fn model_text(v: u64) -> String {
    format!(
        "{{ Doc{} {{ txt:String nullable, tag:String nullable, kids:[Doc] }} Note{} {{ txt:String nullable }} }}",
        if v & 1 == 1 { "(no_full_text_index)" } else { "" },
        if v & 2 == 2 { "" } else { "(no_full_text_index)" }
    )
}

type Kv = HashMap<String, String>;
fn get_u(kv: &Kv, k: &str) -> Option<u64> {
    kv.get(k).and_then(|v| v.parse::<u64>().ok())
}

/// how a version of a row was written at a site (only used to name the oracle's signatures)
#[derive(Clone, Copy, PartialEq, Debug)]
pub enum How {
    /// by a local mutation while the implementation reported the entity's index flag on
    LocalOn,
    /// by a local mutation while it reported the flag off
    LocalOff,
    /// by the ingestion of a synchronised row while the implementation reported the entity's index flag on
    IngestedOn,
    /// by the ingestion of a synchronised row while it reported the flag off
    IngestedOff,
}

#[derive(Clone, Debug)]
pub struct Ver {
    pub words: Vec<u64>,
    pub how: How,
}

pub struct Site {
    pub inst: Inst,
    pub rows: BTreeMap<u64, (Uid, u64)>,
    pub version: u64,
    /// `enable_full_text` of `Doc` and `Note` as the implementation reports them (answer of `update_data_model`)
    pub engine_flag: [bool; 2],
    /// largest rowid of `_node` when the case started
    pub base_slot: i64,
    /// the versions of each row as written at this site since the row holds its slot
    pub hist: BTreeMap<u64, Vec<Ver>>,
    pub slot_of: BTreeMap<u64, i64>,
    /// the version histories of the former holders of a slot, oldest first
    pub slot_prev: HashMap<i64, Vec<Vec<Ver>>>,
}

#[allow(dead_code)]
pub struct World {
    pub base: PathBuf,
    pub case_id: u64,
    pub sites: Vec<Site>,
    pub room: Uid,
    pub row_uid: BTreeMap<u64, (Uid, u64)>,
    pub row_of_uid: HashMap<String, u64>,
    pub words: BTreeSet<u64>,
    pub tick: i64,
    /// searches asked again after an SQL error (see `query_retry`)
    pub retries: std::cell::Cell<u64>,
}

fn site_key(case: u64, s: u64) -> Vec<u8> {
    let signature_key = derive_key(&format!("{} SIGNING_KEY", APP), &secret_of(s + 1, case));
    Ed25519SigningKey::create_from(&signature_key).export_verifying_key()
}

/// word number k -> a word of lower-case letters/digits; no word is a substring of another. Word 7 has exactly THREE
/// characters, the shortest text the property speaks of (a value that is this word alone is a three-character string)
pub fn word(k: u64) -> String {
    if k == 7 {
        return "q7z".to_string();
    }
    format!("w{}x{}", k, (b'a' + (k % 26) as u8) as char)
}

fn parse_words(words: &str) -> Option<Vec<u64>> {
    words.split('+').filter(|x| !x.is_empty()).map(|x| x.parse::<u64>().ok()).collect()
}

fn text_of(words: &[u64]) -> String {
    words.iter().map(|k| word(*k)).collect::<Vec<_>>().join(" ")
}

impl World {
    pub async fn new(base: PathBuf, case_id: u64, nsites: u64) -> Result<World, String> {
        clock::set(BASE_DAY + 3_600_000);
        let mut sites = vec![];
        for s in 0..nsites {
            let folder = base.join(format!("f{}s{}", case_id, s));
            let _ = std::fs::remove_dir_all(&folder);
            let mut inst = Inst::start(folder, secret_of(s + 1, case_id), &model_text(0), 1)
                .await
                .map_err(|e| format!("start: {}", e))?;
            inst.collect(1, 10_000).await?;
            // the flags the implementation holds for the first version (declared again: nothing changes)
            let dm = inst.svc.update_data_model(&model_text(0)).await.map_err(|e| format!("model: {}", e))?;
            sites.push(Site {
                inst,
                rows: BTreeMap::new(),
                version: 0,
                engine_flag: engine_flags(&dm).ok_or("model: flags not found")?,
                base_slot: 0,
                hist: BTreeMap::new(),
                slot_of: BTreeMap::new(),
                slot_prev: HashMap::new(),
            });
        }
        // one room, every site key admin and member with all rights; imported by the other site
        let mut p: Vec<(String, String)> = vec![];
        let mut adm = String::new();
        for i in 0..nsites {
            p.push((format!("k{}", i), discret::verif_hooks::security::base64_encode(&site_key(case_id, i))));
            adm.push_str(&format!("{}{{verif_key:$k{}}} ", if i > 0 { "," } else { "" }, i));
        }
        let q = format!(
            "mutate {{ sys.Room {{ admin:[{}] authorisations:[{{ name:\"g\" rights:[{{entity:\"*\" mutate_self:true mutate_all:true}}] users:[{}] }}] }} }}",
            adm, adm
        );
        let pr: Vec<(&str, String)> = p.iter().map(|(k, v)| (k.as_str(), v.clone())).collect();
        let mq = sites[0].inst.svc.mutate_raw(&q, Some(params(&pr))).await.map_err(|e| e.to_string())?;
        let room = mq.mutate_entities[0].node_to_mutate.id;
        let mut w = World {
            base,
            case_id,
            sites,
            room,
            row_uid: BTreeMap::new(),
            row_of_uid: HashMap::new(),
            words: BTreeSet::new(),
            tick: 0,
            retries: std::cell::Cell::new(0),
        };
        w.step_clock();
        if nsites == 2 {
            let (src, dst) = (w.sites[0].inst.svc.clone(), w.sites[1].inst.svc.clone());
            let (st, _, _) = pull_room(&src, &dst, room).await;
            if st != "ok" {
                return Err(format!("room import: {}", st));
            }
        }
        for s in 0..w.sites.len() {
            w.sites[s].base_slot = w.sites[s]
                .inst
                .read(|conn| conn.query_row("SELECT ifnull(max(rowid),0) FROM _node", [], |r| r.get::<_, i64>(0)).unwrap_or(0))
                .await;
        }
        Ok(w)
    }

    pub fn cleanup(&mut self) {
        let folders: Vec<PathBuf> = self.sites.iter().map(|s| s.inst.folder.clone()).collect();
        self.sites.clear();
        for f in folders {
            let _ = std::fs::remove_dir_all(f);
        }
    }

    fn step_clock(&mut self) {
        self.tick += 1;
        clock::set(BASE_DAY + 3_600_000 + self.tick * 1000);
    }

    fn note_words(&mut self, words: &[u64]) {
        for x in words {
            self.words.insert(*x);
        }
    }

    fn indexed_now(&self, s: usize, e: u64) -> bool {
        let v = self.sites[s].version;
        if e == 0 {
            v & 1 == 0
        } else {
            v & 2 == 2
        }
    }

    /// a read through the real query path. Under heavy machine load a search that runs while the writer commits
    /// the daily-log pass of the previous mutation now and then fails with SQLITE_CORRUPT_VTAB ("database disk image
    /// is malformed") and succeeds when asked again: such an answer is not a result set, the question is asked again
    /// (twice at most) and the event is counted (`search_retried_after_sql_error` in the evidence counters).
    async fn query_retry(&self, s: usize, q: &str, p: Option<Vec<(&str, String)>>) -> Result<String, String> {
        let mut last = String::new();
        for attempt in 0..3 {
            let pr = p.as_ref().map(|p| params(p));
            match self.sites[s].inst.svc.query(q, pr).await {
                Ok(r) => return Ok(r),
                Err(e) => {
                    eprintln!("# query error (attempt {}): {:?}", attempt, e);
                    last = class(&e);
                    if last != "sql" {
                        break;
                    }
                    self.retries.set(self.retries.get() + 1);
                    tokio::time::sleep(std::time::Duration::from_millis(50)).await;
                }
            }
        }
        Err(last)
    }

    /// the search itself (the real query path) and the independent expectation
    async fn search(&self, s: usize, e: u64, t: u64) -> Result<(Vec<u64>, Vec<u64>), String> {
        let t = &word(t);
        let name = ENT_NAMES[e as usize];
        let q = format!("query {{ {}(search($t)) {{ id txt tag }} }}", name).replace(" tag", if e == 0 { " tag" } else { "" });
        let res = self.query_retry(s, &q, Some(vec![("t", t.to_string())])).await?;
        let v: serde_json::Value = serde_json::from_str(&res).map_err(|e| e.to_string())?;
        let mut hits = vec![];
        for row in v[name].as_array().cloned().unwrap_or_default() {
            let id = row["id"].as_str().unwrap_or("").to_string();
            hits.push(self.row_of_uid.get(&id).copied().unwrap_or(u64::MAX));
        }
        hits.sort();
        // expectation: every row of the entity (plain query, no search) whose current text fields contain t
        let q2 = format!("query {{ {} {{ id txt tag }} }}", name).replace(" tag", if e == 0 { " tag" } else { "" });
        let res = self.query_retry(s, &q2, None).await?;
        let v: serde_json::Value = serde_json::from_str(&res).map_err(|e| e.to_string())?;
        let mut expect = vec![];
        for row in v[name].as_array().cloned().unwrap_or_default() {
            let id = row["id"].as_str().unwrap_or("").to_string();
            let has = ["txt", "tag"].iter().any(|f| row[*f].as_str().map(|x| x.contains(t)).unwrap_or(false));
            if has {
                expect.push(self.row_of_uid.get(&id).copied().unwrap_or(u64::MAX));
            }
        }
        expect.sort();
        Ok((hits, expect))
    }

    /// the nested search (real query path) and the independent expectation: per parent, the children reached
    /// through `kids` whose current text contains the word (plain query, no search)
    async fn nested(&self, s: usize, t: u64) -> Result<(Vec<(u64, Vec<u64>)>, Vec<(u64, Vec<u64>)>), String> {
        let w = &word(t);
        let num = |v: &serde_json::Value| self.row_of_uid.get(v["id"].as_str().unwrap_or("")).copied().unwrap_or(u64::MAX);
        let q = "query { Doc { id kids(search($t)) { id } } }";
        let res = self.query_retry(s, q, Some(vec![("t", w.to_string())])).await?;
        let v: serde_json::Value = serde_json::from_str(&res).map_err(|e| e.to_string())?;
        let mut hits = vec![];
        for p in v["Doc"].as_array().cloned().unwrap_or_default() {
            let mut cs: Vec<u64> = p["kids"].as_array().cloned().unwrap_or_default().iter().map(|c| num(c)).collect();
            cs.sort();
            if !cs.is_empty() {
                hits.push((num(&p), cs));
            }
        }
        hits.sort();
        let q2 = "query { Doc(nullable(kids)) { id kids { id txt tag } } }";
        let res = self.query_retry(s, q2, None).await?;
        let v: serde_json::Value = serde_json::from_str(&res).map_err(|e| e.to_string())?;
        let mut expect = vec![];
        for p in v["Doc"].as_array().cloned().unwrap_or_default() {
            let mut cs: Vec<u64> = p["kids"]
                .as_array()
                .cloned()
                .unwrap_or_default()
                .iter()
                .filter(|c| ["txt", "tag"].iter().any(|f| c[*f].as_str().map(|x| x.contains(w.as_str())).unwrap_or(false)))
                .map(|c| num(c))
                .collect();
            cs.sort();
            if !cs.is_empty() {
                expect.push((num(&p), cs));
            }
        }
        expect.sort();
        Ok((hits, expect))
    }

    /// oracle of a nested search: per parent, the children returned must be the children whose text matches; a
    /// difference that a known index defect of the child explains keeps that defect's signature
    fn classify_nested(&self, s: usize, t: u64, hits: &[(u64, Vec<u64>)], expect: &[(u64, Vec<u64>)]) -> Vec<(String, String)> {
        let mut parents: BTreeSet<u64> = hits.iter().map(|x| x.0).collect();
        parents.extend(expect.iter().map(|x| x.0));
        let mut res = vec![];
        for p in parents {
            let h = hits.iter().find(|x| x.0 == p).map(|x| x.1.clone()).unwrap_or_default();
            let e = expect.iter().find(|x| x.0 == p).map(|x| x.1.clone()).unwrap_or_default();
            for (sig, detail) in self.classify(s, 0, t, &h, &e) {
                let sig = match sig.as_str() {
                    "stale-hit" => "nested-search-returns-child-whose-text-does-not-match".to_string(),
                    "missed-row" => "nested-search-misses-matching-child".to_string(),
                    _ => sig,
                };
                res.push((sig, format!("nested search under parent {}: {}", p, detail)));
            }
        }
        res
    }

    /// names a word found for a row (or a former holder of its slot) that no longer has it: the write that
    /// should have removed it. The second component tells whether the word can have been indexed by these versions
    /// at all (one of the consecutive versions that had it was written with the index on).
    fn name_stale(hist: &[Ver], t: u64, former: bool) -> Option<(&'static str, bool)> {
        let i = hist.iter().rposition(|v| v.words.contains(&t))?;
        let run_start = hist[..=i].iter().rposition(|v| !v.words.contains(&t)).map(|k| k + 1).unwrap_or(0);
        let indexed = hist[run_start..=i].iter().any(|v| matches!(v.how, How::LocalOn | How::IngestedOn));
        if i + 1 == hist.len() {
            // the last text of a former holder of the slot: its deletion left it
            return if former { Some(("stale-hit-through-reused-slot", indexed)) } else { None };
        }
        Some((
            match hist[i + 1].how {
                How::IngestedOn => "stale-hit-after-synchronised-update",
                How::LocalOff | How::IngestedOff => "stale-hit-after-write-while-index-off",
                How::LocalOn => "stale-hit",
            },
            indexed,
        ))
    }

    fn classify(&self, s: usize, e: u64, t: u64, hits: &[u64], expect: &[u64]) -> Vec<(String, String)> {
        let mut res = vec![];
        let site = &self.sites[s];
        let word = &word(t);
        for n in hits.iter().filter(|n| !expect.contains(n)) {
            // the entry stems from an earlier text of the row itself, or from a former holder of its slot: the
            // explanation in which the word was really indexed wins, the row's own history first
            let own = site.hist.get(n).and_then(|h| Self::name_stale(h, t, false));
            let former: Vec<(&'static str, bool)> = site
                .slot_of
                .get(n)
                .and_then(|slot| site.slot_prev.get(slot))
                .map(|prev| prev.iter().rev().filter_map(|h| Self::name_stale(h, t, true)).collect())
                .unwrap_or_default();
            let sig = own
                .filter(|x| x.1)
                .or_else(|| former.iter().find(|x| x.1).copied())
                .or(own)
                .or_else(|| former.first().copied())
                .map(|x| x.0)
                .unwrap_or("stale-hit");
            res.push((sig.to_string(), format!("site {} entity {} search '{}' returned row {} whose current text does not contain it", s, e, word, n)));
        }
        for n in expect.iter().filter(|n| !hits.contains(n)) {
            let sig = if !site.engine_flag[e as usize] {
                // the model version in force declares an index, the flag the implementation reports is still off
                "index-enabled-by-model-update-ignored"
            } else {
                match site.hist.get(n).and_then(|h| h.last().map(|v| (v.how, h.len()))) {
                    Some((How::IngestedOn, 1)) => "synchronised-row-missed",
                    Some((How::IngestedOn, _)) => "synchronised-update-missed",
                    Some((How::LocalOff, _)) | Some((How::IngestedOff, _)) => "written-while-index-off-missed",
                    _ => "missed-row",
                }
            };
            res.push((sig.to_string(), format!("site {} entity {} search '{}' misses row {} whose current text contains it", s, e, word, n)));
        }
        res
    }

    /// a search that does not answer (after `query_retry`): SQLite refuses the query when it meets an index entry
    /// whose document record is gone — the state a 'delete' for other text than the indexed one leaves
    fn failed_search(s: usize, t: u64, class: &str) -> (String, String) {
        let sig = if class == "sql" { "search-fails-on-entry-without-document" } else { "search-fails" };
        (sig.to_string(), format!("site {} search '{}' fails: {}", s, word(t), class))
    }

    fn how_local(&self, s: usize, e: u64) -> How {
        if self.sites[s].engine_flag[e as usize] {
            How::LocalOn
        } else {
            How::LocalOff
        }
    }

    /// a row leaves its slot (deletion, locally or through a synchronised deletion record)
    fn forget_row(&mut self, s: usize, n: u64) {
        let site = &mut self.sites[s];
        let hist = site.hist.remove(&n).unwrap_or_default();
        if let Some(slot) = site.slot_of.remove(&n) {
            site.slot_prev.entry(slot).or_default().push(hist);
        }
    }

    pub async fn op(&mut self, kind: &str, kv: &Kv, stats: &mut Stats, oracle: &mut Vec<(String, String)>) -> String {
        if kind == "xj" {
            // the real `extract_json` on the value (spaces travel as `+`)
            stats.inc("op.xj");
            let j = match kv.get("j") {
                Some(j) => j.replace('+', " "),
                None => return "bad-op".into(),
            };
            let val: serde_json::Value = match serde_json::from_str(&j) {
                Ok(v) => v,
                Err(_) => return "bad-op".into(),
            };
            let mut buff = String::new();
            if let Err(e) = discret::verif_hooks::database::node::extract_json(&val, &mut buff) {
                return format!("err:{}", class(&e));
            }
            if !buff.is_empty() {
                stats.inc("extractions_with_text");
            }
            return format!("text {}", buff.replace(' ', "+")).trim_end().to_string();
        }
        let s = match get_u(kv, "s") {
            Some(s) if (s as usize) < self.sites.len() => s as usize,
            Some(_) => return "skip".into(),
            None => return "bad-op".into(),
        };
        match kind {
            "model" => {
                let v = match get_u(kv, "v") {
                    Some(v) if v < 4 => v,
                    _ => return "bad-op".into(),
                };
                stats.inc("op.model");
                match self.sites[s].inst.svc.update_data_model(&model_text(v)).await {
                    Ok(dm) => {
                        self.sites[s].version = v;
                        match engine_flags(&dm) {
                            Some(f) => {
                                self.sites[s].engine_flag = f;
                                "ok".into()
                            }
                            None => "err:flags-not-found".into(),
                        }
                    }
                    Err(e) => format!("err:{}", class(&e)),
                }
            }
            "new" | "newx" => {
                let (n, e) = match (get_u(kv, "n"), get_u(kv, "e")) {
                    (Some(n), Some(e)) if e < 2 => (n, e),
                    _ => return "bad-op".into(),
                };
                if parse_words(kv.get("w").map(|x| x.as_str()).unwrap_or("")).is_none() {
                    return "bad-op".into();
                }
                if self.row_uid.contains_key(&n) {
                    return "skip".into();
                }
                let words = match parse_words(kv.get("w").map(|x| x.as_str()).unwrap_or("")) {
                    Some(w) => w,
                    None => return "bad-op".into(),
                };
                self.note_words(&words);
                // `newx`: a row created without any text field (with two sites: an empty text, like `clr`)
                let (q, p) = if kind == "newx" && self.sites.len() == 1 {
                    (format!("mutate {{ {} {{ room_id:$r }} }}", ENT_NAMES[e as usize]), params(&[("r", b64(&self.room))]))
                } else {
                    (
                        format!("mutate {{ {} {{ room_id:$r txt:$t }} }}", ENT_NAMES[e as usize]),
                        params(&[("r", b64(&self.room)), ("t", text_of(&words))]),
                    )
                };
                stats.inc(&format!("op.{}", kind));
                let r = match self.sites[s].inst.svc.mutate_raw(&q, Some(p)).await {
                    Ok(mq) => {
                        let id = mq.mutate_entities[0].node_to_mutate.id;
                        self.row_uid.insert(n, (id, e));
                        self.row_of_uid.insert(b64(&id), n);
                        self.sites[s].rows.insert(n, (id, e));
                        let how = self.how_local(s, e);
                        let slot = self.versions(s).await.get(&b64(&id)).map(|x| x.1).unwrap_or(-1);
                        self.sites[s].slot_of.insert(n, slot);
                        self.sites[s].hist.insert(n, vec![Ver { words: if kind == "newx" { vec![] } else { words.clone() }, how }]);
                        "ok".to_string()
                    }
                    Err(e) => format!("err:{}", class(&e)),
                };
                self.step_clock();
                r
            }
            "upd" | "clr" => {
                let n = match get_u(kv, "n") {
                    Some(n) => n,
                    None => return "bad-op".into(),
                };
                if kind == "upd" && parse_words(kv.get("w").map(|x| x.as_str()).unwrap_or("")).is_none() {
                    return "bad-op".into();
                }
                let (id, e) = match self.sites[s].rows.get(&n) {
                    Some(x) => *x,
                    None => return "skip".into(),
                };
                let mut new_words = vec![];
                let (q, p) = if kind == "upd" {
                    let words = parse_words(kv.get("w").map(|x| x.as_str()).unwrap_or("")).unwrap_or_default();
                    self.note_words(&words);
                    new_words = words.clone();
                    (
                        format!("mutate {{ {} {{ id:$id txt:$t }} }}", ENT_NAMES[e as usize]),
                        params(&[("id", b64(&id)), ("t", text_of(&words))]),
                    )
                } else {
                    // an explicit null is refused by the ingestion of a peer (another property's finding): with two
                    // sites the text is emptied instead of removed
                    let v = if self.sites.len() == 1 { "null" } else { "\"\"" };
                    (format!("mutate {{ {} {{ id:$id txt:{} }} }}", ENT_NAMES[e as usize], v), params(&[("id", b64(&id))]))
                };
                stats.inc(&format!("op.{}", kind));
                let r = match self.sites[s].inst.svc.mutate_raw(&q, Some(p)).await {
                    Ok(_) => {
                        let how = self.how_local(s, e);
                        self.sites[s].hist.entry(n).or_default().push(Ver { words: new_words, how });
                        "ok".to_string()
                    }
                    Err(e) => format!("err:{}", class(&e)),
                };
                self.step_clock();
                r
            }
            "del" => {
                let n = match get_u(kv, "n") {
                    Some(n) => n,
                    None => return "bad-op".into(),
                };
                let (id, e) = match self.sites[s].rows.get(&n) {
                    Some(x) => *x,
                    None => return "skip".into(),
                };
                stats.inc("op.del");
                let q = format!("delete {{ {} {{ $id }} }}", ENT_NAMES[e as usize]);
                let r = match self.sites[s].inst.svc.delete(&q, Some(params(&[("id", b64(&id))]))).await {
                    Ok(_) => {
                        self.sites[s].rows.remove(&n);
                        self.forget_row(s, n);
                        "ok".to_string()
                    }
                    Err(e) => format!("err:{}", class(&e)),
                };
                self.step_clock();
                r
            }
            "pull" => {
                let t = match get_u(kv, "from") {
                    Some(t) => t as usize,
                    None => return "bad-op".into(),
                };
                if t >= self.sites.len() || t == s {
                    return "skip".into();
                }
                stats.inc("op.pull");
                // versions before, to tell inserts from updates afterwards
                let before = self.versions(s).await;
                let (src, dst) = (self.sites[t].inst.svc.clone(), self.sites[s].inst.svc.clone());
                let (st, _, _) = pull_room(&src, &dst, self.room).await;
                let after = self.versions(s).await;
                let known: Vec<(u64, (Uid, u64))> = self.row_uid.iter().map(|(n, v)| (*n, *v)).collect();
                let mut rows = BTreeMap::new();
                for (n, (id, e)) in known {
                    let (b, a) = (before.get(&b64(&id)).copied(), after.get(&b64(&id)).copied());
                    // the version the source holds is the one that is written
                    let incoming = Ver {
                        words: self.sites[t].hist.get(&n).and_then(|h| h.last()).map(|v| v.words.clone()).unwrap_or_default(),
                        how: if self.sites[s].engine_flag[e as usize] { How::IngestedOn } else { How::IngestedOff },
                    };
                    match (b, a) {
                        (Some(b), Some(a)) if b.1 == a.1 => {
                            rows.insert(n, (id, e));
                            if b.0 != a.0 {
                                self.sites[s].hist.entry(n).or_default().push(incoming);
                            }
                        }
                        (b, Some(a)) => {
                            // new here, or removed by a deletion record and fetched again (another slot): an ingested insert
                            rows.insert(n, (id, e));
                            if b.is_some() {
                                self.forget_row(s, n);
                            }
                            self.sites[s].slot_of.insert(n, a.1);
                            self.sites[s].hist.insert(n, vec![incoming]);
                        }
                        (Some(_), None) => self.forget_row(s, n),
                        (None, None) => {}
                    }
                }
                self.sites[s].rows = rows;
                self.step_clock();
                st
            }
            "link" => {
                let (n, m) = match (get_u(kv, "n"), get_u(kv, "m")) {
                    (Some(n), Some(m)) => (n, m),
                    _ => return "bad-op".into(),
                };
                if self.sites.len() != 1 || n == m {
                    return "skip".into();
                }
                let (a, b) = match (self.sites[s].rows.get(&n), self.sites[s].rows.get(&m)) {
                    (Some(a), Some(b)) if a.1 == 0 && b.1 == 0 => (a.0, b.0),
                    _ => return "skip".into(),
                };
                stats.inc("op.link");
                let q = "mutate { Doc { id:$id kids:[{id:$m}] } }";
                let r = match self.sites[s].inst.svc.mutate_raw(q, Some(params(&[("id", b64(&a)), ("m", b64(&b))]))).await {
                    Ok(mq) => {
                        // a new reference rewrites the parent (same text)
                        if mq.mutate_entities[0].node_to_mutate.node.is_some() {
                            let how = self.how_local(s, 0);
                            let words = self.sites[s].hist.get(&n).and_then(|h| h.last()).map(|v| v.words.clone()).unwrap_or_default();
                            self.sites[s].hist.entry(n).or_default().push(Ver { words, how });
                        }
                        "ok".to_string()
                    }
                    Err(e) => format!("err:{}", class(&e)),
                };
                self.step_clock();
                r
            }
            "qn" => {
                let t = match get_u(kv, "t") {
                    Some(t) => t,
                    None => return "bad-op".into(),
                };
                if self.sites.len() != 1 {
                    return "skip".into();
                }
                stats.inc("op.qn");
                match self.nested(s, t).await {
                    Ok((hits, expect)) => {
                        if self.indexed_now(s, 0) {
                            oracle.extend(self.classify_nested(s, t, &hits, &expect));
                        }
                        if !hits.is_empty() {
                            stats.inc("nested_searches_with_hits");
                        }
                        format!("nhits {}", fmt_nested(&hits)).trim_end().to_string()
                    }
                    Err(e) => {
                        oracle.push(Self::failed_search(s, t, &e));
                        format!("err:{}", e)
                    }
                }
            }
            "qnall" => {
                if self.sites.len() != 1 {
                    return "skip".into();
                }
                stats.inc("op.qnall");
                let words: Vec<u64> = self.words.iter().copied().collect();
                let mut parts = vec![];
                for t in words {
                    match self.nested(s, t).await {
                        Ok((hits, expect)) => {
                            stats.inc("nested_searches");
                            if self.indexed_now(s, 0) {
                                oracle.extend(self.classify_nested(s, t, &hits, &expect));
                            }
                            if !hits.is_empty() {
                                stats.inc("nested_searches_with_hits");
                                parts.push(format!("{}={}", t, fmt_nested(&hits).replace(';', "/")));
                            }
                        }
                        Err(er) => {
                            oracle.push(Self::failed_search(s, t, &er));
                            parts.push(format!("{}=err:{}", t, er))
                        }
                    }
                }
                format!("nall {}", parts.join(";")).trim_end().to_string()
            }
            "q" => {
                let (e, t) = match (get_u(kv, "e"), get_u(kv, "t")) {
                    (Some(e), Some(t)) if e < 2 => (e, t),
                    _ => return "bad-op".into(),
                };
                stats.inc("op.q");
                match self.search(s, e, t).await {
                    Ok((hits, expect)) => {
                        if self.indexed_now(s, e) {
                            oracle.extend(self.classify(s, e, t, &hits, &expect));
                        }
                        if !hits.is_empty() {
                            stats.inc("searches_with_hits");
                        }
                        format!("hits {}", hits.iter().map(|x| x.to_string()).collect::<Vec<_>>().join(","))
                            .trim_end()
                            .to_string()
                    }
                    Err(e) => {
                        oracle.push(Self::failed_search(s, t, &e));
                        format!("err:{}", e)
                    }
                }
            }
            "slots" => {
                stats.inc("op.slots");
                let base = self.sites[s].base_slot;
                let vs = self.versions(s).await;
                let parts: Vec<String> = self.sites[s]
                    .rows
                    .iter()
                    .filter_map(|(n, (id, _))| vs.get(&b64(id)).map(|v| format!("{}:{}", n, v.1 - base)))
                    .collect();
                format!("slots {}", parts.join(",")).trim_end().to_string()
            }
            "docs" => {
                stats.inc("op.docs");
                let base = self.sites[s].base_slot;
                let ids: Vec<i64> = self.sites[s]
                    .inst
                    .read(move |conn| {
                        let mut stmt = conn.prepare("SELECT id FROM _node_fts_docsize WHERE id > ? ORDER BY id").unwrap();
                        let rows = stmt.query_map([base], |r| r.get::<_, i64>(0)).unwrap();
                        rows.filter_map(|x| x.ok()).collect()
                    })
                    .await;
                format!("docs {}", ids.iter().map(|x| (x - base).to_string()).collect::<Vec<_>>().join(",")).trim_end().to_string()
            }
            "qall" => {
                stats.inc("op.qall");
                let words: Vec<u64> = self.words.iter().copied().collect();
                let mut parts = vec![];
                for e in 0..2u64 {
                    for t in &words {
                        let t = *t;
                        match self.search(s, e, t).await {
                            Ok((hits, expect)) => {
                                stats.inc("searches");
                                if self.indexed_now(s, e) {
                                    oracle.extend(self.classify(s, e, t, &hits, &expect));
                                }
                                if !hits.is_empty() {
                                    stats.inc("searches_with_hits");
                                    parts.push(format!(
                                        "{}:{}:{}",
                                        e,
                                        t,
                                        hits.iter().map(|x| x.to_string()).collect::<Vec<_>>().join(",")
                                    ));
                                }
                            }
                            Err(er) => {
                                oracle.push(Self::failed_search(s, t, &er));
                                parts.push(format!("{}:{}:err:{}", e, t, er))
                            }
                        }
                    }
                }
                format!("all {}", parts.join(";")).trim_end().to_string()
            }
            _ => "bad-op".into(),
        }
    }

    /// id -> (mdate, storage slot) of every row of the room at a site
    async fn versions(&self, s: usize) -> HashMap<String, (i64, i64)> {
        self.sites[s]
            .inst
            .read(|conn| {
                let mut res = HashMap::new();
                let mut stmt = conn.prepare("SELECT id, mdate, rowid FROM _node WHERE room_id IS NOT NULL").unwrap();
                let mut rows = stmt.query([]).unwrap();
                while let Some(r) = rows.next().unwrap() {
                    let id: Vec<u8> = r.get(0).unwrap();
                    let m: i64 = r.get(1).unwrap();
                    let slot: i64 = r.get(2).unwrap();
                    if id.len() == 16 {
                        let mut u = [0u8; 16];
                        u.copy_from_slice(&id);
                        res.insert(b64(&u), (m, slot));
                    }
                }
                res
            })
            .await
    }
}

/// `enable_full_text` of `Doc` and `Note` in the serialized data model the implementation answers with
pub fn engine_flags(dm: &str) -> Option<[bool; 2]> {
    fn find(v: &serde_json::Value, name: &str) -> Option<bool> {
        match v {
            serde_json::Value::Object(m) => {
                if m.get("name").and_then(|x| x.as_str()) == Some(name) {
                    if let Some(b) = m.get("enable_full_text").and_then(|x| x.as_bool()) {
                        return Some(b);
                    }
                }
                m.values().find_map(|x| find(x, name))
            }
            serde_json::Value::Array(a) => a.iter().find_map(|x| find(x, name)),
            _ => None,
        }
    }
    let v: serde_json::Value = serde_json::from_str(dm).ok()?;
    Some([find(&v, ENT_NAMES[0])?, find(&v, ENT_NAMES[1])?])
}

/// a random JSON value for `xj` (no spaces: `+` stands for one): strings of words at any depth, numbers, booleans,
/// null, arrays, objects whose keys come unsorted and sometimes twice
fn gen_json(g: &mut Gen, depth: usize) -> String {
    let k = if depth == 0 { g.below(5) } else { g.below(7) };
    match k {
        0 | 1 => {
            let n = g.below(3);
            let ws: Vec<String> = (0..n).map(|_| word(g.below(8) as u64)).collect();
            format!("\"{}\"", ws.join("+"))
        }
        2 => format!("{}", g.range(-50, 500)),
        3 => (if g.chance(1, 2) { "true" } else { "false" }).to_string(),
        4 => "null".to_string(),
        5 => {
            let n = g.below(4);
            let items: Vec<String> = (0..n).map(|_| gen_json(g, depth - 1)).collect();
            format!("[{}]", items.join(","))
        }
        _ => {
            let n = g.below(4);
            let keys = ["b", "a", "ab", "c", "32", "4"];
            let items: Vec<String> = (0..n).map(|_| format!("\"{}\":{}", g.pick(&keys), gen_json(g, depth - 1))).collect();
            format!("{{{}}}", items.join(","))
        }
    }
}

fn fmt_nested(v: &[(u64, Vec<u64>)]) -> String {
    v.iter()
        .map(|(p, cs)| format!("{}:{}", p, cs.iter().map(|x| x.to_string()).collect::<Vec<_>>().join(",")))
        .collect::<Vec<_>>()
        .join(";")
}

pub fn gen_fts(seed: u64, n: usize, len: usize, out: &str) {
    let mut g = Gen::new(seed);
    let mut w = BufWriter::new(std::fs::File::create(out).unwrap());
    let vocab: Vec<u64> = (0..8).collect();
    for id in 0..n {
        let sites = if g.chance(1, 2) { 2 } else { 1 };
        writeln!(w, "case id={} eng=fts sites={}", id, sites).unwrap();
        let mut rows: Vec<Vec<u64>> = vec![vec![]; sites];
        let mut next_row = 1u64;
        let l = 5 + g.below(len);
        let words = |g: &mut Gen| -> String {
            let k = g.below(4);
            let mut v = vec![];
            for _ in 0..k {
                v.push(g.pick(&vocab).to_string());
            }
            v.join("+")
        };
        for _ in 0..l {
            let s = g.below(sites);
            match g.weighted(&[6, 5, 3, 4, if sites == 2 { 4 } else { 0 }, 3, 2, 2, if sites == 1 { 9 } else { 0 }, if sites == 1 { 3 } else { 0 }, 3]) {
                0 => {
                    let e = if g.chance(3, 4) { 0 } else { 1 };
                    writeln!(w, "new s={} n={} e={} w={}", s, next_row, e, words(&mut g)).unwrap();
                    rows[s].push(next_row);
                    next_row += 1;
                }
                1 => {
                    if !rows[s].is_empty() {
                        let n = *g.pick(&rows[s]);
                        writeln!(w, "upd s={} n={} w={}", s, n, words(&mut g)).unwrap();
                    }
                }
                2 => {
                    // all text removed; often followed by a search for what it was, then by new text and a search for it
                    if !rows[s].is_empty() {
                        let n = *g.pick(&rows[s]);
                        writeln!(w, "clr s={} n={}", s, n).unwrap();
                        if g.chance(1, 2) {
                            writeln!(w, "qall s={}", s).unwrap();
                        }
                        if g.chance(2, 3) {
                            writeln!(w, "upd s={} n={} w={}", s, n, words(&mut g)).unwrap();
                            writeln!(w, "qall s={}", s).unwrap();
                        }
                    }
                }
                10 => {
                    // a row without any text, that gets text later
                    let e = if g.chance(3, 4) { 0 } else { 1 };
                    writeln!(w, "newx s={} n={} e={}", s, next_row, e).unwrap();
                    rows[s].push(next_row);
                    if g.chance(2, 3) {
                        let t = g.pick(&vocab).to_string();
                        writeln!(w, "upd s={} n={} w={}", s, next_row, t).unwrap();
                        writeln!(w, "q s={} e={} t={}", s, e, t).unwrap();
                    }
                    next_row += 1;
                }
                3 => {
                    if !rows[s].is_empty() {
                        // bias: delete the most recent row (highest slot), then create
                        let n = if g.chance(2, 3) { *rows[s].last().unwrap() } else { *g.pick(&rows[s]) };
                        writeln!(w, "del s={} n={}", s, n).unwrap();
                        rows[s].retain(|x| *x != n);
                        if g.chance(2, 3) {
                            writeln!(w, "new s={} n={} e=0 w={}", s, next_row, words(&mut g)).unwrap();
                            rows[s].push(next_row);
                            next_row += 1;
                        }
                    }
                }
                4 => {
                    let t = 1 - s;
                    writeln!(w, "pull s={} from={}", s, t).unwrap();
                    let add: Vec<u64> = rows[t].iter().filter(|x| !rows[s].contains(x)).copied().collect();
                    rows[s].extend(add);
                }
                5 => writeln!(w, "q s={} e={} t={}", s, g.below(2), g.pick(&vocab)).unwrap(),
                6 => writeln!(w, "model s={} v={}", s, g.below(4)).unwrap(),
                8 => {
                    // a reference between two rows (parent and child texts are drawn independently)
                    if rows[s].len() >= 2 {
                        let a = *g.pick(&rows[s]);
                        let b = *g.pick(&rows[s]);
                        writeln!(w, "link s={} n={} m={}", s, a, b).unwrap();
                    }
                }
                9 => writeln!(w, "qn s={} t={}", s, g.pick(&vocab)).unwrap(),
                7 if g.chance(1, 2) => {
                    writeln!(w, "slots s={}", s).unwrap();
                    writeln!(w, "docs s={}", s).unwrap();
                }
                _ => writeln!(w, "qall s={}", s).unwrap(),
            }
        }
        for s in 0..sites {
            writeln!(w, "qall s={}", s).unwrap();
            writeln!(w, "slots s={}", s).unwrap();
            writeln!(w, "docs s={}", s).unwrap();
        }
        if sites == 1 {
            writeln!(w, "qnall s=0").unwrap();
        }
        for _ in 0..2 {
            writeln!(w, "xj j={}", gen_json(&mut g, 3)).unwrap();
        }
    }
    w.flush().unwrap();
}
