//! C17 — placeholder (filled in after C18).
pub fn gen_fts(_seed: u64, _n: usize, _len: usize, _out: &str) {
    unimplemented!()
}
