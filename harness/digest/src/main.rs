//! Engine `digest` (C06): drives the REAL `sign` / `verify` of `Node`, `Edge`, `NodeDeletionEntry`,
//! `EdgeDeletionEntry`, and the real `ProveIdentity` request of a running instance.
//!
//!   dv-digest gen        --seed S --n N --out FILE            pairs (r1 signed, signature moved to r2)
//!   dv-digest gen-oracle --seed S --n N --out FILE            signing-request stream
//!   dv-digest run        --ops FILE --out FILE [--stats FILE]
//!
//! Op file (shared with the Lean driver `dmodel_digest`), one case per op:
//!   case id=<n>
//!   pair cat=<c> ka=<kind> kb=<kind> signer=<i> spk=<hex> ajson=<0|1> bjson=<0|1> a.<field>=<v>… b.<field>=<v>…
//!        the real code signs row a with key i, the signature is put on row b, real verify() of b is observed
//!   oracle cat=<c> mode=<digest|bytes> ch=<hex> me=<hex> kb=<kind> bjson=<0|1> b.<field>=<v>…
//!        `ch` (mode bytes) or the real digest of b (mode digest) is submitted to the instance as
//!        `Query::ProveIdentity`; the returned signature is put on b; real verify() of b is observed
//!   invite cat=<c> app=<hex> me=<hex> kb=<kind> bjson=<0|1> b.<field>=<v>…
//!        the instance creates an invitation for application `app`; its signature is tried on b
//! values: bytes = lowercase hex (may be empty), optional = `-` or hex, dates = decimal i64.
//! Observation: accept | reject | pre:<class> | panic | sign-err:<class>   (invite: `invite <outcome>`)
use discret::verif_hooks::configuration::Configuration;
use discret::verif_hooks::database::edge::{Edge, EdgeDeletionEntry};
use discret::verif_hooks::database::graph_database::GraphDatabaseService;
use discret::verif_hooks::database::node::{Node, NodeDeletionEntry};
use discret::verif_hooks::database::system_entities::Invite;
use discret::verif_hooks::database::Error as DbError;
use discret::verif_hooks::event_service::EventService;
use discret::verif_hooks::signature_verification_service::SignatureVerificationService;
use discret::verif_hooks::security::{
    self, base64_encode, Ed25519SigningKey, HardwareFingerprint, SigningKey, VerifyingKey,
};
use discret::verif_hooks::synchronisation::peer_outbound_service::{
    InboundQueryService, RemotePeerHandle,
};
use discret::verif_hooks::synchronisation::{Answer, IdentityAnswer, Query, QueryProtocol};
use dvcommon::{parse_kv, Args, Gen, Stats};
use std::collections::{HashMap, HashSet};
use std::io::{BufRead, BufWriter, Write};
use std::path::PathBuf;
use std::sync::atomic::AtomicBool;
use std::sync::{Arc, Mutex as StdMutex};
use tokio::sync::{mpsc, Mutex};

// ------------------------------------------------------------------------------------------ helpers

fn hex(b: &[u8]) -> String {
    let mut s = String::with_capacity(b.len() * 2);
    for x in b {
        s.push_str(&format!("{:02x}", x));
    }
    s
}
fn unhex(s: &str) -> Option<Vec<u8>> {
    if s.len() % 2 != 0 {
        return None;
    }
    let b = s.as_bytes();
    let mut v = Vec::with_capacity(s.len() / 2);
    for i in (0..b.len()).step_by(2) {
        let h = (b[i] as char).to_digit(16)?;
        let l = (b[i + 1] as char).to_digit(16)?;
        v.push((h * 16 + l) as u8);
    }
    Some(v)
}
fn uid_of(v: Vec<u8>) -> Option<[u8; 16]> {
    v.try_into().ok()
}

/// the harness-held identities: deterministic key pairs
fn keypair(i: usize) -> Ed25519SigningKey {
    Ed25519SigningKey::create_from(&[(i as u8).wrapping_add(1); 32])
}
const NKEYS: usize = 4;

/// A `SigningKey` that exports somebody else's verifying key and records what it is asked to sign:
/// this is how an attacker who only knows a victim's PUBLIC key obtains, from the real `sign` code,
/// the digest of a row naming the victim as author.
struct RecordingKey {
    public: Vec<u8>,
    seen: StdMutex<Vec<Vec<u8>>>,
}
struct NoVerify;
impl VerifyingKey for NoVerify {
    fn verify(&self, _data: &[u8], _signature: &[u8]) -> Result<(), security::Error> {
        Err(security::Error::InvalidSignature("recording key".into()))
    }
}
impl SigningKey for RecordingKey {
    fn export(&self) -> Vec<u8> {
        vec![]
    }
    fn export_verifying_key(&self) -> Vec<u8> {
        self.public.clone()
    }
    fn verifying_key(&self) -> impl VerifyingKey {
        NoVerify
    }
    fn sign(&self, message: &[u8]) -> Vec<u8> {
        self.seen.lock().unwrap().push(message.to_vec());
        vec![0u8; 64]
    }
}

// ------------------------------------------------------------------------------------------ rows

#[derive(Clone, Debug, PartialEq)]
enum Row {
    Node {
        id: [u8; 16],
        room_id: Option<[u8; 16]>,
        cdate: i64,
        mdate: i64,
        entity: Vec<u8>,
        json: Option<Vec<u8>>,
        binary: Option<Vec<u8>>,
        vk: Vec<u8>,
    },
    Edge {
        src: [u8; 16],
        src_entity: Vec<u8>,
        label: Vec<u8>,
        dest: [u8; 16],
        cdate: i64,
        vk: Vec<u8>,
    },
    NodeDel {
        room_id: [u8; 16],
        id: [u8; 16],
        mdate: i64,
        entity: Vec<u8>,
        deletion_date: i64,
        vk: Vec<u8>,
    },
    EdgeDel {
        room_id: [u8; 16],
        src: [u8; 16],
        src_entity: Vec<u8>,
        label: Vec<u8>,
        dest: [u8; 16],
        cdate: i64,
        deletion_date: i64,
        vk: Vec<u8>,
    },
}

fn opt_hex(o: &Option<Vec<u8>>) -> String {
    match o {
        Some(b) => hex(b),
        None => "-".into(),
    }
}

impl Row {
    fn kind(&self) -> &'static str {
        match self {
            Row::Node { .. } => "node",
            Row::Edge { .. } => "edge",
            Row::NodeDel { .. } => "nodedel",
            Row::EdgeDel { .. } => "edgedel",
        }
    }
    fn vk_mut(&mut self) -> &mut Vec<u8> {
        match self {
            Row::Node { vk, .. } | Row::Edge { vk, .. } | Row::NodeDel { vk, .. } | Row::EdgeDel { vk, .. } => vk,
        }
    }
    /// tokens `p.<field>=<value>`; the verifying key is omitted when `with_vk` is false (row to be signed)
    fn tokens(&self, p: &str, with_vk: bool) -> String {
        let mut t: Vec<String> = vec![];
        let vk;
        match self {
            Row::Node { id, room_id, cdate, mdate, entity, json, binary, vk: k } => {
                t.push(format!("{p}.id={}", hex(id)));
                t.push(format!("{p}.room_id={}", opt_hex(&room_id.map(|r| r.to_vec()))));
                t.push(format!("{p}.cdate={}", cdate));
                t.push(format!("{p}.mdate={}", mdate));
                t.push(format!("{p}._entity={}", hex(entity)));
                t.push(format!("{p}._json={}", opt_hex(json)));
                t.push(format!("{p}._binary={}", opt_hex(binary)));
                vk = k;
            }
            Row::Edge { src, src_entity, label, dest, cdate, vk: k } => {
                t.push(format!("{p}.src={}", hex(src)));
                t.push(format!("{p}.src_entity={}", hex(src_entity)));
                t.push(format!("{p}.label={}", hex(label)));
                t.push(format!("{p}.dest={}", hex(dest)));
                t.push(format!("{p}.cdate={}", cdate));
                vk = k;
            }
            Row::NodeDel { room_id, id, mdate, entity, deletion_date, vk: k } => {
                t.push(format!("{p}.room_id={}", hex(room_id)));
                t.push(format!("{p}.id={}", hex(id)));
                t.push(format!("{p}.mdate={}", mdate));
                t.push(format!("{p}.entity={}", hex(entity)));
                t.push(format!("{p}.deletion_date={}", deletion_date));
                vk = k;
            }
            Row::EdgeDel { room_id, src, src_entity, label, dest, cdate, deletion_date, vk: k } => {
                t.push(format!("{p}.room_id={}", hex(room_id)));
                t.push(format!("{p}.src={}", hex(src)));
                t.push(format!("{p}.src_entity={}", hex(src_entity)));
                t.push(format!("{p}.label={}", hex(label)));
                t.push(format!("{p}.dest={}", hex(dest)));
                t.push(format!("{p}.cdate={}", cdate));
                t.push(format!("{p}.deletion_date={}", deletion_date));
                vk = k;
            }
        }
        if with_vk {
            t.push(format!("{p}.verifying_key={}", hex(vk)));
        }
        t.join(" ")
    }

    fn parse(kind: &str, p: &str, kv: &HashMap<String, String>, need_vk: bool) -> Option<Row> {
        let g = |f: &str| kv.get(&format!("{p}.{f}"));
        let bytes = |f: &str| g(f).and_then(|s| unhex(s));
        let uid = |f: &str| bytes(f).and_then(uid_of);
        let int = |f: &str| g(f).and_then(|s| s.parse::<i64>().ok());
        let opt = |f: &str| -> Option<Option<Vec<u8>>> {
            let s = g(f)?;
            if s == "-" {
                Some(None)
            } else {
                Some(Some(unhex(s)?))
            }
        };
        let vk = if need_vk { bytes("verifying_key")? } else { vec![] };
        Some(match kind {
            "node" => Row::Node {
                id: uid("id")?,
                room_id: match opt("room_id")? {
                    None => None,
                    Some(v) => Some(uid_of(v)?),
                },
                cdate: int("cdate")?,
                mdate: int("mdate")?,
                entity: bytes("_entity")?,
                json: opt("_json")?,
                binary: opt("_binary")?,
                vk,
            },
            "edge" => Row::Edge {
                src: uid("src")?,
                src_entity: bytes("src_entity")?,
                label: bytes("label")?,
                dest: uid("dest")?,
                cdate: int("cdate")?,
                vk,
            },
            "nodedel" => Row::NodeDel {
                room_id: uid("room_id")?,
                id: uid("id")?,
                mdate: int("mdate")?,
                entity: bytes("entity")?,
                deletion_date: int("deletion_date")?,
                vk,
            },
            "edgedel" => Row::EdgeDel {
                room_id: uid("room_id")?,
                src: uid("src")?,
                src_entity: bytes("src_entity")?,
                label: bytes("label")?,
                dest: uid("dest")?,
                cdate: int("cdate")?,
                deletion_date: int("deletion_date")?,
                vk,
            },
            _ => return None,
        })
    }
}

fn s(b: &[u8]) -> Option<String> {
    String::from_utf8(b.to_vec()).ok()
}

/// the real structs (None when a text field is not valid UTF-8: such a row cannot exist in Rust)
enum Real {
    Node(Node),
    Edge(Edge),
    NodeDel(NodeDeletionEntry),
    EdgeDel(EdgeDeletionEntry),
}

fn real_of(r: &Row, sig: Vec<u8>) -> Option<Real> {
    Some(match r {
        Row::Node { id, room_id, cdate, mdate, entity, json, binary, vk } => Real::Node(Node {
            id: *id,
            room_id: *room_id,
            cdate: *cdate,
            mdate: *mdate,
            _entity: s(entity)?,
            _json: match json {
                Some(j) => Some(s(j)?),
                None => None,
            },
            _binary: binary.clone(),
            verifying_key: vk.clone(),
            _signature: sig,
            _local_id: None,
        }),
        Row::Edge { src, src_entity, label, dest, cdate, vk } => Real::Edge(Edge {
            src: *src,
            src_entity: s(src_entity)?,
            label: s(label)?,
            dest: *dest,
            cdate: *cdate,
            verifying_key: vk.clone(),
            signature: sig,
        }),
        Row::NodeDel { room_id, id, mdate, entity, deletion_date, vk } => Real::NodeDel(NodeDeletionEntry {
            room_id: *room_id,
            id: *id,
            entity: s(entity)?,
            mdate: *mdate,
            deletion_date: *deletion_date,
            verifying_key: vk.clone(),
            signature: sig,
            entity_name: None,
        }),
        Row::EdgeDel { room_id, src, src_entity, label, dest, cdate, deletion_date, vk } => {
            Real::EdgeDel(EdgeDeletionEntry {
                room_id: *room_id,
                src: *src,
                src_entity: s(src_entity)?,
                dest: *dest,
                label: s(label)?,
                cdate: *cdate,
                deletion_date: *deletion_date,
                verifying_key: vk.clone(),
                signature: sig,
                entity_name: None,
            })
        }
    })
}

fn class(e: &DbError) -> String {
    match e {
        DbError::EmptyNodeEntity() => "pre:entity".into(),
        DbError::EmptyEdgeLabel() => "pre:label".into(),
        DbError::EdgeTooBig(_, _) => "pre:size".into(),
        DbError::InvalidNode(_) | DbError::Json(_) => "pre:json".into(),
        DbError::Cryptography(c) => match c {
            security::Error::InvalidKeyType(_) | security::Error::InvalidKeyLenght(_) => "pre:key".into(),
            security::Error::Signature(_) | security::Error::InvalidSignature(_) => "reject".into(),
            _ => "err:crypto".into(),
        },
        _ => "err:other".into(),
    }
}

/// the REAL signing code of the row's kind; returns the signature
fn real_sign(r: &Row, key: &impl SigningKey) -> Result<Vec<u8>, String> {
    let real = real_of(r, vec![]).ok_or("sign-err:utf8".to_string())?;
    match real {
        Real::Node(mut n) => n
            .sign(key)
            .map(|_| n._signature.clone())
            .map_err(|e| class(&e).replace("pre:", "sign-err:")),
        Real::Edge(mut e) => e
            .sign(key)
            .map(|_| e.signature.clone())
            .map_err(|e| class(&e).replace("pre:", "sign-err:")),
        Real::NodeDel(d) => {
            let node = Node {
                id: d.id,
                mdate: d.mdate,
                _entity: d.entity.clone(),
                ..Default::default()
            };
            Ok(NodeDeletionEntry::build(d.room_id, &node, d.deletion_date, key).signature)
        }
        Real::EdgeDel(d) => {
            let edge = Edge {
                src: d.src,
                src_entity: d.src_entity.clone(),
                label: d.label.clone(),
                dest: d.dest,
                cdate: d.cdate,
                ..Default::default()
            };
            Ok(EdgeDeletionEntry::build(d.room_id, &edge, d.deletion_date, key).signature)
        }
    }
}

/// the REAL verify() of the row's kind
fn real_verify(r: &Row, sig: Vec<u8>) -> String {
    let real = match real_of(r, sig) {
        Some(x) => x,
        None => return "bad-op".into(),
    };
    let res = std::panic::catch_unwind(std::panic::AssertUnwindSafe(|| match &real {
        Real::Node(n) => n.verify(),
        Real::Edge(e) => e.verify(),
        Real::NodeDel(d) => d.verify(),
        Real::EdgeDel(d) => d.verify(),
    }));
    match res {
        Err(_) => "panic".into(),
        Ok(Ok(())) => "accept".into(),
        Ok(Err(e)) => class(&e),
    }
}

/// The same question put to the verification SERVICE that synchronisation uses (`nodes_check` / `edges_check`), after
/// the genuine row `a` has gone through it — as it would have in an earlier synchronisation of the same process.
/// `None` when the pair is not two rows or two references.
fn service_verify(a: &Row, b: &Row, sig: Vec<u8>, signer_key: &[u8]) -> Option<String> {
    let res = std::panic::catch_unwind(std::panic::AssertUnwindSafe(|| {
        match (real_of(a, sig.clone())?, real_of(b, sig)?) {
            (Real::Node(mut na), Real::Node(nb)) => {
                na.verifying_key = signer_key.to_vec(); // what sign() wrote into the genuine row
                if SignatureVerificationService::nodes_check(vec![na]).is_err() { return None; } // a itself is not a storable row
                Some(SignatureVerificationService::nodes_check(vec![nb]).is_ok())
            }
            (Real::Edge(mut ea), Real::Edge(eb)) => {
                ea.verifying_key = signer_key.to_vec();
                if SignatureVerificationService::edges_check(vec![ea]).is_err() { return None; }
                Some(SignatureVerificationService::edges_check(vec![eb]).is_ok())
            }
            _ => None,
        }
    }));
    match res {
        Err(_) => Some("panic".into()),
        Ok(None) => None,
        Ok(Some(true)) => Some("accept".into()),
        Ok(Some(false)) => Some("reject".into()),
    }
}

/// `store`: row a is signed by `k1` and written through the real `write`, then row b (same key: same id / same
/// (src, label, dest)) signed by `k2` is written over it; what is then READ BACK must be b exactly and must verify
/// ("a stored row verifies exactly as stored").
fn store_roundtrip(a: &Row, b: &Row, k1: &Ed25519SigningKey, k2: &Ed25519SigningKey) -> Result<String, String> {
    use discret::verif_hooks::database::sqlite_database::prepare_connection;
    let conn = rusqlite::Connection::open_in_memory().map_err(|e| e.to_string())?;
    prepare_connection(&conn).map_err(|e| e.to_string())?;
    match (real_of(a, vec![]), real_of(b, vec![])) {
        (Some(Real::Edge(mut ea)), Some(Real::Edge(mut eb))) => {
            if ea.src != eb.src || ea.label != eb.label || ea.dest != eb.dest {
                return Err("keys differ".into());
            }
            ea.sign(k1).map_err(|e| format!("sign-a {}", e))?;
            eb.sign(k2).map_err(|e| format!("sign-b {}", e))?;
            ea.write(&conn).map_err(|e| e.to_string())?;
            eb.write(&conn).map_err(|e| e.to_string())?;
            let got = Edge::get(&eb.src, &eb.label, &eb.dest, &conn).map_err(|e| e.to_string())?;
            let got = match got {
                Some(g) => g,
                None => return Ok("stored-bad:missing".into()),
            };
            if got.verify().is_err() {
                return Ok("stored-bad:does-not-verify".into());
            }
            if got.verifying_key != eb.verifying_key || got.signature != eb.signature || got.cdate != eb.cdate
                || got.src_entity != eb.src_entity
            {
                return Ok("stored-bad:not-the-row-written".into());
            }
            Ok("stored-ok".into())
        }
        (Some(Real::Node(mut na)), Some(Real::Node(mut nb))) => {
            if na.id != nb.id || na._entity != nb._entity {
                return Err("keys differ".into());
            }
            na.sign(k1).map_err(|e| format!("sign-a {}", e))?;
            nb.sign(k2).map_err(|e| format!("sign-b {}", e))?;
            na.write(&conn, false, &None, &None).map_err(|e| e.to_string())?;
            let stored = Node::get_with_entity(&na.id, &na._entity, &conn).map_err(|e| e.to_string())?;
            nb._local_id = stored.and_then(|n| n._local_id);
            nb.write(&conn, false, &None, &None).map_err(|e| e.to_string())?;
            let got = Node::get_with_entity(&nb.id, &nb._entity, &conn).map_err(|e| e.to_string())?;
            let got = match got {
                Some(g) => g,
                None => return Ok("stored-bad:missing".into()),
            };
            if got.verify().is_err() {
                return Ok("stored-bad:does-not-verify".into());
            }
            if got.verifying_key != nb.verifying_key || got._signature != nb._signature || got.mdate != nb.mdate
                || got._json != nb._json || got.room_id != nb.room_id
            {
                return Ok("stored-bad:not-the-row-written".into());
            }
            Ok("stored-ok".into())
        }
        _ => Err("kinds".into()),
    }
}

// ------------------------------------------------------------------------------------------ instance

const APP: &str = "dv digest";
const MODEL: &str = "{ Person{ name:String } }";
const SECRET: [u8; 32] = [0x42; 32];

struct Inst {
    svc: GraphDatabaseService,
    key: Vec<u8>,
    private_room: [u8; 16],
    folder: PathBuf,
}
impl Inst {
    async fn start(folder: PathBuf) -> Inst {
        let _ = std::fs::remove_dir_all(&folder);
        std::fs::create_dir_all(&folder).unwrap();
        let mut c = Configuration::default();
        c.parallelism = 1;
        let (svc, key, private_room) = GraphDatabaseService::start(
            APP,
            MODEL,
            &SECRET,
            &[7u8; 32],
            folder.clone(),
            &c,
            EventService::new(),
        )
        .await
        .expect("instance start");
        Inst { svc, key, private_room, folder }
    }
    /// submit `Query::ProveIdentity(challenge)` to the real serving code on a connection that has
    /// proved nothing; returns the signature carried by the answer
    async fn prove_identity(&self, challenge: Vec<u8>) -> Result<Vec<u8>, String> {
        let (tx, mut rx) = mpsc::channel::<Answer>(4);
        let mut peer = RemotePeerHandle {
            allowed_room: HashSet::new(),
            db: self.svc.clone(),
            verifying_key: self.key.clone(),
            reply: tx,
        };
        let vk = Arc::new(Mutex::new(Vec::<u8>::new()));
        let ready = Arc::new(AtomicBool::new(false));
        let fp = HardwareFingerprint { id: [0u8; 16], name: "dv".into() };
        InboundQueryService::process_inbound(
            QueryProtocol { id: 1, query: Query::ProveIdentity(challenge) },
            &mut peer,
            &vk,
            &ready,
            &fp,
        )
        .await
        .map_err(|e| format!("err:{}", e))?;
        let a = rx.try_recv().map_err(|_| "err:no-answer".to_string())?;
        if !a.success {
            return Err("err:refused".into());
        }
        let ia: IdentityAnswer = bincode::deserialize(&a.serialized).map_err(|_| "err:decode".to_string())?;
        Ok(ia.chall_signature)
    }
}

// ------------------------------------------------------------------------------------------ run

async fn run(ops: &str, out: &str, stats_path: Option<&str>) {
    std::panic::set_hook(Box::new(|_| {}));
    let f = std::fs::File::open(ops).expect("ops file");
    let mut w = BufWriter::new(std::fs::File::create(out).expect("out file"));
    let mut stats = Stats::default();
    let mut inst: Option<Inst> = None;
    let folder = PathBuf::from(format!("{}.db{}", out, std::process::id()));
    let keys: Vec<Ed25519SigningKey> = (0..NKEYS).map(keypair).collect();
    let mut case_index: i64 = -1; // index of the current case in the file (lines `<index> <signature> <detail>` of <out>.oracle)
    let mut oracle_lines: Vec<String> = Vec::new();
    for line in std::io::BufReader::new(f).lines() {
        let line = line.unwrap();
        let (kind, kv) = parse_kv(&line);
        let cat = kv.get("cat").cloned().unwrap_or_default();
        let res: String = match kind.as_str() {
            "case" => match kv.get("id").and_then(|v| v.parse::<u64>().ok()) {
                Some(id) => {
                    case_index += 1;
                    stats.inc("cases");
                    format!("case {}", id)
                }
                None => "bad-op".into(),
            },
            "pair" => (|| {
                let ka = kv.get("ka")?;
                let kb = kv.get("kb")?;
                let signer: usize = kv.get("signer")?.parse().ok()?;
                let spk = unhex(kv.get("spk")?)?;
                if signer >= NKEYS || keys[signer].export_verifying_key() != spk {
                    return None;
                }
                kv.get("ajson")?;
                kv.get("bjson")?;
                let a = Row::parse(ka, "a", &kv, false)?;
                let b = Row::parse(kb, "b", &kv, true)?;
                Some(match real_sign(&a, &keys[signer]) {
                    Err(c) => c,
                    Ok(sig) => {
                        let direct = real_verify(&b, sig.clone());
                        // independent oracle: the service must not accept what the row's own verify() rejects
                        if let Some(svc) = service_verify(&a, &b, sig, &spk) {
                            stats.inc(&format!("service.{}", svc));
                            if svc == "accept" && direct != "accept" {
                                oracle_lines.push(format!(
                                    "{} verification-service-accepts-forged-row the service accepted a {} carrying the signature of another {} ({}): verify() says {}",
                                    case_index, kb, ka, line.chars().take(160).collect::<String>(), direct
                                ));
                            }
                        }
                        direct
                    }
                })
            })()
            .unwrap_or("bad-op".into()),
            "store" => (|| {
                let ka = kv.get("ka")?;
                let kb = kv.get("kb")?;
                let s1: usize = kv.get("signer")?.parse().ok()?;
                let s2: usize = kv.get("signer2")?.parse().ok()?;
                if s1 >= NKEYS || s2 >= NKEYS || ka != kb || (ka != "node" && ka != "edge") {
                    return None;
                }
                let a = Row::parse(ka, "a", &kv, false)?;
                let b = Row::parse(kb, "b", &kv, false)?;
                stats.inc("op.store");
                Some(match store_roundtrip(&a, &b, &keys[s1], &keys[s2]) {
                    Err(e) => { eprintln!("store error: {}", e); "bad-op".to_string() }
                    Ok(r) => {
                        stats.inc(&format!("store.{}", r));
                        if r != "stored-ok" {
                            oracle_lines.push(format!(
                                "{} stored-row-rejected a {} written over a {} of key {} by key {} reads back as {}: {}",
                                case_index, kb, ka, s1, s2, r, line.chars().take(140).collect::<String>()
                            ));
                        }
                        r
                    }
                })
            })()
            .unwrap_or("bad-op".into()),
            "oracle" | "invite" => {
                if inst.is_none() {
                    inst = Some(Inst::start(folder.clone()).await);
                }
                let i = inst.as_ref().unwrap();
                let parsed = (|| {
                    let me = unhex(kv.get("me")?)?;
                    if me != i.key {
                        return None;
                    }
                    kv.get("bjson")?;
                    let b = Row::parse(kv.get("kb")?, "b", &kv, true)?;
                    Some(b)
                })();
                match (parsed, kind.as_str()) {
                    (None, _) => "bad-op".into(),
                    (Some(b), "oracle") => {
                        let challenge: Option<Vec<u8>> = match kv.get("mode").map(|s| s.as_str()) {
                            Some("bytes") => kv.get("ch").and_then(|h| unhex(h)),
                            Some("digest") => {
                                // the attacker knows the victim's public key only: the real signing code run with
                                // a recording key yields the digest of the forged row
                                let mut forged = b.clone();
                                let rec = RecordingKey {
                                    public: forged.vk_mut().clone(),
                                    seen: StdMutex::new(vec![]),
                                };
                                match real_sign(&forged, &rec) {
                                    Ok(_) => rec.seen.lock().unwrap().last().cloned(),
                                    Err(_) => Some(vec![]),
                                }
                            }
                            _ => None,
                        };
                        match challenge {
                            None => "bad-op".into(),
                            Some(c) => match i.prove_identity(c).await {
                                Ok(sig) => real_verify(&b, sig),
                                Err(e) => e,
                            },
                        }
                    }
                    (Some(b), _) => match kv.get("app").and_then(|h| unhex(h)).and_then(|b| s(&b)) {
                        None => "bad-op".into(),
                        Some(app) => {
                            match Invite::create(base64_encode(&i.private_room), None, app, &i.svc).await {
                                Ok((invite, _owned)) => {
                                    // the invitation's own check (peer_inbound_service.rs:201) accepts it …
                                    let own = security::import_verifying_key(&i.key)
                                        .and_then(|k| k.verify(&invite.hash(), &invite.invite_sign))
                                        .is_ok();
                                    if !own {
                                        "invite-unverifiable".into()
                                    } else {
                                        // … and it is tried as the signature of row b
                                        format!("invite {}", real_verify(&b, invite.invite_sign.clone()))
                                    }
                                }
                                Err(_) => "invite-err".into(),
                            }
                        }
                    },
                }
            }
            _ => "bad-op".into(),
        };
        if kind != "case" {
            stats.inc(&format!("op.{}", kind));
            stats.inc(&format!("outcome.{}", res.split(' ').last().unwrap_or("")));
            if !cat.is_empty() {
                stats.inc(&format!("cat.{}.{}", cat, res.replace(' ', "_")));
            }
        }
        writeln!(w, "{}", res).unwrap();
    }
    w.flush().unwrap();
    if !oracle_lines.is_empty() {
        std::fs::write(format!("{}.oracle", out), oracle_lines.join("\n") + "\n").unwrap();
    } else {
        let _ = std::fs::remove_file(format!("{}.oracle", out));
    }
    if let Some(i) = inst {
        let folder = i.folder.clone();
        drop(i);
        let _ = std::fs::remove_dir_all(folder);
    }
    if let Some(p) = stats_path {
        stats.write(p);
    }
}

// ------------------------------------------------------------------------------------------ generators

fn ascii_word(g: &mut Gen, min: usize, max: usize) -> Vec<u8> {
    let n = min + g.below(max - min + 1);
    (0..n)
        .map(|_| *g.pick(b"abcdefghijklmnopqrstuvwxyz0123456789._ABC\"\\{}: "))
        .collect()
}
fn entity_name(g: &mut Gen) -> Vec<u8> {
    match g.below(4) {
        0 => format!("{}.{}", g.below(4), g.below(40)).into_bytes(),
        1 => "sys.Peer".as_bytes().to_vec(),
        2 => "é.ü".as_bytes().to_vec(),
        _ => ascii_word(g, 1, 12),
    }
}
fn some_uid(g: &mut Gen, ascii: bool) -> [u8; 16] {
    let mut u = [0u8; 16];
    for x in u.iter_mut() {
        *x = if ascii { 32 + g.below(95) as u8 } else { g.below(256) as u8 };
    }
    u
}
fn some_date(g: &mut Gen, ascii: bool) -> i64 {
    if ascii {
        // every little-endian byte below 0x80 (so that it can be moved into a String field)
        let mut v: i64 = 0;
        for k in 0..8 {
            let b = if k < 6 { g.below(128) as i64 } else { 0 };
            v |= b << (8 * k);
        }
        v
    } else {
        match g.below(6) {
            0 => 0,
            1 => -1,
            2 => i64::MAX,
            3 => i64::MIN,
            _ => 1_700_000_000_000 + g.range(-40_000_000_000, 40_000_000_000),
        }
    }
}
const JSONS: &[&str] = &[
    "{}",
    "{\"a\":1}",
    "{\"name\":\"x y\"}",
    "{\"k\":\"\\\"{}\"}",
    "{\n\t\"a\": [1,2,{\"b\":null}]\r\n}",
    "{\"é\":\"ü\\u0001\\\\\"}",
    " { \"32\" : \"\\n\" } ",
    "{\"s\":\"\u{7f}\"}",
];
fn some_json(g: &mut Gen) -> Option<Vec<u8>> {
    match g.below(10) {
        0 | 1 | 2 => None,
        3 => Some(b"[1]".to_vec()),       // valid JSON, not an object
        4 => Some(b"{\"a\":".to_vec()),   // not JSON
        _ => Some(g.pick(JSONS).as_bytes().to_vec()),
    }
}
fn some_bin(g: &mut Gen, ascii: bool) -> Option<Vec<u8>> {
    match g.below(5) {
        0 | 1 => None,
        2 => Some(vec![]),
        _ => {
            let n = 1 + g.below(24);
            Some((0..n).map(|_| if ascii { 32 + g.below(95) as u8 } else { g.below(256) as u8 }).collect())
        }
    }
}
/// insert a space after every `:` and `,` and around the braces, outside string literals
fn respace(j: &str) -> String {
    let mut out = String::new();
    let (mut in_str, mut esc) = (false, false);
    for c in j.chars() {
        out.push(c);
        if in_str {
            if esc {
                esc = false;
            } else if c == '\\' {
                esc = true;
            } else if c == '"' {
                in_str = false;
            }
        } else if c == '"' {
            in_str = true;
        } else if c == ':' || c == ',' || c == '{' || c == '[' {
            out.push(' ');
        }
    }
    out
}
/// two different texts of the same JSON object
fn json_equivalent_pair(g: &mut Gen) -> (Vec<u8>, Vec<u8>) {
    const PAIRS: &[(&str, &str)] = &[
        ("{\"a\":1,\"b\":2}", "{\"b\":2,\"a\":1}"),
        ("{\"name\":\"xy\"}", "{\"name\":\"\\u0078y\"}"),
        ("{\"a\":1}", "{\"a\":2,\"a\":1}"),
        ("{\"a\":1}", "{\"a\":1,\"a\":1}"),
        ("{\"n\":10}", "{\"n\":1e1}"),
        ("{\"n\":1.0}", "{\"n\":1.00}"),
        ("{\"s\":\"/\"}", "{\"s\":\"\\/\"}"),
        ("{\"k\":[1,2,{\"z\":null}]}", "{\"k\":[1,2,{\"z\":null}]}\n"),
        ("{}", "{ }"),
        ("{\"\u{e9}\":true}", "{\"\\u00e9\":true}"),
    ];
    if g.chance(1, 3) {
        let j = *g.pick(JSONS);
        let r = respace(j);
        if r != j && json_is_object(&Some(j.as_bytes().to_vec())) {
            return (j.as_bytes().to_vec(), r.into_bytes());
        }
    }
    let (x, y) = *g.pick(PAIRS);
    (x.as_bytes().to_vec(), y.as_bytes().to_vec())
}
fn json_is_object(j: &Option<Vec<u8>>) -> bool {
    match j {
        None => true,
        Some(b) => match std::str::from_utf8(b).ok().and_then(|t| serde_json::from_str::<serde_json::Value>(t).ok()) {
            Some(v) => v.is_object(),
            None => false,
        },
    }
}
fn row_json_flag(r: &Row) -> u8 {
    match r {
        Row::Node { json, .. } => json_is_object(json) as u8,
        _ => 1,
    }
}
/// `serde_json::to_string(&string)`: how node.rs:161-163 feeds `_json`
fn quoted(j: &[u8]) -> Vec<u8> {
    serde_json::to_string(std::str::from_utf8(j).unwrap()).unwrap().into_bytes()
}

fn random_row(g: &mut Gen, kind: usize, ascii: bool) -> Row {
    match kind {
        0 => Row::Node {
            id: some_uid(g, ascii),
            room_id: if g.chance(2, 3) { Some(some_uid(g, ascii)) } else { None },
            cdate: some_date(g, ascii),
            mdate: some_date(g, ascii),
            entity: entity_name(g),
            json: some_json(g),
            binary: some_bin(g, ascii),
            vk: vec![],
        },
        1 => Row::Edge {
            src: some_uid(g, ascii),
            src_entity: entity_name(g),
            label: ascii_word(g, 1, 10),
            dest: some_uid(g, ascii),
            cdate: some_date(g, ascii),
            vk: vec![],
        },
        2 => Row::NodeDel {
            room_id: some_uid(g, ascii),
            id: some_uid(g, ascii),
            mdate: some_date(g, ascii),
            entity: entity_name(g),
            deletion_date: some_date(g, ascii),
            vk: vec![],
        },
        _ => Row::EdgeDel {
            room_id: some_uid(g, ascii),
            src: some_uid(g, ascii),
            src_entity: entity_name(g),
            label: ascii_word(g, 1, 10),
            dest: some_uid(g, ascii),
            cdate: some_date(g, ascii),
            deletion_date: some_date(g, ascii),
            vk: vec![],
        },
    }
}

fn mutate_bytes(g: &mut Gen, b: &mut Vec<u8>, text: bool) {
    match g.below(5) {
        0 if !b.is_empty() => {
            let i = g.below(b.len());
            b[i] = if text { if b[i] == b'q' { b'r' } else { b'q' } } else { b[i] ^ (1 << g.below(8)) };
        }
        1 => b.push(if text { b'z' } else { g.below(256) as u8 }),
        2 if b.len() > 1 => {
            b.pop();
        }
        3 if b.len() > 1 => {
            b.remove(0);
        }
        _ => b.insert(0, b'0'),
    }
    if text && std::str::from_utf8(b).is_err() {
        *b = b"fixed".to_vec();
    }
}
fn mutate_uid(g: &mut Gen, u: &mut [u8; 16]) {
    let i = g.below(16);
    u[i] ^= 1 << g.below(7);
}
fn mutate_date(g: &mut Gen, d: &mut i64) {
    *d = match g.below(4) {
        0 => d.wrapping_add(1),
        1 => d.wrapping_sub(1),
        2 => d.wrapping_add(256),
        _ => *d ^ (1 << g.below(63)),
    };
}

/// change exactly one field of the row (never the verifying key); returns the field's name
fn mutate_one(g: &mut Gen, r: &mut Row) -> &'static str {
    match r {
        Row::Node { id, room_id, cdate, mdate, entity, json, binary, .. } => match g.below(7) {
            0 => {
                mutate_uid(g, id);
                "id"
            }
            1 => {
                match room_id {
                    Some(u) if g.chance(2, 3) => mutate_uid(g, u),
                    Some(_) => *room_id = None,
                    None => *room_id = Some(some_uid(g, false)),
                }
                "room_id"
            }
            2 => {
                mutate_date(g, cdate);
                "cdate"
            }
            3 => {
                mutate_date(g, mdate);
                "mdate"
            }
            4 => {
                mutate_bytes(g, entity, true);
                "_entity"
            }
            5 => {
                *json = match json {
                    None => Some(b"{}".to_vec()),
                    Some(j) if j.as_slice() == b"{}" => Some(b"{\"a\":1}".to_vec()),
                    Some(_) if g.chance(1, 3) => None,
                    Some(_) => Some(b"{}".to_vec()),
                };
                "_json"
            }
            _ => {
                match binary {
                    None => *binary = Some(vec![g.below(256) as u8]),
                    Some(b) if b.is_empty() => *binary = Some(vec![0]),
                    Some(b) if g.chance(2, 3) => mutate_bytes(g, b, false),
                    Some(_) => *binary = None,
                }
                "_binary"
            }
        },
        Row::Edge { src, src_entity, label, dest, cdate, .. } => match g.below(5) {
            0 => {
                mutate_uid(g, src);
                "src"
            }
            1 => {
                mutate_bytes(g, src_entity, true);
                "src_entity"
            }
            2 => {
                mutate_bytes(g, label, true);
                "label"
            }
            3 => {
                mutate_uid(g, dest);
                "dest"
            }
            _ => {
                mutate_date(g, cdate);
                "cdate"
            }
        },
        Row::NodeDel { room_id, id, mdate, entity, deletion_date, .. } => match g.below(5) {
            0 => {
                mutate_uid(g, room_id);
                "room_id"
            }
            1 => {
                mutate_uid(g, id);
                "id"
            }
            2 => {
                mutate_date(g, mdate);
                "mdate"
            }
            3 => {
                mutate_bytes(g, entity, true);
                "entity"
            }
            _ => {
                mutate_date(g, deletion_date);
                "deletion_date"
            }
        },
        Row::EdgeDel { room_id, src, src_entity, label, dest, cdate, deletion_date, .. } => match g.below(7) {
            0 => {
                mutate_uid(g, room_id);
                "room_id"
            }
            1 => {
                mutate_uid(g, src);
                "src"
            }
            2 => {
                mutate_bytes(g, src_entity, true);
                "src_entity"
            }
            3 => {
                mutate_bytes(g, label, true);
                "label"
            }
            4 => {
                mutate_uid(g, dest);
                "dest"
            }
            5 => {
                mutate_date(g, cdate);
                "cdate"
            }
            _ => {
                mutate_date(g, deletion_date);
                "deletion_date"
            }
        },
    }
}

fn utf8(b: &[u8]) -> bool {
    std::str::from_utf8(b).is_ok()
}
fn le(d: i64) -> [u8; 8] {
    d.to_le_bytes()
}
fn from_le(b: &[u8]) -> i64 {
    i64::from_le_bytes(b[..8].try_into().unwrap())
}
fn u16of(b: &[u8]) -> [u8; 16] {
    b[..16].try_into().unwrap()
}

/// the byte string a row would contribute if fields are concatenated in declaration order without
/// lengths — the attacker's HYPOTHESIS about the digest; used only to craft candidate collisions
fn guess_concat(r: &Row) -> Vec<u8> {
    let mut v = vec![];
    match r {
        Row::Node { id, room_id, cdate, mdate, entity, json, binary, .. } => {
            v.extend(id);
            if let Some(r) = room_id {
                v.extend(r);
            }
            v.extend(le(*cdate));
            v.extend(le(*mdate));
            v.extend(entity);
            if let Some(j) = json {
                if utf8(j) {
                    v.extend(quoted(j));
                }
            }
            if let Some(b) = binary {
                v.extend(b);
            }
        }
        Row::Edge { src, src_entity, label, dest, cdate, .. } => {
            v.extend(src);
            v.extend(src_entity);
            v.extend(label);
            v.extend(dest);
            v.extend(le(*cdate));
        }
        Row::NodeDel { room_id, id, mdate, entity, deletion_date, .. } => {
            v.extend(room_id);
            v.extend(id);
            v.extend(le(*mdate));
            v.extend(entity);
            v.extend(le(*deletion_date));
        }
        Row::EdgeDel { room_id, src, src_entity, label, dest, cdate, deletion_date, .. } => {
            v.extend(room_id);
            v.extend(src);
            v.extend(src_entity);
            v.extend(label);
            v.extend(dest);
            v.extend(le(*cdate));
            v.extend(le(*deletion_date));
        }
    }
    v
}

/// re-read a byte string as a row of another kind / shape. `split` picks the free boundaries.
fn reparse(g: &mut Gen, bytes: &[u8], kind: usize, with_room: bool) -> Option<Row> {
    let n = bytes.len();
    match kind {
        0 => {
            let head = if with_room { 48 } else { 32 };
            if n < head + 1 {
                return None;
            }
            let rest = &bytes[head..];
            // entity = a non-empty UTF-8 prefix of the rest, the remainder (possibly none) is the binary
            let mut cuts: Vec<usize> = (1..=rest.len()).filter(|k| utf8(&rest[..*k])).collect();
            if cuts.is_empty() {
                return None;
            }
            let k = cuts.remove(g.below(cuts.len()));
            Some(Row::Node {
                id: u16of(bytes),
                room_id: if with_room { Some(u16of(&bytes[16..])) } else { None },
                cdate: from_le(&bytes[head - 16..]),
                mdate: from_le(&bytes[head - 8..]),
                entity: rest[..k].to_vec(),
                json: None,
                binary: if k == rest.len() { None } else { Some(rest[k..].to_vec()) },
                vk: vec![],
            })
        }
        1 => {
            if n < 16 + 2 + 24 {
                return None;
            }
            let mid = &bytes[16..n - 24];
            let cuts: Vec<usize> = (1..mid.len()).filter(|k| utf8(&mid[..*k]) && utf8(&mid[*k..])).collect();
            if cuts.is_empty() {
                return None;
            }
            let k = cuts[g.below(cuts.len())];
            Some(Row::Edge {
                src: u16of(bytes),
                src_entity: mid[..k].to_vec(),
                label: mid[k..].to_vec(),
                dest: u16of(&bytes[n - 24..]),
                cdate: from_le(&bytes[n - 8..]),
                vk: vec![],
            })
        }
        2 => {
            if n < 48 || !utf8(&bytes[40..n - 8]) {
                return None;
            }
            Some(Row::NodeDel {
                room_id: u16of(bytes),
                id: u16of(&bytes[16..]),
                mdate: from_le(&bytes[32..]),
                entity: bytes[40..n - 8].to_vec(),
                deletion_date: from_le(&bytes[n - 8..]),
                vk: vec![],
            })
        }
        _ => {
            if n < 32 + 2 + 32 {
                return None;
            }
            let mid = &bytes[32..n - 32];
            let cuts: Vec<usize> = (1..mid.len()).filter(|k| utf8(&mid[..*k]) && utf8(&mid[*k..])).collect();
            if cuts.is_empty() {
                return None;
            }
            let k = cuts[g.below(cuts.len())];
            Some(Row::EdgeDel {
                room_id: u16of(bytes),
                src: u16of(&bytes[16..]),
                src_entity: mid[..k].to_vec(),
                label: mid[k..].to_vec(),
                dest: u16of(&bytes[n - 32..]),
                cdate: from_le(&bytes[n - 16..]),
                deletion_date: from_le(&bytes[n - 8..]),
                vk: vec![],
            })
        }
    }
}

struct PairOut<'a> {
    w: &'a mut dyn Write,
    id: u64,
    pubs: Vec<Vec<u8>>,
}
impl<'a> PairOut<'a> {
    fn pair(&mut self, cat: &str, a: &Row, b: &Row, signer: usize, bvk: Vec<u8>) {
        let mut b = b.clone();
        *b.vk_mut() = bvk;
        writeln!(self.w, "case id={}", self.id).unwrap();
        writeln!(
            self.w,
            "pair cat={} ka={} kb={} signer={} spk={} ajson={} bjson={} {} {}",
            cat,
            a.kind(),
            b.kind(),
            signer,
            hex(&self.pubs[signer]),
            row_json_flag(a),
            row_json_flag(&b),
            a.tokens("a", false),
            b.tokens("b", true)
        )
        .unwrap();
        self.id += 1;
    }
}

/// pairs (r1, r2): identical copies, one-field mutations of every field of every kind, byte moves
/// across every adjacent variable-length boundary, optional-field toggles (compensated and not),
/// re-readings of one row's bytes as every other kind, foreign and malformed keys.
fn gen(seed: u64, n: usize, out: &str) {
    let mut g = Gen::new(seed);
    let mut f = BufWriter::new(std::fs::File::create(out).unwrap());
    let pubs: Vec<Vec<u8>> = (0..NKEYS).map(|i| keypair(i).export_verifying_key()).collect();
    let mut o = PairOut { w: &mut f, id: 0, pubs: pubs.clone() };
    while (o.id as usize) < n {
        let signer = g.below(NKEYS);
        let spk = pubs[signer].clone();
        let kind = g.below(4);
        match g.weighted(&[2, 8, 6, 4, 6, 2, 1, 1, 3]) {
            0 => {
                let a = random_row(&mut g, kind, false);
                o.pair("same", &a, &a, signer, spk);
            }
            1 => {
                let a = random_row(&mut g, kind, false);
                let mut b = a.clone();
                let _field = mutate_one(&mut g, &mut b);
                if b != a {
                    o.pair("one-field", &a, &b, signer, spk);
                }
            }
            2 => {
                // boundary moves inside one kind: re-read the same bytes with other cut points
                let ascii = g.chance(3, 4);
                let mut a = random_row(&mut g, kind, ascii);
                if let Row::Node { json, .. } = &mut a {
                    if !json_is_object(json) {
                        *json = Some(b"{}".to_vec());
                    }
                }
                let with_room = matches!(a, Row::Node { room_id: Some(_), .. });
                let bytes = guess_concat(&a);
                if let Some(b) = reparse(&mut g, &bytes, kind, with_room) {
                    if g.chance(1, 2) {
                        o.pair("boundary", &a, &b, signer, spk);
                    } else {
                        o.pair("boundary", &b, &a, signer, spk);
                    }
                }
            }
            3 => {
                // the same move, one byte lost or changed on the way: must be rejected
                let mut a = random_row(&mut g, kind, true);
                if let Row::Node { json, .. } = &mut a {
                    *json = Some(b"{}".to_vec());
                }
                let with_room = matches!(a, Row::Node { room_id: Some(_), .. });
                let mut bytes = guess_concat(&a);
                let i = 16 + g.below(bytes.len() - 16);
                if g.chance(1, 2) {
                    bytes[i] = if bytes[i] == b'#' { b'$' } else { b'#' };
                } else {
                    bytes.remove(i);
                }
                if let Some(b) = reparse(&mut g, &bytes, kind, with_room) {
                    o.pair("boundary-lossy", &a, &b, signer, spk);
                }
            }
            4 => {
                // optional fields: room present <-> absent with the bytes re-read; other kinds re-read
                let mut a = random_row(&mut g, kind, true);
                if let Row::Node { json, .. } = &mut a {
                    if !json_is_object(json) {
                        *json = None;
                    }
                }
                let bytes = guess_concat(&a);
                let (tk, troom, cat) = if kind == 0 && g.chance(1, 2) {
                    (0, !matches!(a, Row::Node { room_id: Some(_), .. }), "optional-room")
                } else {
                    let mut tk = g.below(4);
                    if tk == kind {
                        tk = (tk + 1) % 4;
                    }
                    (tk, g.chance(1, 2), "cross-kind")
                };
                if let Some(b) = reparse(&mut g, &bytes, tk, troom) {
                    if g.chance(1, 2) {
                        o.pair(cat, &a, &b, signer, spk);
                    } else {
                        o.pair(cat, &b, &a, signer, spk);
                    }
                }
            }
            5 => {
                // plain toggles without compensation, and the empty-vs-absent binary
                let mut a = random_row(&mut g, 0, false);
                let mut b = a.clone();
                if let (Row::Node { binary: ba, json: ja, .. }, Row::Node { binary: bb, room_id, json: jb, .. }) =
                    (&mut a, &mut b)
                {
                    match g.below(3) {
                        0 => {
                            *ba = Some(vec![]);
                            *bb = None;
                        }
                        1 => {
                            *ba = None;
                            *bb = Some(vec![]);
                        }
                        _ => {
                            *room_id = if room_id.is_some() { None } else { Some(some_uid(&mut g, false)) };
                        }
                    }
                    if !json_is_object(ja) {
                        *ja = None;
                        *jb = None;
                    }
                }
                o.pair("toggle", &a, &b, signer, spk);
            }
            6 => {
                // keys: another identity's key on the copy, malformed keys
                let a = random_row(&mut g, kind, false);
                let bvk = match g.below(5) {
                    0 => pubs[(signer + 1) % NKEYS].clone(),
                    1 => vec![],
                    2 => spk[..32].to_vec(),
                    3 => {
                        let mut k = spk.clone();
                        k[0] = 2;
                        k
                    }
                    _ => {
                        let mut k = spk.clone();
                        k.push(0);
                        k
                    }
                };
                o.pair("key", &a, &a, signer, bvk);
            }
            8 => {
                // `_json` texts that differ byte-wise but parse to the same JSON value (spacing, key order,
                // \\u escapes, duplicated keys): the signature must bind the exact text
                let mut a = random_row(&mut g, 0, false);
                let (j1, j2) = json_equivalent_pair(&mut g);
                let mut b = a.clone();
                if let (Row::Node { json: ja, .. }, Row::Node { json: jb, .. }) = (&mut a, &mut b) {
                    *ja = Some(j1);
                    *jb = Some(j2);
                }
                if g.chance(1, 2) {
                    o.pair("json-equiv", &a, &b, signer, spk);
                } else {
                    o.pair("json-equiv", &b, &a, signer, spk);
                }
            }
            7 => {
                // the non-cryptographic checks in front of the digest: empty names, oversized reference
                let pk = g.below(2);
                let a = random_row(&mut g, pk, false);
                let mut b = a.clone();
                match &mut b {
                    Row::Node { entity, .. } => entity.clear(),
                    Row::Edge { src_entity, label, .. } => match g.below(4) {
                        0 => src_entity.clear(),
                        1 => label.clear(),
                        2 => *label = vec![b'l'; 880 + g.below(20)],
                        _ => {
                            src_entity.clear();
                            *label = vec![b'l'; 1000];
                        }
                    },
                    _ => {}
                }
                if g.chance(1, 2) {
                    o.pair("precheck", &a, &b, signer, spk);
                } else {
                    o.pair("precheck", &b, &a, signer, spk);
                }
            }
            _ => {}
        }
    }
    f.flush().unwrap();
}

/// second stream: what a peer can make a running instance sign
fn gen_oracle(seed: u64, n: usize, out: &str) {
    let mut g = Gen::new(seed ^ 0x0c06);
    let mut w = BufWriter::new(std::fs::File::create(out).unwrap());
    // the instance's key is a function of APP and SECRET: read it from a real instance
    let rt = tokio::runtime::Builder::new_current_thread().enable_all().build().unwrap();
    let folder = PathBuf::from(format!("{}.gendb{}", out, std::process::id()));
    let me = rt.block_on(async {
        let i = Inst::start(folder.clone()).await;
        i.key.clone()
    });
    drop(rt);
    let _ = std::fs::remove_dir_all(&folder);
    for id in 0..n {
        let kind = g.below(4);
        let mut b = random_row(&mut g, kind, false);
        if let Row::Node { json, .. } = &mut b {
            if !json_is_object(json) && g.chance(4, 5) {
                *json = Some(b"{\"32\":\"forged\"}".to_vec());
            }
        }
        *b.vk_mut() = if g.chance(9, 10) { me.clone() } else { keypair(0).export_verifying_key() };
        writeln!(w, "case id={}", id).unwrap();
        let tail = format!("me={} kb={} bjson={} {}", hex(&me), b.kind(), row_json_flag(&b), b.tokens("b", true));
        match g.weighted(&[6, 3, 1]) {
            0 => writeln!(w, "oracle cat=digest mode=digest ch= {}", tail).unwrap(),
            1 => {
                let len = *g.pick(&[0usize, 1, 31, 32, 32, 32, 33, 64, 100]);
                let ch: Vec<u8> = (0..len).map(|_| g.below(256) as u8).collect();
                writeln!(w, "oracle cat=bytes mode=bytes ch={} {}", hex(&ch), tail).unwrap()
            }
            _ => {
                let app = ascii_word(&mut g, 0, 40);
                writeln!(w, "invite cat=invite app={} {}", hex(&app), tail).unwrap()
            }
        }
    }
    w.flush().unwrap();
}

fn main() {
    let a = Args::parse();
    match a.cmd.as_str() {
        "gen" => gen(a.u64_or("seed", 1), a.usize_or("n", 1000), &a.str_or("out", "cases.ops")),
        "gen-oracle" => {
            gen_oracle(a.u64_or("seed", 1), a.usize_or("n", 100), &a.str_or("out", "oracle.ops"));
            unsafe { libc::_exit(0) }
        }
        "run" => {
            let rt = tokio::runtime::Builder::new_current_thread().enable_all().build().unwrap();
            rt.block_on(run(&a.str_or("ops", "cases.ops"), &a.str_or("out", "impl.out"), a.get("stats")));
            // everything is written and flushed: leave without the C library's exit handlers (they race with
            // the database threads of the instance that are still alive)
            std::mem::forget(rt);
            unsafe { libc::_exit(0) }
        }
        _ => {
            eprintln!("usage: dv-digest gen|gen-oracle|run …");
            std::process::exit(2);
        }
    }
}
