//! Executes op files against a real `GraphDatabaseService` + `SignatureVerificationService`,
//! one fresh instance per case, sequencing the calls exactly as `synchronise_day` does.
use crate::mk::{self, EdgeSpec, Keys, NodeSpec};
use discret::verif_hooks::clock;
use discret::verif_hooks::configuration::Configuration;
use discret::verif_hooks::database::edge::{Edge, EdgeDeletionEntry};
use discret::verif_hooks::database::graph_database::GraphDatabaseService;
use discret::verif_hooks::database::node::{Node, NodeDeletionEntry, NodeIdentifier, NodeToInsert};
use discret::verif_hooks::database::authorisation_service::AuthorisationMessage;
use discret::verif_hooks::database::room::{RightType, Room};
use discret::verif_hooks::security::SigningKey;
use discret::verif_hooks::database::room_node::{
    AuthorisationNode, EntityRightNode, RoomNode, UserNode,
};
use discret::verif_hooks::discret::DiscretServices;
use discret::verif_hooks::event_service::EventService;
use discret::verif_hooks::synchronisation::peer_inbound_service::{LocalPeerService, QueryService};
use discret::verif_hooks::synchronisation::{Answer, Query, QueryProtocol};
use discret::verif_hooks::security::Uid;
use discret::verif_hooks::signature_verification_service::SignatureVerificationService;
use dvcommon::{join, parse_kv, Stats};
use std::collections::{BTreeMap, HashMap, HashSet};
use std::io::{BufRead, BufWriter, Write};
use std::path::PathBuf;

#[derive(Clone)]
pub struct RowDef {
    pub id: u64,
    pub ent: u64,
    pub c: i64,
    pub t: i64, // mdate
    pub by: u64,
    pub json: Option<String>,
    pub tag: u64,
    pub sig: bool,
}
#[derive(Clone)]
pub struct EdgeDef {
    pub src: u64,
    pub se: u64,
    pub label: u64,
    pub dst: u64,
    pub t: i64,
    pub by: u64,
    pub sig: bool,
}
#[derive(Clone, Default)]
pub struct AuthDef {
    pub row: Option<RowDef>,
    pub rights: Vec<RowDef>,
    pub redges: Vec<EdgeDef>,
    pub users: Vec<RowDef>,
    pub uedges: Vec<EdgeDef>,
    pub uadmins: Vec<RowDef>,
    pub uaedges: Vec<EdgeDef>,
}
#[derive(Clone, Default)]
pub struct RoomDef {
    pub row: Option<RowDef>,
    pub admins: Vec<RowDef>,
    pub aedges: Vec<EdgeDef>,
    pub auths: Vec<AuthDef>,
    pub authedges: Vec<EdgeDef>,
}

fn sys_node(keys: &Keys, r: &RowDef) -> Option<Node> {
    mk::node(
        keys,
        &NodeSpec {
            id: r.id,
            room: None,
            ent: r.ent,
            cdate: r.c,
            mdate: r.t,
            key: r.by,
            json: r.json.clone(),
            sig: r.sig,
        },
    )
}
fn sys_edge(keys: &Keys, e: &EdgeDef) -> Option<Edge> {
    mk::edge(
        keys,
        &EdgeSpec {
            src: e.src,
            se: e.se,
            label: e.label,
            dst: e.dst,
            cdate: e.t,
            key: e.by,
            sig: e.sig,
        },
    )
}

pub fn room_node(keys: &Keys, d: &RoomDef) -> Option<RoomNode> {
    let node = sys_node(keys, d.row.as_ref()?)?;
    let mut last = node.mdate;
    let mut admin_nodes = vec![];
    for a in &d.admins {
        last = last.max(a.t);
        admin_nodes.push(UserNode { node: sys_node(keys, a)? });
    }
    let mut admin_edges = vec![];
    for e in &d.aedges {
        admin_edges.push(sys_edge(keys, e)?);
    }
    let mut auth_edges = vec![];
    for e in &d.authedges {
        auth_edges.push(sys_edge(keys, e)?);
    }
    let mut auth_nodes = vec![];
    for a in &d.auths {
        let an = sys_node(keys, a.row.as_ref()?)?;
        let mut alast = an.mdate;
        let mut right_nodes = vec![];
        for r in &a.rights {
            alast = alast.max(r.t);
            right_nodes.push(EntityRightNode { node: sys_node(keys, r)? });
        }
        let mut user_nodes = vec![];
        for r in &a.users {
            alast = alast.max(r.t);
            user_nodes.push(UserNode { node: sys_node(keys, r)? });
        }
        let mut user_admin_nodes = vec![];
        for r in &a.uadmins {
            alast = alast.max(r.t);
            user_admin_nodes.push(UserNode { node: sys_node(keys, r)? });
        }
        let mut right_edges = vec![];
        for e in &a.redges {
            right_edges.push(sys_edge(keys, e)?);
        }
        let mut user_edges = vec![];
        for e in &a.uedges {
            user_edges.push(sys_edge(keys, e)?);
        }
        let mut user_admin_edges = vec![];
        for e in &a.uaedges {
            user_admin_edges.push(sys_edge(keys, e)?);
        }
        last = last.max(alast);
        auth_nodes.push(AuthorisationNode {
            node: an,
            last_modified: alast,
            right_edges,
            right_nodes,
            user_edges,
            user_nodes,
            user_admin_edges,
            user_admin_nodes,
            need_update: true,
        });
    }
    Some(RoomNode {
        node,
        last_modified: last,
        admin_edges,
        admin_nodes,
        auth_edges,
        auth_nodes,
    })
}

impl RoomDef {
    fn row_ids(&self) -> Vec<u64> {
        let mut v = vec![];
        if let Some(r) = &self.row {
            v.push(r.id);
        }
        for a in &self.admins {
            v.push(a.id);
        }
        for a in &self.auths {
            if let Some(r) = &a.row {
                v.push(r.id);
            }
            for r in a.rights.iter().chain(a.users.iter()).chain(a.uadmins.iter()) {
                v.push(r.id);
            }
        }
        v
    }
}

#[derive(Default)]
struct Pending {
    nodes: Vec<(Node, i64, Vec<u8>)>, // body, announced date, announced signature
    edges: Vec<Edge>,
    ndels: Vec<NodeDeletionEntry>,
    edels: Vec<EdgeDeletionEntry>,
}

struct Case {
    app: GraphDatabaseService,
    dir: PathBuf,
    defs: BTreeMap<u64, RoomDef>,
    row_pool: HashMap<u64, RowDef>,
    edge_pool: HashMap<u64, EdgeDef>,
    sys_ids: HashSet<u64>,
    pending: Pending,
    json_tags: HashMap<String, u64>,
}

pub struct Tables {
    pub nodes: Vec<Vec<i64>>, // id room ent cdate mdate key tag  (room -1 = none)
    pub node_sig: HashMap<u64, Vec<u8>>,
    pub edges: Vec<Vec<i64>>,
    pub ndel: Vec<Vec<i64>>,
    pub edel: Vec<Vec<i64>>,
}

fn fmt_rows(mut rows: Vec<Vec<i64>>) -> String {
    rows.sort();
    let v: Vec<String> = rows
        .iter()
        .map(|r| {
            let f: Vec<String> = r
                .iter()
                .map(|x| if *x == -1 { "-".to_string() } else { x.to_string() })
                .collect();
            f.join(":")
        })
        .collect();
    v.join(",")
}

fn class_of(e: &discret::Error) -> &'static str {
    let s = e.to_string();
    match e {
        discret::Error::Security(_) => "signature",
        discret::Error::OneshotRecv(_) => "panic",
        discret::Error::JSON(_) => "signature",
        discret::Error::Database(d) => {
            use discret::verif_hooks::database::Error as D;
            match d {
                D::Cryptography(_) => "signature",
                D::Json(_) => "parse",
                D::EmptyNodeEntity() | D::EmptyEdgeLabel() | D::EdgeTooBig(_, _) => "signature",
                D::InvalidUserDate() | D::InvalidRightDate() | D::AuthorisationExists() => "history",
                D::UnknownRoom(_) => "unknownroom",
                D::InvalidNode(m) => {
                    if m.contains("json field is not an Object") {
                        "signature"
                    } else if m.contains("cannot be mutated") {
                        "mutated"
                    } else if m.contains("should have an existing old_room_node") {
                        "nohistory"
                    } else if m.contains("not authorised") || m.contains("not  authorised") {
                        "notauthorised"
                    } else if m.contains("duplicate")
                        || m.contains("not placed")
                        || m.contains("different size")
                        || m.contains("edge src")
                        || m.contains("edge source")
                        || m.contains("egde")
                    {
                        "inconsistent"
                    } else if m.starts_with("Invalid UserNode") || m.starts_with("Invalid EntityRight") {
                        "parse"
                    } else {
                        "invalidnode"
                    }
                }
                D::DatabaseWrite(_) | D::Database(_) => "dberror",
                D::OneshotAsyncRecv(_) | D::ChannelSend(_) => "panic",
                _ => {
                    let _ = s;
                    "other"
                }
            }
        }
        _ => "other",
    }
}

impl Case {
    async fn new(work: &PathBuf, n: u64) -> Self {
        let dir = work.join(format!("case{}", n));
        let _ = std::fs::remove_dir_all(&dir);
        std::fs::create_dir_all(&dir).unwrap();
        let mut conf = Configuration::default();
        conf.parallelism = 1;
        conf.max_object_size_in_kb = 4;
        clock::set(50);
        let (app, _vk, _private) = GraphDatabaseService::start(
            mk::APP_KEY,
            mk::MODEL,
            &mk::SECRET,
            &[9u8; 32],
            dir.clone(),
            &conf,
            EventService::new(),
        )
        .await
        .expect("instance start");
        Self {
            app,
            dir,
            defs: BTreeMap::new(),
            row_pool: HashMap::new(),
            edge_pool: HashMap::new(),
            sys_ids: HashSet::new(),
            pending: Pending::default(),
            json_tags: HashMap::new(),
        }
    }

    async fn tables(&self, keys: &Keys) -> Tables {
        let (tx, rx) = tokio::sync::oneshot::channel();
        self.app
            .db
            .reader
            .send_async(Box::new(move |conn| {
                let mut nodes: Vec<(Vec<u8>, Option<Vec<u8>>, i64, i64, String, Option<String>, Vec<u8>, Vec<u8>)> = vec![];
                let mut st = conn
                    .prepare("SELECT id, room_id, cdate, mdate, _entity, _json, verifying_key, _signature FROM _node")
                    .unwrap();
                let mut rows = st.query([]).unwrap();
                while let Some(row) = rows.next().unwrap() {
                    nodes.push((
                        row.get(0).unwrap(),
                        row.get(1).unwrap(),
                        row.get(2).unwrap(),
                        row.get(3).unwrap(),
                        row.get(4).unwrap(),
                        row.get(5).unwrap(),
                        row.get(6).unwrap(),
                        row.get(7).unwrap(),
                    ));
                }
                let mut edges: Vec<(Vec<u8>, String, String, Vec<u8>, i64, Vec<u8>)> = vec![];
                let mut st = conn
                    .prepare("SELECT src, src_entity, label, dest, cdate, verifying_key FROM _edge")
                    .unwrap();
                let mut rows = st.query([]).unwrap();
                while let Some(row) = rows.next().unwrap() {
                    edges.push((
                        row.get(0).unwrap(),
                        row.get(1).unwrap(),
                        row.get(2).unwrap(),
                        row.get(3).unwrap(),
                        row.get(4).unwrap(),
                        row.get(5).unwrap(),
                    ));
                }
                let mut ndel: Vec<(Vec<u8>, Vec<u8>, String, i64, i64, Vec<u8>)> = vec![];
                let mut st = conn
                    .prepare("SELECT room_id, id, entity, mdate, deletion_date, verifying_key FROM _node_deletion_log")
                    .unwrap();
                let mut rows = st.query([]).unwrap();
                while let Some(row) = rows.next().unwrap() {
                    ndel.push((
                        row.get(0).unwrap(),
                        row.get(1).unwrap(),
                        row.get(2).unwrap(),
                        row.get(3).unwrap(),
                        row.get(4).unwrap(),
                        row.get(5).unwrap(),
                    ));
                }
                let mut edel: Vec<(Vec<u8>, Vec<u8>, String, Vec<u8>, String, i64, i64, Vec<u8>)> = vec![];
                let mut st = conn
                    .prepare("SELECT room_id, src, src_entity, dest, label, cdate, deletion_date, verifying_key FROM _edge_deletion_log")
                    .unwrap();
                let mut rows = st.query([]).unwrap();
                while let Some(row) = rows.next().unwrap() {
                    edel.push((
                        row.get(0).unwrap(),
                        row.get(1).unwrap(),
                        row.get(2).unwrap(),
                        row.get(3).unwrap(),
                        row.get(4).unwrap(),
                        row.get(5).unwrap(),
                        row.get(6).unwrap(),
                        row.get(7).unwrap(),
                    ));
                }
                let _ = tx.send((nodes, edges, ndel, edel));
            }))
            .await
            .unwrap();
        let (nodes, edges, ndel, edel) = rx.await.unwrap();
        let lid = |u: &Vec<u8>| mk::un_uid(u).map(|x| x as i64);
        let lab = |s: &str| s.parse::<i64>().unwrap_or(999);
        let mut t = Tables {
            nodes: vec![],
            node_sig: HashMap::new(),
            edges: vec![],
            ndel: vec![],
            edel: vec![],
        };
        for (id, room, c, m, e, j, vk, sig) in nodes {
            let Some(id) = lid(&id) else { continue };
            let room = match room {
                None => -1,
                Some(r) => lid(&r).unwrap_or(-2),
            };
            let tag = match &j {
                None => 1000,
                Some(s) => self.json_tags.get(s).copied().unwrap_or(999_999) as i64,
            };
            t.node_sig.insert(id as u64, sig);
            t.nodes.push(vec![id, room, mk::ent_code(&e) as i64, c, m, keys.name(&vk) as i64, tag]);
        }
        for (s, se, l, d, c, vk) in edges {
            let (Some(s), Some(d)) = (lid(&s), lid(&d)) else { continue };
            t.edges.push(vec![s, mk::ent_code(&se) as i64, lab(&l), d, c, keys.name(&vk) as i64]);
        }
        for (r, id, e, m, d, vk) in ndel {
            t.ndel.push(vec![
                lid(&r).unwrap_or(-2),
                lid(&id).unwrap_or(-2),
                mk::ent_code(&e) as i64,
                m,
                d,
                keys.name(&vk) as i64,
            ]);
        }
        for (r, s, se, dst, l, c, d, vk) in edel {
            t.edel.push(vec![
                lid(&r).unwrap_or(-2),
                lid(&s).unwrap_or(-2),
                mk::ent_code(&se) as i64,
                lid(&dst).unwrap_or(-2),
                lab(&l),
                c,
                d,
                keys.name(&vk) as i64,
            ]);
        }
        t
    }

    async fn dump(&self, keys: &Keys) -> String {
        let t = self.tables(keys).await;
        format!(
            "N={} E={} ND={} ED={}",
            fmt_rows(t.nodes),
            fmt_rows(t.edges),
            fmt_rows(t.ndel),
            fmt_rows(t.edel)
        )
    }

    fn tag_row(&mut self, r: &RowDef) {
        if let Some(j) = &r.json {
            self.json_tags.insert(j.clone(), r.tag);
        }
    }

    /// `verify_room_node` + `add_room_node`, as `synchronise_room_definition` does
    async fn install(&mut self, keys: &Keys, sigsvc: &SignatureVerificationService, room: u64) -> String {
        let Some(d) = self.defs.get(&room).cloned() else {
            return "bad-op".into();
        };
        let ids = d.row_ids();
        let Some(rn) = room_node(keys, &d) else {
            return "bad-op".into();
        };
        for r in d.row.iter().chain(d.admins.iter()) {
            self.tag_row(r);
        }
        for a in &d.auths {
            for r in a.row.iter().chain(a.rights.iter()).chain(a.users.iter()).chain(a.uadmins.iter()) {
                self.tag_row(r);
            }
        }
        let rn = match sigsvc.verify_room_node(rn).await {
            Ok(rn) => rn,
            Err(e) => return format!("err:{}", class_of(&e)),
        };
        match self.app.add_room_node(rn).await {
            Ok(()) => {
                for i in ids {
                    self.sys_ids.insert(i);
                }
                self.defs.remove(&room);
                "ok".into()
            }
            Err(e) => {
                let e = discret::Error::from(e);
                if class_of(&e) == "panic" {
                    "panic".into()
                } else {
                    format!("err:{}", class_of(&e))
                }
            }
        }
    }

    fn matrix(room: &Room, keys: &Keys, dates: &[i64]) -> String {
        let mut v = vec![];
        let b = |x: bool| if x { '1' } else { '0' };
        for d in dates {
            for k in 0..6u64 {
                let vk = keys.get(k).unwrap().export_verifying_key();
                let mut s = format!("{}:{}:", d, k);
                s.push(b(room.is_admin(&vk, *d)));
                s.push(b(room.is_user_valid_at(&vk, *d)));
                s.push(b(room.authorisations.values().any(|a| a.can_admin_users(&vk, *d))));
                for e in ["A", "B", "C"] {
                    s.push(b(room.can(&vk, e, *d, &RightType::MutateSelf)));
                    s.push(b(room.can(&vk, e, *d, &RightType::MutateAll)));
                }
                v.push(s);
            }
        }
        v.join(",")
    }

    /// decisions of the loaded room and of the room as read back from the tables
    async fn probe(&self, keys: &Keys, room: u64, dates: &[i64]) -> String {
        let (reply, rx) = tokio::sync::oneshot::channel();
        let _ = self
            .app
            .auth
            .send(AuthorisationMessage::VerifGetRoom(mk::uid(room), reply))
            .await;
        let live = match rx.await {
            Ok(Some(r)) => Self::matrix(&r, keys, dates),
            Ok(None) => "none".to_string(),
            Err(_) => "panic".to_string(),
        };
        let stored = match self.app.get_room_node(mk::uid(room)).await {
            Ok(Some(rn)) => match rn.parse() {
                Ok(r) => Self::matrix(&r, keys, dates),
                Err(_) => "err".to_string(),
            },
            Ok(None) => "none".to_string(),
            Err(_) => "dberr".to_string(),
        };
        format!("probe live={} stored={}", live, stored)
    }

    /// the body of `synchronise_day` with the remote peer's answers taken from the pending records
    async fn sync(&mut self, keys: &Keys, sigsvc: &SignatureVerificationService, room: u64, stats: &mut Stats) -> String {
        let p = std::mem::take(&mut self.pending);
        let room_id: Uid = mk::uid(room);
        // the tie-break on rows signed inside the instance is not an input of the case
        {
            let t = self.tables(keys).await;
            for (n, ad, _) in &p.nodes {
                if let Some(id) = mk::un_uid(&n.id) {
                    if self.sys_ids.contains(&id) {
                        if let Some(r) = t.nodes.iter().find(|r| r[0] == id as i64) {
                            if r[2] >= 100 && r[4] == *ad {
                                return "bad-op".into();
                            }
                        }
                    }
                }
            }
        }
        let res = self.sync_inner(sigsvc, room_id, p, stats).await;
        format!("sync {} {}", res, self.dump(keys).await)
    }

    /// the REAL `LocalPeerService::synchronise_day`: the harness is the remote peer and answers its
    /// queries over in-memory channels with the pending records (whatever was asked for)
    async fn sync_real(&mut self, keys: &Keys, sigsvc: &SignatureVerificationService, room: u64) -> String {
        let p = std::mem::take(&mut self.pending);
        {
            let t = self.tables(keys).await;
            for (n, ad, _) in &p.nodes {
                if let Some(id) = mk::un_uid(&n.id) {
                    if self.sys_ids.contains(&id) {
                        if let Some(r) = t.nodes.iter().find(|r| r[0] == id as i64) {
                            if r[2] >= 100 && r[4] == *ad {
                                return "bad-op".into();
                            }
                        }
                    }
                }
            }
        }
        let (q_tx, mut q_rx) = tokio::sync::mpsc::channel::<QueryProtocol>(16);
        let (a_tx, a_rx) = tokio::sync::mpsc::channel::<Answer>(16);
        let qs = QueryService::start(q_tx, a_rx);
        let responder = tokio::spawn(async move {
            let ser = |id: u64, data: Vec<u8>| Answer { id, success: true, complete: false, serialized: data };
            while let Some(qp) = q_rx.recv().await {
                let id = qp.id;
                let data: Option<Vec<u8>> = match qp.query {
                    Query::EdgeDeletionLog(..) => {
                        if p.edels.is_empty() { None } else { Some(bincode::serialize(&p.edels).unwrap()) }
                    }
                    Query::NodeDeletionLog(..) => {
                        if p.ndels.is_empty() { None } else { Some(bincode::serialize(&p.ndels).unwrap()) }
                    }
                    Query::RoomDailyNodes(..) => {
                        let mut set: HashSet<NodeIdentifier> = HashSet::new();
                        for (n, ad, asig) in &p.nodes {
                            set.insert(NodeIdentifier { id: n.id, mdate: *ad, signature: asig.clone() });
                        }
                        if set.is_empty() { None } else { Some(bincode::serialize(&set).unwrap()) }
                    }
                    Query::Nodes(..) => {
                        let v: Vec<&Node> = p.nodes.iter().map(|x| &x.0).collect();
                        if v.is_empty() { None } else { Some(bincode::serialize(&v).unwrap()) }
                    }
                    Query::Edges(..) => {
                        if p.edges.is_empty() { None } else { Some(bincode::serialize(&p.edges).unwrap()) }
                    }
                    _ => None,
                };
                if let Some(d) = data {
                    if a_tx.send(ser(id, d)).await.is_err() {
                        break;
                    }
                }
                if a_tx.send(Answer { id, success: true, complete: true, serialized: vec![] }).await.is_err() {
                    break;
                }
            }
        });
        let services = DiscretServices {
            events: EventService::new(),
            database: self.app.clone(),
            signature_verification: sigsvc.clone(),
        };
        let res = LocalPeerService::verif_synchronise_day(mk::uid(room), "0".to_string(), 0, &qs, &services).await;
        drop(qs);
        responder.abort();
        let cls = match res {
            Ok(_) => "ok",
            Err(_) => "err",
        };
        format!("rsync res={} {}", cls, self.dump(keys).await)
    }

    async fn sync_inner(
        &mut self,
        sigsvc: &SignatureVerificationService,
        room_id: Uid,
        p: Pending,
        stats: &mut Stats,
    ) -> String {
        let ids = |v: &[Uid]| -> String {
            let mut l: Vec<i64> = v.iter().map(|u| mk::un_uid(u).map(|x| x as i64).unwrap_or(-2)).collect();
            l.sort();
            join(&l, ",")
        };
        let dberr = |stage: &str, e: String| format!("res=dberr@{}:{} nrej= erej=", stage, e.replace(' ', "_"));
        // as `synchronise_day` does since findings/C02-deletion-of-other-room.patch: the records that do not name the
        // synchronised room are dropped from the answer (the `rsync` ops run the real function)
        let mut p = p;
        p.edels.retain(|d| d.room_id.eq(&room_id));
        p.ndels.retain(|d| d.room_id.eq(&room_id));
        if !p.edels.is_empty() {
            let v = match sigsvc.verify_edge_log(p.edels).await {
                Ok(v) => v,
                Err(_) => return "res=sig@edel nrej= erej=".into(),
            };
            if let Err(e) = self.app.delete_edges(v).await {
                return dberr("edel", e.to_string());
            }
        }
        if !p.ndels.is_empty() {
            let v = match sigsvc.verify_node_log(p.ndels).await {
                Ok(v) => v,
                Err(_) => return "res=sig@ndel nrej= erej=".into(),
            };
            if let Err(e) = self.app.delete_nodes(v).await {
                return dberr("ndel", e.to_string());
            }
        }
        let mut remote_nodes: HashSet<NodeIdentifier> = HashSet::new();
        for (n, ad, asig) in &p.nodes {
            remote_nodes.insert(NodeIdentifier {
                id: n.id,
                mdate: *ad,
                signature: asig.clone(),
            });
        }
        // as `synchronise_day` does since /repo ffeda5d: ids that carry a deletion record of the room are not requested
        let filtered = match self.app.filter_existing_room_node(room_id, remote_nodes).await {
            Ok(f) => f,
            Err(e) => return dberr("filter", e.to_string()),
        };
        stats.add("nodes.announced", p.nodes.len() as u64);
        stats.add("nodes.requested", filtered.len() as u64);
        if filtered.is_empty() {
            return "res=ok nrej= erej=".into();
        }
        let mut node_map: HashMap<Uid, NodeToInsert> = HashMap::new();
        for nti in filtered {
            node_map.insert(nti.id, nti);
        }
        let nodes: Vec<Node> = p.nodes.into_iter().map(|x| x.0).collect();
        let nodes = match sigsvc.verify_nodes(nodes).await {
            Ok(v) => v,
            Err(_) => return "res=sig@nodes nrej= erej=".into(),
        };
        let mut nodes_to_insert = Vec::with_capacity(nodes.len());
        for mut node in nodes {
            if let Some(mut nti) = node_map.remove(&node.id) {
                node._local_id = nti.old_local_id;
                nti.node = Some(node);
                nodes_to_insert.push(nti);
            }
        }
        let nrej = match self.app.add_nodes(room_id, nodes_to_insert).await {
            Ok(r) => r,
            Err(e) => return dberr("nodes", e.to_string()),
        };
        stats.add("nodes.rejected", nrej.len() as u64);
        let mut erej: Vec<Uid> = vec![];
        if !p.edges.is_empty() {
            let edges = match sigsvc.verify_edges(p.edges).await {
                Ok(v) => v,
                Err(_) => return "res=sig@edges nrej= erej=".into(),
            };
            stats.add("edges.sent", edges.len() as u64);
            erej = match self.app.add_edges(room_id, edges).await {
                Ok(r) => r,
                Err(e) => {
                    let e = discret::Error::from(e);
                    return if class_of(&e) == "unknownroom" {
                        "res=unknownroom nrej= erej=".to_string()
                    } else {
                        dberr("edges", e.to_string())
                    };
                }
            };
            stats.add("edges.rejected", erej.len() as u64);
        }
        format!("res=ok nrej={} erej={}", ids(&nrej), ids(&erej))
    }
}

fn get_u(kv: &HashMap<String, String>, k: &str) -> Option<u64> {
    kv.get(k).and_then(|v| v.parse::<u64>().ok())
}
fn get_i(kv: &HashMap<String, String>, k: &str) -> Option<i64> {
    kv.get(k).and_then(|v| v.parse::<i64>().ok())
}
fn list_u(kv: &HashMap<String, String>, k: &str) -> Option<Vec<u64>> {
    match kv.get(k) {
        None => Some(vec![]),
        Some(s) if s.is_empty() => Some(vec![]),
        Some(s) => s.split(',').map(|x| x.parse::<u64>().ok()).collect(),
    }
}
fn get_b(kv: &HashMap<String, String>, k: &str) -> Option<bool> {
    match kv.get(k).map(|s| s.as_str()) {
        Some("0") => Some(false),
        Some("1") => Some(true),
        _ => None,
    }
}

/// parsed `node` op: the signed body, announced date and signature, and the true signature rank
pub fn node_of_op(keys: &Keys, kv: &HashMap<String, String>) -> Option<(Node, i64, Vec<u8>, u64, u64, String)> {
    let id = get_u(kv, "id")?;
    let r = get_u(kv, "r")?;
    let e = get_u(kv, "e")?;
    let c = get_i(kv, "c")?;
    let m = get_i(kv, "m")?;
    let k = get_u(kv, "k")?;
    let v = get_u(kv, "v")?;
    let js = kv.get("js")?;
    let sig = get_b(kv, "sig")?;
    let sg = get_u(kv, "sg")?;
    let (json, tag) = mk::json_of(js, v)?;
    let n = mk::node(
        keys,
        &NodeSpec {
            id,
            room: Some(r),
            ent: e,
            cdate: c,
            mdate: m,
            key: k,
            json: json.clone(),
            sig,
        },
    )?;
    let rank = mk::sig_rank(&n._signature);
    let ad = get_i(kv, "ad").unwrap_or(m);
    let asg = match get_u(kv, "asg") {
        Some(a) if a != sg => mk::fake_sig(a),
        _ => n._signature.clone(),
    };
    Some((n, ad, asg, rank, tag, json.unwrap_or_default()))
}

/// one op line of a case
async fn step(
    c: &mut Case,
    keys: &Keys,
    sigsvc: &SignatureVerificationService,
    stats: &mut Stats,
    kind: &str,
    kv: &HashMap<String, String>,
) -> String {
    let kv = kv.clone();
    let kind = kind.to_string();
    match kind.as_str() {
            "room" => {
                match (get_u(&kv, "id"), get_i(&kv, "t"), get_u(&kv, "by")) {
                    (Some(id), Some(t), Some(by)) if !c.defs.contains_key(&id) && by < mk::NKEYS => {
                        let d = RoomDef {
                            row: Some(RowDef { id, ent: 100, c: t, t, by, json: Some("{\"32\":\"n0\"}".into()), tag: 0, sig: true }),
                            ..Default::default()
                        };
                        c.defs.insert(id, d);
                        "q".into()
                    }
                    _ => "bad-op".into(),
                }
            }
            "radmin" => {
                match (
                    get_u(&kv, "room"),
                    get_u(&kv, "id"),
                    get_u(&kv, "k"),
                    get_b(&kv, "en"),
                    get_i(&kv, "t"),
                    get_u(&kv, "by"),
                ) {
                    (Some(room), Some(id), Some(k), Some(en), Some(t), Some(by))
                        if c.defs.contains_key(&room) && by < mk::NKEYS && k < mk::NKEYS =>
                    {
                        let d = c.defs.get_mut(&room).unwrap();
                        d.admins.push(RowDef { id, ent: 102, c: t, t, by, json: mk::user_json(keys, k, en), tag: 1_000_000 + 2 * k + en as u64, sig: true });
                        d.aedges.push(EdgeDef { src: room, se: 100, label: 32, dst: id, t, by, sig: true });
                        "q".into()
                    }
                    _ => "bad-op".into(),
                }
            }
            "rauth" => {
                match (get_u(&kv, "room"), get_u(&kv, "id"), get_i(&kv, "t"), get_u(&kv, "by")) {
                    (Some(room), Some(id), Some(t), Some(by)) if c.defs.contains_key(&room) && by < mk::NKEYS => {
                        let d = c.defs.get_mut(&room).unwrap();
                        d.auths.push(AuthDef {
                            row: Some(RowDef { id, ent: 101, c: t, t, by, json: Some("{\"32\":\"n1\"}".into()), tag: 1, sig: true }),
                            ..Default::default()
                        });
                        d.authedges.push(EdgeDef { src: room, se: 100, label: 33, dst: id, t, by, sig: true });
                        "q".into()
                    }
                    _ => "bad-op".into(),
                }
            }
            "rright" | "ruser" | "ruadmin" => {
                let (room, g, id, t, by) = (
                    get_u(&kv, "room"),
                    get_u(&kv, "g"),
                    get_u(&kv, "id"),
                    get_i(&kv, "t"),
                    get_u(&kv, "by"),
                );
                let json = if kind == "rright" {
                    match (get_u(&kv, "e"), get_b(&kv, "ms"), get_b(&kv, "ma")) {
                        (Some(e), Some(ms), Some(ma)) => {
                            mk::right_json(e, ms, ma).map(|j| (j, 2_000_000 + 4 * e + 2 * ms as u64 + ma as u64))
                        }
                        _ => None,
                    }
                } else {
                    match (get_u(&kv, "k"), get_b(&kv, "en")) {
                        (Some(k), Some(en)) => mk::user_json(keys, k, en).map(|j| (j, 1_000_000 + 2 * k + en as u64)),
                        _ => None,
                    }
                };
                match (room, g, id, t, by, json) {
                    (Some(room), Some(g), Some(id), Some(t), Some(by), Some((json, tag))) if by < mk::NKEYS => {
                        let auth = c
                            .defs
                            .get_mut(&room)
                            .and_then(|d| d.auths.iter_mut().find(|a| a.row.as_ref().map(|r| r.id) == Some(g)));
                        match auth {
                            Some(a) => {
                                match kind.as_str() {
                                    "rright" => {
                                        a.rights.push(RowDef { id, ent: 103, c: t, t, by, json: Some(json), tag, sig: true });
                                        a.redges.push(EdgeDef { src: g, se: 101, label: 33, dst: id, t, by, sig: true });
                                    }
                                    "ruser" => {
                                        a.users.push(RowDef { id, ent: 102, c: t, t, by, json: Some(json), tag, sig: true });
                                        a.uedges.push(EdgeDef { src: g, se: 101, label: 34, dst: id, t, by, sig: true });
                                    }
                                    _ => {
                                        a.uadmins.push(RowDef { id, ent: 102, c: t, t, by, json: Some(json), tag, sig: true });
                                        a.uaedges.push(EdgeDef { src: g, se: 101, label: 35, dst: id, t, by, sig: true });
                                    }
                                }
                                "q".into()
                            }
                            None => "bad-op".into(),
                        }
                    }
                    _ => "bad-op".into(),
                }
            }
            "srow" => {
                let r = (|| {
                    let id = get_u(&kv, "id")?;
                    let ent = get_u(&kv, "ent")?;
                    let c = get_i(&kv, "c")?;
                    let m = get_i(&kv, "m")?;
                    let by = get_u(&kv, "by")?;
                    if by >= mk::NKEYS || !((1..=3).contains(&ent) || (100..=103).contains(&ent)) {
                        return None;
                    }
                    let (json, tag) = match kv.get("body")?.as_str() {
                        "user" => {
                            let (k, en) = (get_u(&kv, "k")?, get_b(&kv, "en")?);
                            (Some(mk::user_json(keys, k, en)?), 1_000_000 + 2 * k + en as u64)
                        }
                        "right" => {
                            let (e, ms, ma) = (get_u(&kv, "e")?, get_b(&kv, "ms")?, get_b(&kv, "ma")?);
                            (Some(mk::right_json(e, ms, ma)?), 2_000_000 + 4 * e + 2 * ms as u64 + ma as u64)
                        }
                        "name" => {
                            let v = get_u(&kv, "v")?;
                            if v >= 1000 {
                                return None;
                            }
                            (Some(format!("{{\"32\":\"n{}\"}}", v)), v)
                        }
                        "none" => (None, 1000),
                        _ => return None,
                    };
                    let sig = get_b(&kv, "sig").unwrap_or(true);
                    Some(RowDef { id, ent, c, t: m, by, json, tag, sig })
                })();
                match r {
                    Some(r) => {
                        let pk = get_u(&kv, "p").unwrap_or(r.id);
                        c.row_pool.insert(pk, r);
                        "q".into()
                    }
                    None => "bad-op".into(),
                }
            }
            "sedge" => {
                let e = (|| {
                    let n = get_u(&kv, "n")?;
                    let se = get_u(&kv, "se")?;
                    let by = get_u(&kv, "by")?;
                    let label = get_u(&kv, "l")?;
                    if by >= mk::NKEYS || label == 0 || !((1..=3).contains(&se) || (100..=103).contains(&se)) {
                        return None;
                    }
                    Some((
                        n,
                        EdgeDef {
                            src: get_u(&kv, "src")?,
                            se,
                            label,
                            dst: get_u(&kv, "dst")?,
                            t: get_i(&kv, "c")?,
                            by,
                            sig: get_b(&kv, "sig").unwrap_or(true),
                        },
                    ))
                })();
                match e {
                    Some((n, e)) => {
                        c.edge_pool.insert(n, e);
                        "q".into()
                    }
                    None => "bad-op".into(),
                }
            }
            "cand" => {
                let d = (|| {
                    let room = get_u(&kv, "room")?;
                    let rows = |k: &str| -> Option<Vec<RowDef>> {
                        list_u(&kv, k)?.iter().map(|i| c.row_pool.get(i).cloned()).collect()
                    };
                    let edges = |k: &str| -> Option<Vec<EdgeDef>> {
                        list_u(&kv, k)?.iter().map(|i| c.edge_pool.get(i).cloned()).collect()
                    };
                    Some((
                        room,
                        RoomDef {
                            row: Some(c.row_pool.get(&room)?.clone()),
                            admins: rows("admins")?,
                            aedges: edges("aedges")?,
                            auths: rows("auths")?
                                .into_iter()
                                .map(|r| AuthDef { row: Some(r), ..Default::default() })
                                .collect(),
                            authedges: edges("authedges")?,
                        },
                    ))
                })();
                match d {
                    Some((room, d)) => {
                        c.defs.insert(room, d);
                        "q".into()
                    }
                    None => "bad-op".into(),
                }
            }
            "cauth" => {
                let d = (|| {
                    let room = get_u(&kv, "room")?;
                    let id = get_u(&kv, "id")?;
                    let rows = |k: &str| -> Option<Vec<RowDef>> {
                        list_u(&kv, k)?.iter().map(|i| c.row_pool.get(i).cloned()).collect()
                    };
                    let edges = |k: &str| -> Option<Vec<EdgeDef>> {
                        list_u(&kv, k)?.iter().map(|i| c.edge_pool.get(i).cloned()).collect()
                    };
                    Some((room, id, rows("rights")?, edges("redges")?, rows("users")?, edges("uedges")?, rows("uadmins")?, edges("uaedges")?))
                })();
                match d {
                    Some((room, id, rights, redges, users, uedges, uadmins, uaedges)) => {
                        // every group of the candidate with that id (as the model's `updAuth`)
                        let mut found = false;
                        if let Some(def) = c.defs.get_mut(&room) {
                            for a in def.auths.iter_mut().filter(|a| a.row.as_ref().map(|r| r.id) == Some(id)) {
                                found = true;
                                a.rights = rights.clone();
                                a.redges = redges.clone();
                                a.users = users.clone();
                                a.uedges = uedges.clone();
                                a.uadmins = uadmins.clone();
                                a.uaedges = uaedges.clone();
                            }
                        }
                        if found { "q".into() } else { "bad-op".into() }
                    }
                    None => "bad-op".into(),
                }
            }
            "dump" => format!("dump {}", c.dump(keys).await),
            "probe" => match (get_u(&kv, "room"), kv.get("dates")) {
                (Some(room), Some(ds)) => {
                    let dates: Option<Vec<i64>> = if ds.is_empty() {
                        Some(vec![])
                    } else {
                        ds.split(',').map(|x| x.parse::<i64>().ok()).collect()
                    };
                    match dates {
                        Some(dates) => c.probe(keys, room, &dates).await,
                        None => "bad-op".into(),
                    }
                }
                _ => "bad-op".into(),
            },
            "install" => {
                match get_u(&kv, "room") {
                    Some(room) => {
                        let r = c.install(keys, sigsvc, room).await;
                        stats.inc(&format!("install.{}", r));
                        r
                    }
                    None => "bad-op".into(),
                }
            }
            "node" => {
                match node_of_op(keys, &kv) {
                    Some((n, ad, asg, rank, tag, json)) => {
                        if Some(rank) != get_u(&kv, "sg") {
                            "bad-op".into()
                        } else {
                            if !json.is_empty() {
                                c.json_tags.insert(json, tag);
                            }
                            stats.inc(&format!("node.js.{}", kv.get("js").unwrap()));
                            c.pending.nodes.push((n, ad, asg));
                            "q".into()
                        }
                    }
                    None => "bad-op".into(),
                }
            }
            "edge" => {
                let e = (|| {
                    mk::edge(
                        keys,
                        &EdgeSpec {
                            src: get_u(&kv, "src")?,
                            se: get_u(&kv, "se")?,
                            label: get_u(&kv, "l")?,
                            dst: get_u(&kv, "dst")?,
                            cdate: get_i(&kv, "c")?,
                            key: get_u(&kv, "k")?,
                            sig: get_b(&kv, "sig")?,
                        },
                    )
                })();
                match e {
                    Some(e) => {
                        c.pending.edges.push(e);
                        "q".into()
                    }
                    None => "bad-op".into(),
                }
            }
            "ndel" => {
                let d = (|| {
                    mk::node_del(
                        keys,
                        get_u(&kv, "r")?,
                        get_u(&kv, "id")?,
                        get_u(&kv, "e")?,
                        get_i(&kv, "m")?,
                        get_i(&kv, "d")?,
                        get_u(&kv, "k")?,
                        get_b(&kv, "sig")?,
                    )
                })();
                match d {
                    Some(d) => {
                        c.pending.ndels.push(d);
                        "q".into()
                    }
                    None => "bad-op".into(),
                }
            }
            "edel" => {
                let d = (|| {
                    mk::edge_del(
                        keys,
                        get_u(&kv, "r")?,
                        get_u(&kv, "src")?,
                        get_u(&kv, "se")?,
                        get_u(&kv, "l")?,
                        get_u(&kv, "dst")?,
                        get_i(&kv, "c")?,
                        get_i(&kv, "d")?,
                        get_u(&kv, "k")?,
                        get_b(&kv, "sig")?,
                    )
                })();
                match d {
                    Some(d) => {
                        c.pending.edels.push(d);
                        "q".into()
                    }
                    None => "bad-op".into(),
                }
            }
            "rsync" => match get_u(&kv, "r") {
                Some(r) => {
                    let o = c.sync_real(keys, sigsvc, r).await;
                    stats.inc(&format!("rsync.{}", o.split_whitespace().nth(1).unwrap_or("bad-op")));
                    o
                }
                None => "bad-op".into(),
            },
            "sync" => {
                match get_u(&kv, "r") {
                    Some(r) => {
                        let o = c.sync(keys, sigsvc, r, stats).await;
                        let cls = o.split_whitespace().nth(1).unwrap_or("bad-op").to_string();
                        stats.inc(&format!("sync.{}", cls.split(':').next().unwrap_or("")));
                        o
                    }
                    None => "bad-op".into(),
                }
            }
            _ => "bad-op".into(),
    }
}

/// all the lines of one case on a fresh instance
async fn run_case(
    n: u64,
    lines: Vec<String>,
    keys: std::sync::Arc<Keys>,
    sigsvc: SignatureVerificationService,
    work: PathBuf,
) -> (Vec<String>, Stats) {
    let mut stats = Stats::default();
    let mut out = vec![];
    let mut case: Option<Case> = None;
    for line in lines {
        let (kind, kv) = parse_kv(&line);
        let res = if kind == "case" {
            match get_u(&kv, "id") {
                Some(id) => {
                    case = Some(Case::new(&work, n).await);
                    stats.inc("cases");
                    format!("case {}", id)
                }
                None => "bad-op".into(),
            }
        } else {
            match case.as_mut() {
                Some(c) => step(c, &keys, &sigsvc, &mut stats, &kind, &kv).await,
                None => "bad-op".into(),
            }
        };
        out.push(res);
    }
    if let Some(c) = case.take() {
        let dir = c.dir.clone();
        drop(c);
        let _ = std::fs::remove_dir_all(dir);
    }
    (out, stats)
}

pub async fn run(ops: &str, out: &str, stats_path: Option<&str>, _mode: &str) {
    let f = std::fs::File::open(ops).expect("ops file");
    let mut w = BufWriter::new(std::fs::File::create(out).expect("out file"));
    let work: PathBuf = PathBuf::from(format!("{}.db", out));
    let _ = std::fs::remove_dir_all(&work);
    std::fs::create_dir_all(&work).unwrap();
    let keys = std::sync::Arc::new(Keys::new());
    let sigsvc = SignatureVerificationService::start(2);
    // cases are independent (fresh instance, own directory): a few run concurrently, output in file order
    let mut cases: Vec<Vec<String>> = vec![];
    for line in std::io::BufReader::new(f).lines() {
        let line = line.unwrap();
        if line.starts_with("case ") || cases.is_empty() {
            cases.push(vec![]);
        }
        cases.last_mut().unwrap().push(line);
    }
    let par: usize = std::env::var("DV_PAR").ok().and_then(|v| v.parse().ok()).unwrap_or(4);
    let sem = std::sync::Arc::new(tokio::sync::Semaphore::new(par.max(1)));
    let mut handles = vec![];
    for (i, lines) in cases.into_iter().enumerate() {
        let (keys, sigsvc, work, sem) = (keys.clone(), sigsvc.clone(), work.clone(), sem.clone());
        let nlines = lines.len();
        let h = tokio::spawn(async move {
            let _permit = sem.acquire_owned().await.unwrap();
            run_case(i as u64, lines, keys, sigsvc, work).await
        });
        handles.push((h, nlines));
    }
    let mut stats = Stats::default();
    for (h, nlines) in handles {
        match h.await {
            Ok((lines, st)) => {
                for l in lines {
                    writeln!(w, "{}", l).unwrap();
                }
                for (k, v) in st.counters {
                    stats.add(&k, v);
                }
            }
            Err(_) => {
                // a panic inside the code under test: every line of the case reports it
                stats.inc("panics");
                for _ in 0..nlines {
                    writeln!(w, "panic").unwrap();
                }
            }
        }
    }
    let _ = std::fs::remove_dir_all(&work);
    w.flush().unwrap();
    if let Some(p) = stats_path {
        stats.write(p);
    }
}
