//! Engine `ingest`: the harness plays the remote peer of the PEER ingestion path.
//!
//!   dv-ingest gen  --prop C02|C07 --seed S --n N --out FILE      structured random cases
//!   dv-ingest run  --ops FILE --out FILE [--stats FILE]          execute on the real code
//!   dv-ingest fix  --ops FILE --out FILE                         recompute the `sg=` fields of hand-written files
//!
//! Op file (shared with the Lean driver `dmodel_ingest`, see lean/Driver/Ingest.lean).
//! Ids are logical numbers mapped to deterministic uids; keys are deterministic Ed25519 keys
//! (key 0 is the instance's own key). Every row is really signed, every call goes through the real
//! `SignatureVerificationService` and `GraphDatabaseService`.
mod mk;
mod gen;
mod world;

use dvcommon::Args;

fn main() {
    let a = Args::parse();
    match a.cmd.as_str() {
        "gen" => gen::generate(
            &a.str_or("prop", "C02"),
            a.u64_or("seed", 1),
            a.usize_or("n", 100),
            &a.str_or("out", "cases.ops"),
        ),
        "fix" => gen::fix(&a.str_or("ops", "cases.ops"), &a.str_or("out", "fixed.ops")),
        "run" => {
            let rt = tokio::runtime::Builder::new_multi_thread()
                .worker_threads(4)
                .enable_all()
                .build()
                .unwrap();
            rt.block_on(world::run(
                &a.str_or("ops", "cases.ops"),
                &a.str_or("out", "impl.out"),
                a.get("stats"),
                a.get("mode").unwrap_or("direct"),
            ));
            // background threads of the dropped instances (sqlite readers/writers, verifier pool) may still be
            // winding down; skip the process-wide atexit handlers (OpenSSL cleanup) they would race with
            unsafe { libc::_exit(0) }
        }
        _ => {
            eprintln!("usage: dv-ingest gen|run|fix …");
            std::process::exit(2);
        }
    }
}
