//! Engine `ingest`: the harness plays the remote peer of the PEER ingestion path.
//!
//!   dv-ingest gen  --prop C02|C07 --seed S --n N --out FILE      structured random cases
//!   dv-ingest run  --ops FILE --out FILE [--stats FILE]          execute on the real code
//!   dv-ingest fix  --ops FILE --out FILE                         recompute the `sg=` fields of hand-written files
//!
//! Op file (shared with the Lean driver `dmodel_ingest`, see lean/Driver/Ingest.lean).
//! Ids are logical numbers mapped to deterministic uids; keys are deterministic Ed25519 keys
//! (key 0 is the instance's own key). Every row is really signed, every call goes through the real
//! `SignatureVerificationService` and `GraphDatabaseService`.
mod mk;
mod gen;
mod world;

use dvcommon::Args;

const CHUNK: usize = 150;

/// splits the op file by cases, runs each chunk in a child process, concatenates outputs and statistics;
/// `None` when the file is small enough to be run in this process
fn chunked(a: &Args) -> Option<i32> {
    use std::io::Write;
    let ops = a.str_or("ops", "cases.ops");
    let out = a.str_or("out", "impl.out");
    let text = std::fs::read_to_string(&ops).ok()?;
    let mut cases: Vec<Vec<&str>> = vec![];
    for line in text.lines() {
        if line.starts_with("case ") || cases.is_empty() {
            cases.push(vec![]);
        }
        cases.last_mut().unwrap().push(line);
    }
    if cases.len() <= CHUNK {
        return None;
    }
    let exe = std::env::current_exe().ok()?;
    let mut w = std::io::BufWriter::new(std::fs::File::create(&out).ok()?);
    let mut counters: std::collections::BTreeMap<String, u64> = std::collections::BTreeMap::new();
    for (i, chunk) in cases.chunks(CHUNK).enumerate() {
        let cops = format!("{}.chunk{}.ops", out, i);
        let cout = format!("{}.chunk{}.out", out, i);
        let cstats = format!("{}.chunk{}.stats", out, i);
        {
            let mut f = std::io::BufWriter::new(std::fs::File::create(&cops).ok()?);
            for c in chunk {
                for l in c {
                    writeln!(f, "{}", l).ok()?;
                }
            }
        }
        let st = std::process::Command::new(&exe)
            .args(["run", "--ops", &cops, "--out", &cout, "--stats", &cstats])
            .env("DV_CHILD", "1")
            .status()
            .ok()?;
        if !st.success() {
            return Some(st.code().unwrap_or(3));
        }
        w.write_all(&std::fs::read(&cout).ok()?).ok()?;
        if let Ok(t) = std::fs::read_to_string(&cstats) {
            if let Ok(v) = serde_json::from_str::<serde_json::Value>(&t) {
                if let Some(m) = v["counters"].as_object() {
                    for (k, n) in m {
                        *counters.entry(k.clone()).or_insert(0) += n.as_u64().unwrap_or(0);
                    }
                }
            }
        }
        for f in [&cops, &cout, &cstats] {
            let _ = std::fs::remove_file(f);
        }
    }
    w.flush().ok()?;
    if let Some(p) = a.get("stats") {
        let v = serde_json::json!({"counters": counters, "samples": []});
        std::fs::write(p, serde_json::to_string_pretty(&v).unwrap()).ok()?;
    }
    Some(0)
}

fn main() {
    let a = Args::parse();
    match a.cmd.as_str() {
        "gen" => gen::generate(
            &a.str_or("prop", "C02"),
            a.u64_or("seed", 1),
            a.usize_or("n", 100),
            &a.str_or("out", "cases.ops"),
        ),
        "fix" => gen::fix(&a.str_or("ops", "cases.ops"), &a.str_or("out", "fixed.ops")),
        "run" => {
            // every case starts a fresh instance whose service threads outlive it: large files are run by
            // child processes, a few hundred cases each
            if std::env::var("DV_CHILD").is_err() {
                if let Some(code) = chunked(&a) {
                    std::process::exit(code);
                }
            }
            let rt = tokio::runtime::Builder::new_multi_thread()
                .worker_threads(4)
                .enable_all()
                .build()
                .unwrap();
            rt.block_on(world::run(
                &a.str_or("ops", "cases.ops"),
                &a.str_or("out", "impl.out"),
                a.get("stats"),
                a.get("mode").unwrap_or("direct"),
            ));
            // background threads of the dropped instances (sqlite readers/writers, verifier pool) may still be
            // winding down; skip the process-wide atexit handlers (OpenSSL cleanup) they would race with
            unsafe { libc::_exit(0) }
        }
        _ => {
            eprintln!("usage: dv-ingest gen|run|fix …");
            std::process::exit(2);
        }
    }
}
