//! Deterministic construction and signing of the records a remote peer can send.
use discret::verif_hooks::database::edge::{Edge, EdgeDeletionEntry};
use discret::verif_hooks::database::node::{Node, NodeDeletionEntry};
use discret::verif_hooks::security::{
    base64_encode, derive_key, hash, Ed25519SigningKey, SigningKey, Uid,
};
use std::collections::HashMap;

pub const APP_KEY: &str = "dv";
pub const SECRET: [u8; 32] = [7u8; 32];
pub const NKEYS: u64 = 8;

/// the data model of the instance under test; short names: A="0" B="1" C="2"
pub const MODEL: &str = "{
    A { name:String, n:Integer nullable, refs:[A], other:[B] }
    B { name:String, n:Integer nullable }
    C { name:String, n:Integer nullable }
}";

pub fn uid(n: u64) -> Uid {
    let mut u = [0u8; 16];
    u[0] = 0xD1;
    u[1..9].copy_from_slice(&n.to_be_bytes());
    u[15] = 0x1D;
    u
}
pub fn un_uid(u: &[u8]) -> Option<u64> {
    if u.len() == 16 && u[0] == 0xD1 && u[15] == 0x1D && u[9..15].iter().all(|b| *b == 0) {
        let mut b = [0u8; 8];
        b.copy_from_slice(&u[1..9]);
        Some(u64::from_be_bytes(b))
    } else {
        None
    }
}

pub fn key(k: u64) -> Ed25519SigningKey {
    if k == 0 {
        Ed25519SigningKey::create_from(&derive_key(&format!("{} SIGNING_KEY", APP_KEY), &SECRET))
    } else {
        Ed25519SigningKey::create_from(&hash(format!("dv-ingest key {}", k).as_bytes()))
    }
}

pub struct Keys {
    pub keys: Vec<Ed25519SigningKey>,
    pub by_vk: HashMap<Vec<u8>, u64>,
}
impl Keys {
    pub fn new() -> Self {
        let keys: Vec<Ed25519SigningKey> = (0..NKEYS).map(key).collect();
        let mut by_vk = HashMap::new();
        for (i, k) in keys.iter().enumerate() {
            by_vk.insert(k.export_verifying_key(), i as u64);
        }
        Self { keys, by_vk }
    }
    pub fn get(&self, k: u64) -> Option<&Ed25519SigningKey> {
        self.keys.get(k as usize)
    }
    pub fn name(&self, vk: &[u8]) -> u64 {
        self.by_vk.get(vk).copied().unwrap_or(99)
    }
}

/// entity code -> short name stored in `_entity` / `src_entity`
pub fn ent_short(e: u64) -> Option<String> {
    Some(match e {
        1 => "0".into(),
        2 => "1".into(),
        3 => "2".into(),
        9 => "9".into(),
        100..=108 => format!("0.{}", e - 100),
        _ => return None,
    })
}
pub fn ent_code(s: &str) -> u64 {
    match s {
        "0" => 1,
        "1" => 2,
        "2" => 3,
        "9" => 9,
        _ => {
            if let Some(r) = s.strip_prefix("0.") {
                if let Ok(n) = r.parse::<u64>() {
                    if n <= 8 {
                        return 100 + n;
                    }
                }
            }
            999
        }
    }
}
/// entity code -> full name used in rights
pub fn ent_name(e: u64) -> Option<&'static str> {
    Some(match e {
        0 => "*",
        1 => "A",
        2 => "B",
        3 => "C",
        8 => "Z",
        _ => return None,
    })
}

pub const SHAPES: [&str; 10] = [
    "ok", "none", "extra", "null", "wrongtype", "missing", "big", "notobj", "badjson", "ukey",
];
pub fn shape_code(s: &str) -> Option<u64> {
    SHAPES.iter().position(|x| *x == s).map(|p| p as u64)
}
/// the JSON stored in the row and its content tag (as printed in the table dump)
pub fn json_of(shape: &str, v: u64) -> Option<(Option<String>, u64)> {
    let code = shape_code(shape)?;
    if shape == "ukey" {
        // the JSON of a sys.UserAuth row: key `v`, enabled (conforms to that entity only)
        let k = key(v % NKEYS);
        let j = format!("{{\"32\":\"{}\",\"33\":true}}", base64_encode(&k.export_verifying_key()));
        return Some((Some(j), 1_000_000 + 2 * (v % NKEYS) + 1));
    }
    let tag = if code == 1 { 1000 } else { v + 1000 * code };
    let j = match shape {
        "ok" => Some(format!("{{\"32\":\"v{}\"}}", v)),
        "none" => None,
        "extra" => Some(format!("{{\"32\":\"v{}\",\"99\":1}}", v)),
        "null" => Some(format!("{{\"32\":\"v{}\",\"33\":null}}", v)),
        "wrongtype" => Some(format!("{{\"32\":{}}}", v)),
        "missing" => Some(format!("{{\"33\":{}}}", v)),
        "big" => Some(format!("{{\"32\":\"v{}{}\"}}", v, "x".repeat(5000))),
        "notobj" => Some(format!("[{}]", v)),
        "badjson" => Some(format!("{{\"32\":\"v{}\"", v)),
        _ => return None,
    };
    Some((j, tag))
}

pub struct NodeSpec {
    pub id: u64,
    pub room: Option<u64>,
    pub ent: u64,
    pub cdate: i64,
    pub mdate: i64,
    pub key: u64,
    pub json: Option<String>,
    pub sig: bool,
}

/// builds and really signs a node; a node `Node::sign` refuses (JSON that is not an object) is signed
/// over `Node::hash` directly, as a hostile peer would
pub fn node(keys: &Keys, s: &NodeSpec) -> Option<Node> {
    let k = keys.get(s.key)?;
    let mut n = Node {
        id: uid(s.id),
        room_id: s.room.map(uid),
        cdate: s.cdate,
        mdate: s.mdate,
        _entity: ent_short(s.ent)?,
        _json: s.json.clone(),
        _binary: None,
        verifying_key: vec![],
        _signature: vec![],
        _local_id: None,
    };
    if n.sign(k).is_err() {
        n.verifying_key = k.export_verifying_key();
        let h = n.hash().ok()?;
        n._signature = k.sign(h.as_bytes());
    }
    if !s.sig {
        let l = n._signature.len();
        n._signature[l - 1] ^= 0x55;
    }
    Some(n)
}

/// rank of a signature in byte order (first 8 bytes)
pub fn sig_rank(sig: &[u8]) -> u64 {
    let mut b = [0u8; 8];
    b.copy_from_slice(&sig[..8]);
    u64::from_be_bytes(b)
}
pub fn fake_sig(rank: u64) -> Vec<u8> {
    let mut v = vec![0u8; 64];
    v[..8].copy_from_slice(&rank.to_be_bytes());
    v
}

pub struct EdgeSpec {
    pub src: u64,
    pub se: u64,
    pub label: u64,
    pub dst: u64,
    pub cdate: i64,
    pub key: u64,
    pub sig: bool,
}
pub fn edge(keys: &Keys, s: &EdgeSpec) -> Option<Edge> {
    let k = keys.get(s.key)?;
    let mut e = Edge {
        src: uid(s.src),
        src_entity: ent_short(s.se)?,
        label: s.label.to_string(),
        dest: uid(s.dst),
        cdate: s.cdate,
        verifying_key: vec![],
        signature: vec![],
    };
    e.sign(k).ok()?;
    if !s.sig {
        let l = e.signature.len();
        e.signature[l - 1] ^= 0x55;
    }
    Some(e)
}

pub fn node_del(
    keys: &Keys,
    room: u64,
    id: u64,
    ent: u64,
    mdate: i64,
    ddate: i64,
    key: u64,
    sig: bool,
) -> Option<NodeDeletionEntry> {
    let k = keys.get(key)?;
    let stub = Node {
        id: uid(id),
        room_id: Some(uid(room)),
        cdate: mdate,
        mdate,
        _entity: ent_short(ent)?,
        _json: None,
        _binary: None,
        verifying_key: vec![],
        _signature: vec![],
        _local_id: None,
    };
    let mut d = NodeDeletionEntry::build(uid(room), &stub, ddate, k);
    if !sig {
        let l = d.signature.len();
        d.signature[l - 1] ^= 0x55;
    }
    Some(d)
}

#[allow(clippy::too_many_arguments)]
pub fn edge_del(
    keys: &Keys,
    room: u64,
    src: u64,
    se: u64,
    label: u64,
    dst: u64,
    cdate: i64,
    ddate: i64,
    key: u64,
    sig: bool,
) -> Option<EdgeDeletionEntry> {
    let k = keys.get(key)?;
    let stub = Edge {
        src: uid(src),
        src_entity: ent_short(se)?,
        label: label.to_string(),
        dest: uid(dst),
        cdate,
        verifying_key: vec![],
        signature: vec![],
    };
    let mut d = EdgeDeletionEntry::build(uid(room), &stub, ddate, k);
    if !sig {
        let l = d.signature.len();
        d.signature[l - 1] ^= 0x55;
    }
    Some(d)
}

/// JSON of the rows of a room definition
pub fn user_json(keys: &Keys, k: u64, enabled: bool) -> Option<String> {
    let vk = keys.get(k)?.export_verifying_key();
    Some(format!("{{\"32\":\"{}\",\"33\":{}}}", base64_encode(&vk), enabled))
}
pub fn right_json(e: u64, ms: bool, ma: bool) -> Option<String> {
    Some(format!("{{\"32\":\"{}\",\"33\":{},\"34\":{}}}", ent_name(e)?, ms, ma))
}
