//! Structured generators. Honest rows interleaved with the rows a hostile peer can assemble.
//! The small right evaluator below only *biases* the choice of authors and dates (so that honest rows
//! are mostly accepted and attacks are near misses); verdicts come from the real code, the model and
//! the independent oracle in checks/C02.py.
use crate::mk::{self, Keys, NodeSpec};
use dvcommon::{parse_kv, Gen};
use std::collections::HashMap;
use std::io::{BufRead, BufWriter, Write};

#[derive(Clone)]
struct UEntry {
    k: u64,
    t: i64,
    en: bool,
}
#[derive(Clone)]
struct REntry {
    e: u64,
    t: i64,
    ms: bool,
    ma: bool,
}
#[derive(Clone, Default)]
struct GGroup {
    id: u64,
    users: Vec<UEntry>,
    uadmins: Vec<UEntry>,
    rights: Vec<REntry>,
}
#[derive(Clone, Default)]
struct GRoom {
    id: u64,
    admins: Vec<UEntry>,
    groups: Vec<GGroup>,
    sys_ids: Vec<u64>,
}

fn enabled_at(l: &[UEntry], k: u64, d: i64) -> bool {
    l.iter().rev().filter(|u| u.k == k).find(|u| u.t <= d).map(|u| u.en).unwrap_or(false)
}
fn right_at(l: &[REntry], e: u64, d: i64) -> Option<&REntry> {
    l.iter().rev().filter(|r| r.e == e).find(|r| r.t <= d)
}
impl GRoom {
    fn can(&self, k: u64, e: u64, d: i64, all: bool) -> bool {
        let adm = enabled_at(&self.admins, k, d);
        self.groups.iter().any(|g| {
            (adm || enabled_at(&g.users, k, d) || enabled_at(&g.uadmins, k, d))
                && match right_at(&g.rights, e, d).or_else(|| right_at(&g.rights, 0, d)) {
                    Some(r) => {
                        if all {
                            r.ma
                        } else {
                            r.ms || r.ma
                        }
                    }
                    None => false,
                }
        })
    }
}

#[derive(Clone)]
struct Known {
    id: u64,
    room: u64,
    ent: u64,
    key: u64,
    mdate: i64,
}
#[derive(Clone)]
struct KnownEdge {
    src: u64,
    se: u64,
    l: u64,
    dst: u64,
    c: i64,
    k: u64,
    room: u64,
}

struct CaseGen<'a> {
    g: &'a mut Gen,
    keys: &'a Keys,
    out: Vec<String>,
    rooms: Vec<GRoom>,
    known: Vec<Known>,
    edges: Vec<KnownEdge>,
    next_id: u64,
}

const DATES: [i64; 10] = [100, 150, 200, 250, 300, 400, 500, 600, 800, 1000];

impl<'a> CaseGen<'a> {
    fn date(&mut self) -> i64 {
        let d = *self.g.pick(&DATES);
        if self.g.chance(1, 6) {
            d + self.g.range(-3, 3)
        } else {
            d
        }
    }

    fn gen_room(&mut self, base: u64) {
        let mut r = GRoom { id: base, ..Default::default() };
        let mut next = base + 1;
        let mut lines = vec![format!("room id={} t=100 by=0", base)];
        // admins: key 0 from t=100; sometimes key 4 later, sometimes disabled again
        r.admins.push(UEntry { k: 0, t: 100, en: true });
        lines.push(format!("radmin room={} id={} k=0 en=1 t=100 by=0", base, next));
        r.sys_ids.push(next);
        next += 1;
        if self.g.chance(1, 3) {
            let t = *self.g.pick(&[100, 200, 300]);
            r.admins.push(UEntry { k: 4, t, en: true });
            lines.push(format!("radmin room={} id={} k=4 en=1 t={} by=0", base, next, t));
            r.sys_ids.push(next);
            next += 1;
            if self.g.chance(1, 2) {
                let t2 = t + *self.g.pick(&[100, 200, 300]);
                r.admins.push(UEntry { k: 4, t: t2, en: false });
                lines.push(format!("radmin room={} id={} k=4 en=0 t={} by=0", base, next, t2));
                r.sys_ids.push(next);
                next += 1;
            }
        }
        let ngroups = 1 + self.g.below(2);
        for _ in 0..ngroups {
            let gid = next;
            next += 1;
            let mut grp = GGroup { id: gid, ..Default::default() };
            lines.push(format!("rauth room={} id={} t=100 by=0", base, gid));
            r.sys_ids.push(gid);
            // rights
            let nr = 1 + self.g.below(3);
            let mut rl: Vec<REntry> = vec![];
            for _ in 0..nr {
                let e = *self.g.pick(&[1u64, 1, 2, 2, 0, 3]);
                let (ms, ma) = *self.g.pick(&[(true, false), (true, false), (true, true), (false, false)]);
                let t = *self.g.pick(&[100i64, 100, 150, 200, 300]);
                rl.push(REntry { e, t, ms, ma });
                if self.g.chance(1, 3) {
                    let (ms2, ma2) = *self.g.pick(&[(true, false), (true, true), (false, false)]);
                    rl.push(REntry { e, t: t + *self.g.pick(&[100i64, 200, 400]), ms: ms2, ma: ma2 });
                }
            }
            rl.sort_by_key(|x| x.t);
            for x in &rl {
                lines.push(format!(
                    "rright room={} g={} id={} e={} ms={} ma={} t={} by=0",
                    base, gid, next, x.e, x.ms as u8, x.ma as u8, x.t
                ));
                r.sys_ids.push(next);
                next += 1;
            }
            grp.rights = rl;
            // users
            let nu = 1 + self.g.below(3);
            let mut ul: Vec<UEntry> = vec![];
            for _ in 0..nu {
                let k = 1 + self.g.below(3) as u64;
                let t = *self.g.pick(&[100i64, 100, 150, 200, 300]);
                ul.push(UEntry { k, t, en: true });
                if self.g.chance(2, 5) {
                    let t2 = t + *self.g.pick(&[100i64, 200, 300]);
                    ul.push(UEntry { k, t: t2, en: false });
                    if self.g.chance(1, 2) {
                        ul.push(UEntry { k, t: t2 + *self.g.pick(&[100i64, 200]), en: true });
                    }
                }
            }
            ul.sort_by_key(|x| x.t);
            for x in &ul {
                lines.push(format!(
                    "ruser room={} g={} id={} k={} en={} t={} by=0",
                    base, gid, next, x.k, x.en as u8, x.t
                ));
                r.sys_ids.push(next);
                next += 1;
            }
            grp.users = ul;
            if self.g.chance(1, 3) {
                let k = *self.g.pick(&[3u64, 5]);
                let t = *self.g.pick(&[100i64, 200]);
                grp.uadmins.push(UEntry { k, t, en: true });
                lines.push(format!("ruadmin room={} g={} id={} k={} en=1 t={} by=0", base, gid, next, k, t));
                r.sys_ids.push(next);
                next += 1;
            }
            r.groups.push(grp);
        }
        lines.push(format!("install room={}", base));
        self.out.append(&mut lines);
        self.rooms.push(r);
    }

    fn fresh_id(&mut self) -> u64 {
        self.next_id += 1;
        self.next_id
    }

    /// (key, entity, date) that holds the right in `room` (search), or a random triple
    fn honest(&mut self, room: usize, all: bool, ent: Option<u64>, after: i64) -> Option<(u64, u64, i64)> {
        for _ in 0..40 {
            let k = self.g.below(6) as u64;
            let e = ent.unwrap_or_else(|| 1 + self.g.below(3) as u64);
            let d = self.date();
            if d > after && self.rooms[room].can(k, e, d, all) {
                return Some((k, e, d));
            }
        }
        None
    }

    fn node_line(&mut self, s: &NodeSpec, v: u64, js: &str, extra: &str) -> String {
        let (json, _) = mk::json_of(js, v).unwrap();
        let spec = NodeSpec {
            id: s.id,
            room: s.room,
            ent: s.ent,
            cdate: s.cdate,
            mdate: s.mdate,
            key: s.key,
            json,
            sig: s.sig,
        };
        let n = mk::node(self.keys, &spec).expect("node");
        format!(
            "node id={} r={} e={} c={} m={} k={} v={} js={} sig={} sg={}{}",
            s.id,
            s.room.unwrap(),
            s.ent,
            s.cdate,
            s.mdate,
            s.key,
            v,
            js,
            s.sig as u8,
            mk::sig_rank(&n._signature),
            extra
        )
    }

    fn gen_node(&mut self, ri: usize) {
        let room = self.rooms[ri].id;
        let other_room = if self.rooms.len() > 1 { self.rooms[1 - ri.min(1)].id } else { 70 };
        let v = self.g.below(50) as u64;
        let kind = self.g.weighted(&[
            25, 10, 6, 5, 8, 5, 4, 2, 3, 4, 6, 5, 4, 4, 1, 8, 2, 3, 2, 4, 3,
        ]);
        let mut js = "ok".to_string();
        let mut extra = String::new();
        let mut sig = true;
        let in_room: Vec<Known> = self.known.iter().filter(|k| k.room == room).cloned().collect();
        let others: Vec<Known> = self.known.iter().filter(|k| k.room != room).cloned().collect();
        let (id, r, e, c, m, k): (u64, u64, u64, i64, i64, u64);
        match kind {
            // honest new row
            0 => {
                let (hk, he, hd) = self.honest(ri, false, None, 0).unwrap_or((1, 1, 300));
                id = self.fresh_id();
                (r, e, c, m, k) = (room, he, hd, hd, hk);
                if self.g.chance(1, 8) {
                    js = self.g.pick(&["none", "extra"]).to_string();
                }
            }
            // honest update of an own row
            1 if !in_room.is_empty() => {
                let o = self.g.pick(&in_room).clone();
                let d = o.mdate + *self.g.pick(&[1i64, 50, 100, 300]);
                (id, r, e, c, m, k) = (o.id, room, o.ent, o.mdate, d, o.key);
            }
            // update of another author's row by a holder of the all-rows right
            2 if !in_room.is_empty() => {
                let o = self.g.pick(&in_room).clone();
                match self.honest(ri, true, Some(o.ent), o.mdate) {
                    Some((hk, _, hd)) => (id, r, e, c, m, k) = (o.id, room, o.ent, o.mdate, hd, hk),
                    None => (id, r, e, c, m, k) = (o.id, room, o.ent, o.mdate, o.mdate + 100, 0),
                }
            }
            // wrong room named by the row
            3 => {
                let (hk, he, hd) = self.honest(ri, false, None, 0).unwrap_or((1, 1, 300));
                id = self.fresh_id();
                (r, e, c, m, k) = (*self.g.pick(&[other_room, 70]), he, hd, hd, hk);
            }
            // author without any right
            4 => {
                id = self.fresh_id();
                let d = self.date();
                (r, e, c, m, k) = (room, 1 + self.g.below(3) as u64, d, d, *self.g.pick(&[5u64, 6, 7, 1, 2, 3]));
            }
            // author disabled / not yet member at the row's date: take an honest triple and move the date
            5 | 6 => {
                let (hk, he, _) = self.honest(ri, false, None, 0).unwrap_or((1, 1, 300));
                id = self.fresh_id();
                let d = if kind == 5 { self.date() } else { *self.g.pick(&[50i64, 99, 100, 149]) };
                (r, e, c, m, k) = (room, he, d, d, hk);
            }
            // future date
            7 => {
                let (hk, he, _) = self.honest(ri, false, None, 0).unwrap_or((1, 1, 300));
                id = self.fresh_id();
                let d = 1_000_000_000_000 + self.g.below(1000) as i64;
                (r, e, c, m, k) = (room, he, d, d, hk);
            }
            // unknown entity; or a row of a room-definition entity (sys.UserAuth naming the author itself)
            8 => {
                let (hk, _, hd) = self.honest(ri, false, None, 0).unwrap_or((1, 1, 300));
                id = self.fresh_id();
                if self.g.chance(1, 2) {
                    (r, e, c, m, k) = (room, 9, hd, hd, hk);
                } else {
                    (r, e, c, m, k) = (room, 102, hd, hd, hk);
                    js = "ukey".into();
                }
            }
            // an entity the author has no right on
            9 => {
                let (hk, he, hd) = self.honest(ri, false, None, 0).unwrap_or((1, 1, 300));
                id = self.fresh_id();
                let e2 = 1 + (he % 3);
                (r, e, c, m, k) = (room, e2, hd, hd, hk);
            }
            // replace another author's row without the all-rows right
            10 if !in_room.is_empty() => {
                let o = self.g.pick(&in_room).clone();
                let (hk, _, hd) = self.honest(ri, false, Some(o.ent), o.mdate).unwrap_or((2, o.ent, o.mdate + 100));
                (id, r, e, c, m, k) = (o.id, room, o.ent, o.mdate, hd, hk);
            }
            // move a row of another room into this one
            11 if !others.is_empty() => {
                let o = self.g.pick(&others).clone();
                let coin = self.g.chance(1, 2);
                let (hk, _, hd) = self.honest(ri, coin, Some(o.ent), o.mdate).unwrap_or((o.key, o.ent, o.mdate + 100));
                let kk = if self.g.chance(1, 2) { o.key } else { hk };
                (id, r, e, c, m, k) = (o.id, room, o.ent, o.mdate, hd, kk);
            }
            // same id, another entity
            12 if !self.known.is_empty() => {
                let o = self.g.pick(&self.known).clone();
                let e2 = 1 + (o.ent % 3);
                let coin = self.g.chance(1, 2);
                let (hk, _, hd) = self.honest(ri, coin, Some(e2), o.mdate).unwrap_or((o.key, e2, o.mdate + 100));
                (id, r, e, c, m, k) = (o.id, room, e2, o.mdate, hd, hk);
            }
            // the id of a row of a room definition
            13 => {
                let rr = self.g.below(self.rooms.len());
                let sid = *self.g.pick(&self.rooms[rr].sys_ids.clone());
                let sid = if self.g.chance(1, 4) { self.rooms[rr].id } else { sid };
                let coin = self.g.chance(1, 2);
                let (hk, he, _) = self.honest(ri, coin, None, 0).unwrap_or((0, 1, 300));
                let d = *self.g.pick(&[301i64, 601, 1001, 99]);
                (id, r, e, c, m, k) = (sid, room, he, d, d, hk);
            }
            // tampered after signing
            14 => {
                let (hk, he, hd) = self.honest(ri, false, None, 0).unwrap_or((1, 1, 300));
                id = self.fresh_id();
                (r, e, c, m, k) = (room, he, hd, hd, hk);
                sig = false;
            }
            // JSON that violates the data model
            15 => {
                let (hk, he, hd) = self.honest(ri, false, None, 0).unwrap_or((1, 1, 300));
                id = self.fresh_id();
                (r, e, c, m, k) = (room, he, hd, hd, hk);
                js = self.g.pick(&["null", "wrongtype", "missing", "none", "extra", "null", "wrongtype", "missing", "none", "extra", "notobj", "badjson"]).to_string();
            }
            // oversized
            16 => {
                let (hk, he, hd) = self.honest(ri, false, None, 0).unwrap_or((1, 1, 300));
                id = self.fresh_id();
                (r, e, c, m, k) = (room, he, hd, hd, hk);
                js = "big".into();
            }
            // the announcement lies about the date (gets an older version past the last-writer-wins filter)
            17 if !in_room.is_empty() => {
                let o = self.g.pick(&in_room).clone();
                let d = o.mdate - *self.g.pick(&[1i64, 50]);
                (id, r, e, c, m, k) = (o.id, room, o.ent, d.min(o.mdate), d, o.key);
                extra = format!(" ad={}", o.mdate + 500);
            }
            // the same id twice in one batch
            18 if !self.out.is_empty() => {
                let (hk, he, hd) = self.honest(ri, false, None, 0).unwrap_or((1, 1, 300));
                id = self.next_id.max(1);
                (r, e, c, m, k) = (room, he, hd, hd, hk);
            }
            // stale: older than the local version
            19 if !in_room.is_empty() => {
                let o = self.g.pick(&in_room).clone();
                let d = o.mdate - *self.g.pick(&[1i64, 50, 100]);
                (id, r, e, c, m, k) = (o.id, room, o.ent, d, d, o.key);
            }
            // same date as the local version (signature tie-break)
            20 if !in_room.is_empty() => {
                let o = self.g.pick(&in_room).clone();
                (id, r, e, c, m, k) = (o.id, room, o.ent, o.mdate, o.mdate, o.key);
            }
            _ => {
                let (hk, he, hd) = self.honest(ri, false, None, 0).unwrap_or((1, 1, 300));
                id = self.fresh_id();
                (r, e, c, m, k) = (room, he, hd, hd, hk);
            }
        }
        let spec = NodeSpec { id, room: Some(r), ent: e, cdate: c, mdate: m, key: k, json: None, sig };
        let line = self.node_line(&spec, v, &js, &extra);
        self.out.push(line);
        // what the generator believes is stored afterwards (bias only)
        let need_all = self.known.iter().find(|x| x.id == id).map(|x| x.key != k).unwrap_or(false);
        let believed = sig
            && r == room
            && e <= 3
            && matches!(js.as_str(), "ok" | "none" | "extra")
            && self.rooms[ri].can(k, e, m, need_all)
            && self.known.iter().find(|x| x.id == id).map(|x| x.mdate < m || !extra.is_empty()).unwrap_or(true);
        if believed {
            self.known.retain(|x| x.id != id);
            self.known.push(Known { id, room: r, ent: e, key: k, mdate: m });
        }
    }

    fn gen_edge(&mut self, ri: usize) {
        let room = self.rooms[ri].id;
        let in_room: Vec<Known> = self.known.iter().filter(|k| k.room == room).cloned().collect();
        let others: Vec<Known> = self.known.iter().filter(|k| k.room != room).cloned().collect();
        if in_room.is_empty() && self.g.chance(9, 10) {
            self.gen_node(ri);
            return;
        }
        let kind = self.g.weighted(&[14, 4, 2, 3, 5, 3, 1, 3, 1]);
        let mut sig = true;
        let any_dst = |s: &mut Self| -> u64 {
            if !s.known.is_empty() && s.g.chance(3, 4) {
                s.g.pick(&s.known).id
            } else {
                900 + s.g.below(5) as u64
            }
        };
        let (src, se, l, dst, c, k): (u64, u64, u64, u64, i64, u64);
        match kind {
            0 if !in_room.is_empty() => {
                let o = self.g.pick(&in_room).clone();
                let (hk, _, hd) = self.honest(ri, false, Some(o.ent), 0).unwrap_or((o.key, o.ent, o.mdate));
                (src, se, l, dst, c, k) = (o.id, o.ent, *self.g.pick(&[34u64, 35]), any_dst(self), hd, hk);
            }
            // source row in another room
            1 if !others.is_empty() => {
                let o = self.g.pick(&others).clone();
                let (hk, he, hd) = self.honest(ri, false, None, 0).unwrap_or((1, 1, 300));
                let se2 = if self.g.chance(1, 2) { o.ent } else { he };
                (src, se, l, dst, c, k) = (o.id, se2, 34, any_dst(self), hd, hk);
            }
            // source row that does not exist
            2 => {
                let (hk, he, hd) = self.honest(ri, false, None, 0).unwrap_or((1, 1, 300));
                (src, se, l, dst, c, k) = (950 + self.g.below(5) as u64, he, 34, any_dst(self), hd, hk);
            }
            // source is a row of a room definition (admin / user list of some room)
            3 => {
                let rr = self.g.below(self.rooms.len());
                let rid = self.rooms[rr].id;
                let gid = self.rooms[rr].groups[0].id;
                let (hk, he, hd) = self.honest(ri, false, None, 0).unwrap_or((1, 1, 300));
                let (s2, se2, l2) = *self.g.pick(&[(rid, 100u64, 32u64), (gid, 101, 34), (gid, 101, 35), (rid, he, 32)]);
                (src, se, l, dst, c, k) = (s2, se2, l2, any_dst(self), hd, hk);
            }
            // same (src,label,dest) as an existing reference, by someone else
            4 if !self.edges.is_empty() => {
                let o = self.g.pick(&self.edges).clone();
                let (hk, _, hd) = self.honest(ri, false, Some(o.se), 0).unwrap_or((1, o.se, 300));
                (src, se, l, dst, c, k) = (o.src, o.se, o.l, o.dst, hd, hk);
            }
            // the edge names an entity the author may write, the source row is of another entity
            5 if !in_room.is_empty() => {
                let o = self.g.pick(&in_room).clone();
                let (hk, he, hd) = self.honest(ri, false, None, 0).unwrap_or((1, 1, 300));
                (src, se, l, dst, c, k) = (o.id, he, 34, any_dst(self), hd, hk);
            }
            6 => {
                let (hk, _, hd) = self.honest(ri, false, None, 0).unwrap_or((1, 1, 300));
                let s2 = if in_room.is_empty() { 950 } else { self.g.pick(&in_room).id };
                (src, se, l, dst, c, k) = (s2, 9, 34, any_dst(self), hd, hk);
            }
            // author without the right
            7 => {
                let s2 = if in_room.is_empty() { 950 } else { self.g.pick(&in_room).id };
                let e2 = in_room.iter().find(|x| x.id == s2).map(|x| x.ent).unwrap_or(1);
                let d = self.date();
                (src, se, l, dst, c, k) = (s2, e2, 34, any_dst(self), d, *self.g.pick(&[5u64, 6, 7, 1, 2]));
            }
            8 => {
                let (hk, he, hd) = self.honest(ri, false, None, 0).unwrap_or((1, 1, 300));
                let s2 = if in_room.is_empty() { 950 } else { self.g.pick(&in_room).id };
                (src, se, l, dst, c, k) = (s2, he, 34, any_dst(self), hd, hk);
                sig = false;
            }
            _ => {
                let (hk, he, hd) = self.honest(ri, false, None, 0).unwrap_or((1, 1, 300));
                let s2 = if in_room.is_empty() { 950 } else { self.g.pick(&in_room).id };
                (src, se, l, dst, c, k) = (s2, he, 34, any_dst(self), hd, hk);
            }
        }
        self.out.push(format!(
            "edge src={} se={} l={} dst={} c={} k={} sig={}",
            src, se, l, dst, c, k, sig as u8
        ));
        if sig && se <= 3 && self.rooms[ri].can(k, se, c, false) {
            self.edges.retain(|x| !(x.src == src && x.l == l && x.dst == dst));
            self.edges.push(KnownEdge { src, se, l, dst, c, k, room });
        }
    }

    fn gen_ndel(&mut self, ri: usize) {
        let room = self.rooms[ri].id;
        let other_room = if self.rooms.len() > 1 { self.rooms[1 - ri.min(1)].id } else { 70 };
        let in_room: Vec<Known> = self.known.iter().filter(|k| k.room == room).cloned().collect();
        let others: Vec<Known> = self.known.iter().filter(|k| k.room != room).cloned().collect();
        let kind = self.g.weighted(&[10, 6, 8, 8, 8, 2, 4, 1, 4]);
        let mut sig = true;
        let (r, id, e, m, d, k): (u64, u64, u64, i64, i64, u64);
        let pick = |s: &mut Self, l: &Vec<Known>| -> Known {
            if l.is_empty() {
                Known { id: 960, room, ent: 1, key: 1, mdate: 300 }
            } else {
                s.g.pick(l).clone()
            }
        };
        match kind {
            // own row
            0 => {
                let o = pick(self, &in_room);
                (r, id, e, m, d, k) = (room, o.id, o.ent, o.mdate, o.mdate + *self.g.pick(&[0i64, 10, 100, 300]), o.key);
            }
            // by a holder of the all-rows right
            1 => {
                let o = pick(self, &in_room);
                let (hk, _, hd) = self.honest(ri, true, Some(o.ent), 0).unwrap_or((0, o.ent, o.mdate + 100));
                (r, id, e, m, d, k) = (room, o.id, o.ent, o.mdate, hd, hk);
            }
            // another author's row with the own-rows right only
            2 => {
                let o = pick(self, &in_room);
                let (hk, _, hd) = self.honest(ri, false, Some(o.ent), 0).unwrap_or((2, o.ent, o.mdate + 100));
                (r, id, e, m, d, k) = (room, o.id, o.ent, o.mdate, hd, hk);
            }
            // the record names another entity than the row's
            3 => {
                let o = pick(self, &in_room);
                let e2 = 1 + (o.ent % 3);
                let coin = self.g.chance(1, 2);
                let (hk, _, hd) = self.honest(ri, coin, Some(e2), 0).unwrap_or((0, e2, o.mdate + 100));
                (r, id, e, m, d, k) = (room, o.id, e2, o.mdate, hd, hk);
            }
            // a record of another room, sent while this room is synchronised
            4 => {
                let o = pick(self, &others);
                let oi = self.rooms.iter().position(|x| x.id == o.room).unwrap_or(ri);
                let coin = self.g.chance(1, 2);
                let (hk, _, hd) = self.honest(oi, coin, Some(o.ent), 0).unwrap_or((o.key, o.ent, o.mdate + 100));
                (r, id, e, m, d, k) = (if others.is_empty() { other_room } else { o.room }, o.id, o.ent, o.mdate, hd, hk);
            }
            5 => {
                let o = pick(self, &in_room);
                (r, id, e, m, d, k) = (70, o.id, o.ent, o.mdate, o.mdate + 100, o.key);
            }
            // nothing to delete
            6 => {
                let (hk, he, hd) = self.honest(ri, false, None, 0).unwrap_or((1, 1, 300));
                (r, id, e, m, d, k) = (room, 970 + self.g.below(3) as u64, he, hd, hd + 10, hk);
            }
            7 => {
                let o = pick(self, &in_room);
                (r, id, e, m, d, k) = (room, o.id, o.ent, o.mdate, o.mdate + 100, o.key);
                sig = false;
            }
            // deletion dated before the author had the right
            _ => {
                let o = pick(self, &in_room);
                (r, id, e, m, d, k) = (room, o.id, o.ent, o.mdate, *self.g.pick(&[50i64, 99, 120]), o.key);
            }
        }
        self.out.push(format!("ndel r={} id={} e={} m={} d={} k={} sig={}", r, id, e, m, d, k, sig as u8));
        let need_all = self.known.iter().find(|x| x.id == id).map(|x| x.key != k).unwrap_or(false);
        if let Some(rr) = self.rooms.iter().find(|x| x.id == r) {
            if sig && e <= 3 && rr.can(k, e, d, need_all) {
                self.known.retain(|x| !(x.id == id && x.room == r));
            }
        }
    }

    fn gen_edel(&mut self, ri: usize) {
        let room = self.rooms[ri].id;
        let kind = self.g.weighted(&[10, 6, 6, 4, 1]);
        let o = if self.edges.is_empty() {
            KnownEdge { src: 980, se: 1, l: 34, dst: 981, c: 300, k: 1, room }
        } else {
            self.g.pick(&self.edges).clone()
        };
        let mut sig = true;
        let (r, k, d): (u64, u64, i64);
        match kind {
            0 => (r, k, d) = (o.room, o.k, o.c + *self.g.pick(&[0i64, 10, 100])),
            // by somebody else
            1 => {
                let oi = self.rooms.iter().position(|x| x.id == o.room).unwrap_or(ri);
                let coin = self.g.chance(1, 2);
                let (hk, _, hd) = self.honest(oi, coin, Some(o.se), 0).unwrap_or((2, o.se, o.c + 100));
                (r, k, d) = (o.room, hk, hd);
            }
            // the record names the synchronised room, the reference's source row is elsewhere (or vice versa)
            2 => {
                let coin = self.g.chance(1, 2);
                let (hk, _, hd) = self.honest(ri, coin, Some(o.se), 0).unwrap_or((o.k, o.se, o.c + 100));
                (r, k, d) = (room, hk, hd);
            }
            3 => (r, k, d) = (*self.g.pick(&[70u64, room]), *self.g.pick(&[5u64, 6, 7]), o.c + 100),
            _ => {
                (r, k, d) = (o.room, o.k, o.c + 100);
                sig = false;
            }
        }
        self.out.push(format!(
            "edel r={} src={} se={} l={} dst={} c={} d={} k={} sig={}",
            r, o.src, o.se, o.l, o.dst, o.c, d, k, sig as u8
        ));
    }
}

fn gen_c02(g: &mut Gen, keys: &Keys, id: usize) -> Vec<String> {
    let mut cg = CaseGen {
        g,
        keys,
        out: vec![format!("case id={}", id)],
        rooms: vec![],
        known: vec![],
        edges: vec![],
        next_id: 200,
    };
    cg.gen_room(10);
    if cg.g.chance(3, 5) {
        cg.gen_room(40);
    }
    let rounds = 1 + cg.g.below(4);
    for _ in 0..rounds {
        let ri = if cg.rooms.len() > 1 && cg.g.chance(1, 3) { 1 } else { 0 };
        let n = 1 + cg.g.below(12);
        let mut has_node = false;
        for _ in 0..n {
            match cg.g.weighted(&[10, 5, 3, 2]) {
                0 => {
                    cg.gen_node(ri);
                    has_node = true;
                }
                1 => cg.gen_edge(ri),
                2 => cg.gen_ndel(ri),
                _ => cg.gen_edel(ri),
            }
        }
        if !has_node && cg.g.chance(4, 5) {
            cg.gen_node(ri);
        }
        let sr = if cg.g.chance(1, 25) { 70 } else { cg.rooms[ri].id };
        // a third of the days go through the real `synchronise_day` (the caller then only sees Ok/Err)
        let op = if cg.g.chance(1, 3) { "rsync" } else { "sync" };
        cg.out.push(format!("{} r={}", op, sr));
    }
    cg.out
}


// ------------------------------------------------------------------------------------------ C07

#[derive(Clone)]
enum PBody {
    User(u64, bool),
    Right(u64, bool, bool),
    Name(u64),
    #[allow(dead_code)]
    Absent,
}
#[derive(Clone)]
struct PRow {
    /// pool key when it differs from the id (several rows with one id)
    p: Option<u64>,
    id: u64,
    ent: u64,
    c: i64,
    m: i64,
    by: u64,
    body: PBody,
    sig: bool,
}
#[derive(Clone, Default)]
struct LDef {
    rows: Vec<u64>,
    edges: Vec<u64>,
}
#[derive(Clone, Default)]
struct GDef {
    id: u64,
    rights: LDef,
    users: LDef,
    uadmins: LDef,
}
#[derive(Clone, Default)]
struct RDef {
    room: u64,
    admins: LDef,
    auths: Vec<GDef>,
    authedges: Vec<u64>,
}

struct C07Gen<'a> {
    g: &'a mut Gen,
    out: Vec<String>,
    next_row: u64,
    next_edge: u64,
    rows: HashMap<u64, PRow>,
    /// (group, key): user admins enabled at 100 and disabled at 400 in the stored definition
    closed_uadmins: Vec<(u64, u64)>,
}

fn join_u(v: &[u64]) -> String {
    v.iter().map(|x| x.to_string()).collect::<Vec<_>>().join(",")
}

impl<'a> C07Gen<'a> {
    fn srow(&mut self, r: &PRow) {
        let body = match &r.body {
            PBody::User(k, en) => format!("body=user k={} en={}", k, *en as u8),
            PBody::Right(e, ms, ma) => format!("body=right e={} ms={} ma={}", e, *ms as u8, *ma as u8),
            PBody::Name(v) => format!("body=name v={}", v),
            PBody::Absent => "body=none".to_string(),
        };
        let pk = match r.p {
            Some(p) => format!("p={} ", p),
            None => String::new(),
        };
        self.out.push(format!(
            "srow {}id={} ent={} c={} m={} by={} {}{}",
            pk,
            r.id,
            r.ent,
            r.c,
            r.m,
            r.by,
            body,
            if r.sig { "" } else { " sig=0" }
        ));
        self.rows.insert(r.p.unwrap_or(r.id), r.clone());
    }
    fn new_row(&mut self, ent: u64, t: i64, by: u64, body: PBody) -> u64 {
        self.next_row += 1;
        let r = PRow { p: None, id: self.next_row, ent, c: t, m: t, by, body, sig: true };
        self.srow(&r);
        r.id
    }
    #[allow(clippy::too_many_arguments)]
    fn new_edge(&mut self, src: u64, se: u64, l: u64, dst: u64, c: i64, by: u64, sig: bool) -> u64 {
        self.next_edge += 1;
        self.out.push(format!(
            "sedge n={} src={} se={} l={} dst={} c={} by={}{}",
            self.next_edge,
            src,
            se,
            l,
            dst,
            c,
            by,
            if sig { "" } else { " sig=0" }
        ));
        self.next_edge
    }
    /// an entry with its honest placing reference
    #[allow(clippy::too_many_arguments)]
    fn entry(&mut self, l: &mut LDef, owner: u64, owner_ent: u64, label: u64, ent: u64, t: i64, by: u64, body: PBody) -> u64 {
        let id = self.new_row(ent, t, by, body);
        let e = self.new_edge(owner, owner_ent, label, id, t, by, true);
        l.rows.push(id);
        l.edges.push(e);
        id
    }
    /// an entry whose creation date differs from its (history) date, with its placing reference
    #[allow(clippy::too_many_arguments)]
    fn entry_cm(&mut self, l: &mut LDef, owner: u64, owner_ent: u64, label: u64, ent: u64, c: i64, m: i64, by: u64, body: PBody) -> u64 {
        self.next_row += 1;
        let r = PRow { p: None, id: self.next_row, ent, c, m, by, body, sig: true };
        self.srow(&r);
        let e = self.new_edge(owner, owner_ent, label, r.id, c, by, true);
        l.rows.push(r.id);
        l.edges.push(e);
        r.id
    }
    fn emit(&mut self, d: &RDef) {
        self.out.push(format!(
            "cand room={} admins={} aedges={} auths={} authedges={}",
            d.room,
            join_u(&d.admins.rows),
            join_u(&d.admins.edges),
            join_u(&d.auths.iter().map(|a| a.id).collect::<Vec<_>>()),
            join_u(&d.authedges)
        ));
        for a in &d.auths {
            self.out.push(format!(
                "cauth room={} id={} rights={} redges={} users={} uedges={} uadmins={} uaedges={}",
                d.room,
                a.id,
                join_u(&a.rights.rows),
                join_u(&a.rights.edges),
                join_u(&a.users.rows),
                join_u(&a.users.edges),
                join_u(&a.uadmins.rows),
                join_u(&a.uadmins.edges)
            ));
        }
    }
    fn group(&mut self, d: &mut RDef, t: i64, by: u64, with_users_by: Option<u64>) -> usize {
        let gid = self.new_row(101, t, by, PBody::Name(1));
        let e = self.new_edge(d.room, 100, 33, gid, t, by, true);
        d.authedges.push(e);
        let mut gd = GDef { id: gid, ..Default::default() };
        let nr = 1 + self.g.below(2);
        for _ in 0..nr {
            let ent = *self.g.pick(&[1u64, 2, 0]);
            let (ms, ma) = *self.g.pick(&[(true, false), (true, true), (false, false)]);
            self.entry(&mut gd.rights, gid, 101, 33, 103, t, by, PBody::Right(ent, ms, ma));
        }
        if self.g.chance(2, 3) {
            let k = *self.g.pick(&[3u64, 5]);
            self.entry(&mut gd.uadmins, gid, 101, 35, 102, t, by, PBody::User(k, true));
            if t == 100 && by == 0 && self.g.chance(1, 2) {
                // a user admin with a closed validity window [100, 400)
                self.entry(&mut gd.uadmins, gid, 101, 35, 102, 400, 0, PBody::User(k, false));
                self.closed_uadmins.push((gid, k));
            }
        }
        if let Some(uby) = with_users_by {
            let nu = 1 + self.g.below(2);
            for _ in 0..nu {
                let k = 1 + self.g.below(3) as u64;
                self.entry(&mut gd.users, gid, 101, 34, 102, t, uby, PBody::User(k, true));
            }
        }
        d.auths.push(gd);
        d.auths.len() - 1
    }
}

const PROBE_DATES: &str = "99,100,150,200,250,300,400,500,600,800";

fn gen_c07(g: &mut Gen, id: usize) -> Vec<String> {
    let mut cg = C07Gen { g, out: vec![format!("case id={}", id)], next_row: 100, next_edge: 0, rows: HashMap::new(), closed_uadmins: vec![] };
    // ---- the room as its admin (key 0) created it
    let room = 10u64;
    cg.srow(&PRow { p: None, id: room, ent: 100, c: 100, m: 100, by: 0, body: PBody::Name(0), sig: true });
    let mut d = RDef { room, ..Default::default() };
    let mut adm = std::mem::take(&mut d.admins);
    cg.entry(&mut adm, room, 100, 32, 102, 100, 0, PBody::User(0, true));
    let key4_admin = cg.g.chance(2, 3);
    let mut key4_closed = false; // admin in [200, 400) only
    if key4_admin {
        cg.entry(&mut adm, room, 100, 32, 102, 200, 0, PBody::User(4, true));
        if cg.g.chance(1, 2) {
            cg.entry(&mut adm, room, 100, 32, 102, 400, 0, PBody::User(4, false));
            key4_closed = true;
        }
    }
    d.admins = adm;
    let ng = 1 + cg.g.below(2);
    for _ in 0..ng {
        cg.group(&mut d, 100, 0, Some(0));
    }
    cg.emit(&d);
    cg.out.push(format!("install room={}", room));
    cg.out.push("dump".to_string());
    cg.out.push(format!("probe room={} dates={}", room, PROBE_DATES));
    // ---- a second room of the same admin: material for replays
    let mut other_rows: Vec<u64> = vec![];
    let mut other_group: Option<GDef> = None;
    if cg.g.chance(1, 2) {
        let z = 40u64;
        cg.srow(&PRow { p: None, id: z, ent: 100, c: 100, m: 100, by: 0, body: PBody::Name(0), sig: true });
        let mut dz = RDef { room: z, ..Default::default() };
        let mut az = LDef::default();
        cg.entry(&mut az, z, 100, 32, 102, 100, 0, PBody::User(0, true));
        let body = PBody::User(*cg.g.pick(&[2u64, 6]), true);
        let u = cg.entry(&mut az, z, 100, 32, 102, 300, 0, body);
        other_rows.push(u);
        dz.admins = az;
        let gi = cg.group(&mut dz, 100, 0, Some(0));
        other_rows.extend(dz.auths[gi].users.rows.iter());
        other_rows.extend(dz.auths[gi].rights.rows.iter());
        other_group = Some(dz.auths[gi].clone());
        // a room not seen before must replay as a whole: sometimes one entry is not entitled
        if cg.g.chance(1, 3) {
            let gz = dz.auths[gi].id;
            let by = *cg.g.pick(&[6u64, 2, 3]);
            let tt = *cg.g.pick(&[100i64, 300, 50]);
            match cg.g.below(4) {
                0 => {
                    let mut l = std::mem::take(&mut dz.auths[gi].users);
                    cg.entry(&mut l, gz, 101, 34, 102, tt, by, PBody::User(by, true));
                    dz.auths[gi].users = l;
                }
                1 => {
                    let mut l = std::mem::take(&mut dz.auths[gi].rights);
                    cg.entry(&mut l, gz, 101, 33, 103, tt, by, PBody::Right(0, true, true));
                    dz.auths[gi].rights = l;
                }
                2 => {
                    let mut l = std::mem::take(&mut dz.admins);
                    cg.entry(&mut l, z, 100, 32, 102, tt, by, PBody::User(by, true));
                    dz.admins = l;
                }
                _ => {
                    let mut l = std::mem::take(&mut dz.auths[gi].uadmins);
                    cg.entry(&mut l, gz, 101, 35, 102, tt, by, PBody::User(by, true));
                    dz.auths[gi].uadmins = l;
                }
            }
        }
        cg.emit(&dz);
        cg.out.push(format!("install room={}", z));
        cg.out.push("dump".to_string());
        cg.out.push(format!("probe room={} dates={}", z, PROBE_DATES));
    }
    // ---- candidates received from peers
    let rounds = 1 + cg.g.below(4);
    for _ in 0..rounds {
        let mut c = d.clone();
        let kind = cg.g.weighted(&[6, 5, 4, 4, 4, 3, 5, 4, 4, 3, 3, 3, 3, 3, 3, 3, 3, 2, 2, 6, 4, 7, 5, 2, 5]);
        let t = *cg.g.pick(&[150i64, 250, 300, 350, 500, 600]);
        let gi = cg.g.below(c.auths.len());
        let gid = c.auths[gi].id;
        let mut honest = false;
        match kind {
            // a user added by an admin / by a user admin of the group
            0 => {
                let by = if cg.g.chance(1, 2) { 0 } else { *cg.g.pick(&[3u64, 5, 4]) };
                let mut l = std::mem::take(&mut c.auths[gi].users);
                let body = PBody::User(1 + cg.g.below(3) as u64, cg.g.chance(3, 4));
                cg.entry(&mut l, gid, 101, 34, 102, t, by, body);
                c.auths[gi].users = l;
                honest = by == 0;
            }
            // a new admin / an admin disabled
            1 => {
                let by = *cg.g.pick(&[0u64, 0, 4]);
                let mut l = std::mem::take(&mut c.admins);
                let body = PBody::User(*cg.g.pick(&[4u64, 1, 0]), cg.g.chance(2, 3));
                cg.entry(&mut l, room, 100, 32, 102, t, by, body);
                c.admins = l;
                honest = by == 0;
            }
            // a right replaced, a user admin added
            2 => {
                let by = *cg.g.pick(&[0u64, 0, 4, 3]);
                if cg.g.chance(1, 2) {
                    let mut l = std::mem::take(&mut c.auths[gi].rights);
                    let body = PBody::Right(*cg.g.pick(&[1u64, 2, 0]), cg.g.chance(1, 2), cg.g.chance(1, 3));
                    cg.entry(&mut l, gid, 101, 33, 103, t, by, body);
                    c.auths[gi].rights = l;
                } else {
                    let mut l = std::mem::take(&mut c.auths[gi].uadmins);
                    let body = PBody::User(*cg.g.pick(&[3u64, 5, 2]), cg.g.chance(3, 4));
                    cg.entry(&mut l, gid, 101, 35, 102, t, by, body);
                    c.auths[gi].uadmins = l;
                }
                honest = by == 0;
            }
            // a new group: by an admin without users; with users signed by the admin (third rule);
            // with users signed by its own user admin; with a user-admin entry signed by anybody
            3 => {
                let variant = cg.g.below(4);
                let by = if variant == 3 { *cg.g.pick(&[0u64, 6]) } else { 0 };
                let gi2 = cg.group(&mut c, t, by, if variant == 1 { Some(0) } else { None });
                let g2 = c.auths[gi2].id;
                if variant >= 2 {
                    let mut ua = std::mem::take(&mut c.auths[gi2].uadmins);
                    let signer = *cg.g.pick(&[6u64, 7, 2]);
                    cg.entry(&mut ua, g2, 101, 35, 102, t, signer, PBody::User(signer, true));
                    c.auths[gi2].uadmins = ua;
                    let mut us = std::mem::take(&mut c.auths[gi2].users);
                    cg.entry(&mut us, g2, 101, 34, 102, t, signer, PBody::User(signer, true));
                    c.auths[gi2].users = us;
                }
                honest = variant == 0;
            }
            // entry by somebody who is not entitled (outsider, plain user, disabled admin, too early)
            4 => {
                let by = *cg.g.pick(&[6u64, 7, 1, 2, 4]);
                let tt = if cg.g.chance(1, 3) { 99 } else { t };
                match cg.g.below(3) {
                    0 => {
                        let mut l = std::mem::take(&mut c.admins);
                        cg.entry(&mut l, room, 100, 32, 102, tt, by, PBody::User(by, true));
                        c.admins = l;
                    }
                    1 => {
                        let mut l = std::mem::take(&mut c.auths[gi].rights);
                        cg.entry(&mut l, gid, 101, 33, 103, tt, by, PBody::Right(0, true, true));
                        c.auths[gi].rights = l;
                    }
                    _ => {
                        let mut l = std::mem::take(&mut c.auths[gi].uadmins);
                        cg.entry(&mut l, gid, 101, 35, 102, tt, by, PBody::User(by, true));
                        c.auths[gi].uadmins = l;
                    }
                }
            }
            // cross-list replay: an entry the admin signed for one list is placed in another one,
            // with a placing reference signed by the relaying peer
            5 | 6 => {
                let mut src: Vec<u64> = vec![];
                src.extend(c.admins.rows.iter());
                for a in &c.auths {
                    src.extend(a.users.rows.iter());
                    src.extend(a.uadmins.rows.iter());
                }
                let pick = *cg.g.pick(&src);
                let row = cg.rows.get(&pick).cloned().unwrap();
                let signer = *cg.g.pick(&[6u64, 2, 1]);
                match cg.g.below(3) {
                    0 if !c.admins.rows.contains(&pick) => {
                        let e = cg.new_edge(room, 100, 32, pick, row.m, signer, true);
                        c.admins.rows.push(pick);
                        c.admins.edges.push(e);
                    }
                    1 if !c.auths[gi].uadmins.rows.contains(&pick) => {
                        let e = cg.new_edge(gid, 101, 35, pick, row.m, signer, true);
                        c.auths[gi].uadmins.rows.push(pick);
                        c.auths[gi].uadmins.edges.push(e);
                    }
                    _ if !c.auths[gi].users.rows.contains(&pick) => {
                        let e = cg.new_edge(gid, 101, 34, pick, row.m, signer, true);
                        c.auths[gi].users.rows.push(pick);
                        c.auths[gi].users.edges.push(e);
                    }
                    _ => {}
                }
            }
            // cross-room replay: an entry of the other room of the same admin
            7 if !other_rows.is_empty() => {
                let pick = *cg.g.pick(&other_rows);
                let row = cg.rows.get(&pick).cloned().unwrap();
                let signer = *cg.g.pick(&[6u64, 2]);
                match row.body {
                    PBody::Right(..) => {
                        let e = cg.new_edge(gid, 101, 33, pick, row.m, signer, true);
                        c.auths[gi].rights.rows.push(pick);
                        c.auths[gi].rights.edges.push(e);
                    }
                    _ => {
                        if cg.g.chance(1, 2) {
                            let e = cg.new_edge(room, 100, 32, pick, row.m, signer, true);
                            c.admins.rows.push(pick);
                            c.admins.edges.push(e);
                        } else {
                            let e = cg.new_edge(gid, 101, 34, pick, row.m, signer, true);
                            c.auths[gi].users.rows.push(pick);
                            c.auths[gi].users.edges.push(e);
                        }
                    }
                }
            }
            // honest new entry whose placing reference is wrong (label, source entity, author)
            8 => {
                let uk = 1 + cg.g.below(3) as u64;
                let id = cg.new_row(102, t, 0, PBody::User(uk, true));
                let (l, se, by) = *cg.g.pick(&[(35u64, 101u64, 0u64), (34, 100, 0), (34, 101, 6), (99, 101, 0), (34, 1, 0)]);
                let e = cg.new_edge(gid, se, l, id, t, by, true);
                c.auths[gi].users.rows.push(id);
                c.auths[gi].users.edges.push(e);
            }
            // omissions (a peer that holds an older or a partial definition)
            9 => {
                if cg.g.chance(1, 2) && c.admins.rows.len() > 1 {
                    c.admins.rows.pop();
                    c.admins.edges.pop();
                } else if !c.auths[gi].users.rows.is_empty() {
                    c.auths[gi].users.rows.remove(0);
                    c.auths[gi].users.edges.remove(0);
                } else if c.auths.len() > 1 {
                    c.auths.pop();
                    c.authedges.pop();
                }
                let mut l = std::mem::take(&mut c.auths[0].users);
                let g0 = c.auths[0].id;
                cg.entry(&mut l, g0, 101, 34, 102, t, 0, PBody::User(2, true));
                c.auths[0].users = l;
                honest = true;
            }
            // an existing entry altered (same id, other content)
            10 => {
                let mut src: Vec<u64> = c.admins.rows.clone();
                src.extend(c.auths[gi].users.rows.iter());
                src.extend(c.auths[gi].rights.rows.iter());
                let pick = *cg.g.pick(&src);
                let mut row = cg.rows.get(&pick).cloned().unwrap();
                row.by = *cg.g.pick(&[0u64, 6]);
                row.body = match row.body {
                    PBody::User(k, en) => PBody::User(k, !en),
                    PBody::Right(e, ms, _) => PBody::Right(e, ms, true),
                    b => b,
                };
                cg.srow(&row);
            }
            // tampered row or reference
            11 => {
                if cg.g.chance(1, 2) {
                    let id = cg.new_row(102, t, 0, PBody::User(1, true));
                    let mut row = cg.rows.get(&id).cloned().unwrap();
                    row.sig = false;
                    cg.srow(&row);
                    let e = cg.new_edge(gid, 101, 34, id, t, 0, true);
                    c.auths[gi].users.rows.push(id);
                    c.auths[gi].users.edges.push(e);
                } else {
                    let id = cg.new_row(102, t, 0, PBody::User(1, true));
                    let e = cg.new_edge(gid, 101, 34, id, t, 0, false);
                    c.auths[gi].users.rows.push(id);
                    c.auths[gi].users.edges.push(e);
                }
            }
            // shape errors: a reference too many / too few, wrong source, reference to a missing entry
            12 => match cg.g.below(4) {
                0 => {
                    let e = cg.new_edge(gid, 101, 34, 999, t, 0, true);
                    c.auths[gi].users.edges.push(e);
                }
                1 => {
                    let id = cg.new_row(102, t, 0, PBody::User(1, true));
                    c.auths[gi].users.rows.push(id);
                }
                2 => {
                    let id = cg.new_row(102, t, 0, PBody::User(1, true));
                    let e = cg.new_edge(room, 101, 34, id, t, 0, true);
                    c.auths[gi].users.rows.push(id);
                    c.auths[gi].users.edges.push(e);
                }
                _ => {
                    let id = cg.new_row(102, t, 0, PBody::User(1, true));
                    let e = cg.new_edge(gid, 101, 34, 998, t, 0, true);
                    c.auths[gi].users.rows.push(id);
                    c.auths[gi].users.edges.push(e);
                }
            },
            // an entry listed twice; an entry older than the last one of its key
            13 => {
                if cg.g.chance(1, 2) {
                    let mut l = std::mem::take(&mut c.auths[gi].users);
                    let id = cg.entry(&mut l, gid, 101, 34, 102, t, 0, PBody::User(1, true));
                    let e = cg.new_edge(gid, 101, 34, id, t, 0, true);
                    l.rows.push(id);
                    l.edges.push(e);
                    c.auths[gi].users = l;
                } else {
                    let mut l = std::mem::take(&mut c.admins);
                    cg.entry(&mut l, room, 100, 32, 102, 50, 0, PBody::User(0, true));
                    c.admins = l;
                }
            }
            // the room row replaced (other author, other entity, other date), plus an honest entry so that there is an update
            14 | 15 => {
                let (ent, by, m) = *cg.g.pick(&[(100u64, 6u64, 700i64), (1, 6, 700), (100, 0, 700), (100, 6, 50), (2, 0, 100)]);
                cg.srow(&PRow { p: None, id: room, ent, c: 100, m, by, body: PBody::Name(0), sig: true });
                let mut l = std::mem::take(&mut c.auths[gi].users);
                cg.entry(&mut l, gid, 101, 34, 102, t, 0, PBody::User(2, true));
                c.auths[gi].users = l;
            }
            // a newer group row, by an admin or not
            16 => {
                let by = *cg.g.pick(&[0u64, 6, 3]);
                let m = *cg.g.pick(&[700i64, 100, 50]);
                cg.srow(&PRow { p: None, id: gid, ent: 101, c: 100, m, by, body: PBody::Name(2), sig: true });
                honest = by == 0 && m == 700;
            }
            // two entries of one key at the same date, then the same two in the other order
            17 => {
                let mut l = std::mem::take(&mut c.auths[gi].users);
                let k = 1 + cg.g.below(3) as u64;
                cg.entry(&mut l, gid, 101, 34, 102, t, 0, PBody::User(k, true));
                cg.entry(&mut l, gid, 101, 34, 102, t, 0, PBody::User(k, false));
                c.auths[gi].users = l;
                honest = true;
            }
            // the stored entries in another order
            18 => {
                c.auths[gi].users.rows.reverse();
                c.auths[gi].users.edges.reverse();
                c.admins.rows.reverse();
                let mut l = std::mem::take(&mut c.auths[gi].users);
                cg.entry(&mut l, gid, 101, 34, 102, t, 0, PBody::User(3, true));
                c.auths[gi].users = l;
                honest = true;
            }
            // one candidate carries the revocation of admin 4 AND entries signed by key 4 dated after it
            // (a peer that lags behind by one administrator change)
            19 if key4_admin && !key4_closed => {
                let mut l = std::mem::take(&mut c.admins);
                cg.entry(&mut l, room, 100, 32, 102, 400, 0, PBody::User(4, false));
                c.admins = l;
                let tt = *cg.g.pick(&[450i64, 500, 600]);
                match cg.g.below(4) {
                    0 => {
                        let mut l = std::mem::take(&mut c.auths[gi].rights);
                        cg.entry(&mut l, gid, 101, 33, 103, tt, 4, PBody::Right(0, true, true));
                        c.auths[gi].rights = l;
                    }
                    1 => {
                        let mut l = std::mem::take(&mut c.auths[gi].users);
                        cg.entry(&mut l, gid, 101, 34, 102, tt, 4, PBody::User(4, true));
                        c.auths[gi].users = l;
                    }
                    2 => {
                        let mut l = std::mem::take(&mut c.auths[gi].uadmins);
                        cg.entry(&mut l, gid, 101, 35, 102, tt, 4, PBody::User(4, true));
                        c.auths[gi].uadmins = l;
                    }
                    _ => {
                        cg.group(&mut c, tt, 4, None);
                    }
                }
            }
            // the honest counterpart: a new admin and that admin's own entries in one candidate
            20 => {
                let mut l = std::mem::take(&mut c.admins);
                cg.entry(&mut l, room, 100, 32, 102, 300, 0, PBody::User(1, true));
                c.admins = l;
                if cg.g.chance(1, 2) {
                    let mut l = std::mem::take(&mut c.auths[gi].users);
                    cg.entry(&mut l, gid, 101, 34, 102, 350, 1, PBody::User(3, true));
                    c.auths[gi].users = l;
                } else {
                    cg.group(&mut c, 350, 1, None);
                }
                honest = true;
            }
            // creation date inside a past validity window of the signer, history date after its revocation
            // (or, as a control, both inside the window)
            21 => {
                let inside = cg.g.chance(1, 4);
                let (cd, md) = if inside { (250i64, 300i64) } else { (250, *cg.g.pick(&[450i64, 500, 700])) };
                let closed_ua: Vec<u64> = cg.closed_uadmins.iter().filter(|x| x.0 == gid).map(|x| x.1).collect();
                let sub = cg.g.below(5);
                if sub == 0 && !closed_ua.is_empty() {
                    let by = closed_ua[0];
                    let uk = 1 + cg.g.below(3) as u64;
                    let mut l = std::mem::take(&mut c.auths[gi].users);
                    cg.entry_cm(&mut l, gid, 101, 34, 102, cd, md, by, PBody::User(uk, true));
                    c.auths[gi].users = l;
                } else if key4_closed {
                    match sub {
                        1 => {
                            let mut l = std::mem::take(&mut c.admins);
                            cg.entry_cm(&mut l, room, 100, 32, 102, cd, md, 4, PBody::User(4, true));
                            c.admins = l;
                        }
                        2 => {
                            let mut l = std::mem::take(&mut c.auths[gi].rights);
                            cg.entry_cm(&mut l, gid, 101, 33, 103, cd, md, 4, PBody::Right(0, true, true));
                            c.auths[gi].rights = l;
                        }
                        3 => {
                            let mut l = std::mem::take(&mut c.auths[gi].uadmins);
                            cg.entry_cm(&mut l, gid, 101, 35, 102, cd, md, 4, PBody::User(4, true));
                            c.auths[gi].uadmins = l;
                        }
                        _ => {
                            let mut l = std::mem::take(&mut c.auths[gi].users);
                            cg.entry_cm(&mut l, gid, 101, 34, 102, cd, md, 4, PBody::User(4, true));
                            c.auths[gi].users = l;
                        }
                    }
                } else {
                    // an honest entry whose creation date is earlier than its history date
                    let mut l = std::mem::take(&mut c.auths[gi].users);
                    cg.entry_cm(&mut l, gid, 101, 34, 102, 250, md, 0, PBody::User(2, true));
                    c.auths[gi].users = l;
                    honest = true;
                }
            }
            // two rows with ONE id in a list: the stored entry first, then a row signed by somebody else;
            // plus an honest new entry so that the definition is written
            22 => {
                let signer = *cg.g.pick(&[5u64, 2, 1]);
                if cg.g.chance(1, 2) {
                    let victim = c.admins.rows[0];
                    cg.next_row += 1;
                    let pk = cg.next_row + 5000;
                    cg.srow(&PRow { p: Some(pk), id: victim, ent: 102, c: t, m: t, by: signer, body: PBody::User(signer, true), sig: true });
                    let e = cg.new_edge(room, 100, 32, victim, t, signer, true);
                    c.admins.rows.push(pk);
                    c.admins.edges.push(e);
                } else if !c.auths[gi].users.rows.is_empty() {
                    let victim = c.auths[gi].users.rows[0];
                    cg.next_row += 1;
                    let pk = cg.next_row + 5000;
                    cg.srow(&PRow { p: Some(pk), id: victim, ent: 102, c: t, m: t, by: signer, body: PBody::User(signer, true), sig: true });
                    let e = cg.new_edge(gid, 101, 34, victim, t, signer, true);
                    c.auths[gi].users.rows.push(pk);
                    c.auths[gi].users.edges.push(e);
                }
                let mut l = std::mem::take(&mut c.auths[gi].users);
                cg.entry(&mut l, gid, 101, 34, 102, t, 0, PBody::User(3, true));
                c.auths[gi].users = l;
            }
            // the reference that attaches a GROUP to the room: a whole group of the other room of the same admin
            // replayed into this one; a new honest group attached with a wrong label / source entity / by a key
            // that is no admin (controls: by the admin; a newer group row by another admin keeps the old reference)
            24 => match cg.g.below(3) {
                0 if other_group.is_some() => {
                    let og = other_group.clone().unwrap();
                    let signer = *cg.g.pick(&[6u64, 2, 0]);
                    let e = cg.new_edge(room, 100, 33, og.id, t, signer, true);
                    c.auths.push(og);
                    c.authedges.push(e);
                }
                1 => {
                    let gid2 = cg.new_row(101, t, 0, PBody::Name(1));
                    let (l, se, by) = *cg.g.pick(&[(33u64, 100u64, 6u64), (33, 100, 3), (32, 100, 0), (34, 100, 0), (33, 101, 0), (33, 100, 0)]);
                    let e = cg.new_edge(room, se, l, gid2, t, by, true);
                    let mut gd = GDef { id: gid2, ..Default::default() };
                    cg.entry(&mut gd.rights, gid2, 101, 33, 103, t, 0, PBody::Right(1, true, true));
                    c.auths.push(gd);
                    c.authedges.push(e);
                    honest = (l, se, by) == (33, 100, 0);
                }
                _ => {
                    // the group row re-signed by admin 4 (an admin from 200 on in most worlds): the reference room → group stays the creator's
                    let m = *cg.g.pick(&[250i64, 300, 700]);
                    cg.srow(&PRow { p: None, id: gid, ent: 101, c: 100, m, by: 4, body: PBody::Name(3), sig: true });
                }
            },
            // nothing new at all (re-sent definition)
            _ => {}
        }
        cg.emit(&c);
        cg.out.push(format!("install room={}", room));
        cg.out.push("dump".to_string());
        cg.out.push(format!("probe room={} dates={}", room, PROBE_DATES));
        if honest || cg.g.chance(1, 4) {
            d = c;
        } else {
            // restore the pool rows this round may have overwritten
            let r0 = PRow { p: None, id: room, ent: 100, c: 100, m: 100, by: 0, body: PBody::Name(0), sig: true };
            if let Some(r) = cg.rows.get(&room) {
                if r.by != 0 || r.ent != 100 || r.m != 100 {
                    cg.srow(&r0);
                }
            }
        }
    }
    cg.out
}

pub fn generate(prop: &str, seed: u64, n: usize, out: &str) {
    let mut g = Gen::new(seed);
    let keys = Keys::new();
    let mut w = BufWriter::new(std::fs::File::create(out).unwrap());
    for id in 0..n {
        let lines = match prop {
            "C02" => gen_c02(&mut g, &keys, id),
            "C07" => gen_c07(&mut g, id),
            _ => {
                eprintln!("unknown property {}", prop);
                std::process::exit(2);
            }
        };
        // DV_OFF / DV_ON=<switch,…>: the cases are meant for a /repo with those fixes applied / reverse-applied
        let off = std::env::var("DV_OFF").unwrap_or_default();
        let on = std::env::var("DV_ON").unwrap_or_default();
        for (i, l) in lines.iter().enumerate() {
            if i == 0 {
                let mut h = l.clone();
                if !off.is_empty() {
                    h.push_str(&format!(" off={}", off));
                }
                if !on.is_empty() {
                    h.push_str(&format!(" on={}", on));
                }
                writeln!(w, "{}", h).unwrap();
            } else {
                writeln!(w, "{}", l).unwrap();
            }
        }
    }
    w.flush().unwrap();
}

/// recomputes the `sg=` field of every `node` line (for hand-written files)
pub fn fix(ops: &str, out: &str) {
    let keys = Keys::new();
    let f = std::fs::File::open(ops).expect("ops file");
    let mut w = BufWriter::new(std::fs::File::create(out).unwrap());
    for line in std::io::BufReader::new(f).lines() {
        let line = line.unwrap();
        let (kind, mut kv) = parse_kv(&line);
        if kind == "node" {
            kv.entry("sg".to_string()).or_insert("0".to_string());
            if let Some((_, _, _, rank, _, _)) = crate::world::node_of_op(&keys, &kv) {
                let toks: Vec<String> = line
                    .split_whitespace()
                    .filter(|t| !t.starts_with("sg="))
                    .map(|t| t.to_string())
                    .collect();
                let mut res: Vec<String> = vec![];
                let mut done = false;
                for t in toks {
                    let is_sig = t.starts_with("sig=");
                    res.push(t);
                    if is_sig {
                        res.push(format!("sg={}", rank));
                        done = true;
                    }
                }
                if !done {
                    res.push(format!("sg={}", rank));
                }
                writeln!(w, "{}", res.join(" ")).unwrap();
                continue;
            }
        }
        writeln!(w, "{}", line).unwrap();
    }
    w.flush().unwrap();
    let _: HashMap<u8, u8> = HashMap::new();
}
