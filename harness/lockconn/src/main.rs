//! Engine `lockconn`: the connection side of the room-lock protocol, on the REAL code.
//!
//! Real connections are `LocalPeerService::start` tasks wired to a real `RoomLockService`; the harness
//! plays the remote peer (answers ProveIdentity and RoomList, holds RoomDefinition queries so that a room
//! synchronisation stays "in progress" until `finish`) and also owns pseudo connections that talk to the
//! lock service directly (`req/unlock/drop`, as in engine `lock`) to observe grants.
//!
//!   case id=<n> max=<n>
//!   conn c=<i>                  start real connection i (authenticated, idle)
//!   cready c=<i> rooms=a,b      the remote sends Ready and answers RoomList with these rooms -> lock request
//!   cevent c=<i> r=<room>       the remote sends RoomDefinitionChanged(room)                  -> lock request
//!   finish c=<i> r=<room>       the held RoomDefinition(room) query is answered with a failure: the task ends
//!   close c=<i>                 the remote end of the event stream goes away: the connection loop ends
//!   req p=<n> ch=<n> rooms=..   | unlock r=<n> | drop ch=<n>      pseudo connections
//! Observation: `grants <ch:room,…> | sync <i:room,…>` — grants received by pseudo channels during the op and
//! the room synchronisations of real connections currently in progress (sorted).
use discret::verif_hooks::configuration::Configuration;
use discret::verif_hooks::database::graph_database::GraphDatabaseService;
use discret::verif_hooks::database::system_entities::{OwnedInvite, Peer};
use discret::verif_hooks::discret::DiscretServices;
use discret::verif_hooks::event_service::EventService;
use discret::verif_hooks::network::peer_manager::TokenType;
use discret::verif_hooks::network::ConnectionInfo;
use discret::verif_hooks::peer_connection_service::{PeerConnectionMessage, PeerConnectionService};
use discret::verif_hooks::security::{
    base64_encode, Ed25519SigningKey, HardwareFingerprint, MeetingSecret, SigningKey,
};
use discret::verif_hooks::signature_verification_service::SignatureVerificationService;
use discret::verif_hooks::synchronisation::peer_inbound_service::{LocalPeerService, QueryService};
use discret::verif_hooks::synchronisation::peer_outbound_service::{
    InboundQueryService, RemotePeerHandle,
};
use discret::verif_hooks::synchronisation::room_locking_service::RoomLockService;
use discret::verif_hooks::synchronisation::{
    Answer, IdentityAnswer, LocalEvent, Query, QueryProtocol, RemoteEvent,
};
use dvcommon::{join, parse_kv, parse_nat_list, Args, Stats};
use std::collections::{BTreeMap, HashSet, VecDeque};
use std::io::{BufRead, BufWriter, Write};
use std::sync::atomic::AtomicBool;
use std::sync::Arc;
use tokio::sync::{broadcast, mpsc, Mutex};

type Uid = [u8; 16];

fn room_uid(n: u64) -> Uid {
    let mut u = [0u8; 16];
    u[..8].copy_from_slice(&n.to_be_bytes());
    u[15] = 0xAA;
    u
}
fn uid_room(u: &Uid) -> u64 {
    let mut b = [0u8; 8];
    b.copy_from_slice(&u[..8]);
    u64::from_be_bytes(b)
}
fn peer_id(n: u64) -> [u8; 32] {
    let mut u = [0u8; 32];
    u[..8].copy_from_slice(&n.to_be_bytes());
    u
}

struct Chan {
    tx: mpsc::UnboundedSender<Uid>,
    rx: Option<mpsc::UnboundedReceiver<Uid>>,
}

struct RealConn {
    in_event: Option<mpsc::Sender<RemoteEvent>>,
    out_event: mpsc::Receiver<RemoteEvent>,
    queries: mpsc::Receiver<QueryProtocol>,
    answers: mpsc::Sender<Answer>,
    key: Ed25519SigningKey,
    peer_node: discret::verif_hooks::database::node::Node,
    next_roomlist: VecDeque<Vec<u64>>, // rooms to answer to the next RoomList queries
    held: BTreeMap<u64, VecDeque<u64>>, // room -> query ids of the held RoomDefinition queries (oldest first)
    _local_event: broadcast::Sender<LocalEvent>,
    _inbound_q: mpsc::Sender<QueryProtocol>,
    _inbound_a: mpsc::Receiver<Answer>,
}

struct Shared {
    services: DiscretServices,
    verifying_key: Vec<u8>,
    fingerprint_file: std::path::PathBuf,
}

struct Case {
    lock: RoomLockService,
    chans: BTreeMap<u64, Chan>,
    conns: BTreeMap<u64, RealConn>,
    peer_service: PeerConnectionService,
    peer_msgs: mpsc::Receiver<PeerConnectionMessage>,
}

impl Case {
    fn new(max: usize) -> Self {
        let (sender, peer_msgs) = mpsc::channel::<PeerConnectionMessage>(64);
        Self {
            lock: RoomLockService::start(max),
            chans: BTreeMap::new(),
            conns: BTreeMap::new(),
            peer_service: PeerConnectionService { sender },
            peer_msgs,
        }
    }
    fn chan(&mut self, ch: u64) -> &mut Chan {
        self.chans.entry(ch).or_insert_with(|| {
            let (tx, rx) = mpsc::unbounded_channel::<Uid>();
            Chan { tx, rx: Some(rx) }
        })
    }

    fn start_conn(&mut self, i: u64, sh: &Shared) {
        let (in_event_tx, in_event_rx) = mpsc::channel::<RemoteEvent>(64);
        let (out_event_tx, out_event_rx) = mpsc::channel::<RemoteEvent>(64);
        let (query_tx, query_rx) = mpsc::channel::<QueryProtocol>(64);
        let (answer_tx, answer_rx) = mpsc::channel::<Answer>(64);
        let query_service = QueryService::start(query_tx, answer_rx);
        let (local_tx, local_rx) = broadcast::channel::<LocalEvent>(16);
        let remote_key: Arc<Mutex<Vec<u8>>> = Arc::new(Mutex::new(Vec::new()));
        let conn_ready = Arc::new(AtomicBool::new(true));
        // the serving half of the connection (not exercised here, but `start` needs it)
        let (inb_q_tx, inb_q_rx) = mpsc::channel::<QueryProtocol>(4);
        let (inb_a_tx, inb_a_rx) = mpsc::channel::<Answer>(4);
        let fingerprint = HardwareFingerprint::get(&sh.fingerprint_file).unwrap();
        let mut conn_id = [0u8; 16];
        conn_id[0] = i as u8;
        let inbound = InboundQueryService::start(
            fingerprint,
            peer_id(i),
            conn_id,
            RemotePeerHandle {
                db: sh.services.database.clone(),
                allowed_room: HashSet::new(),
                verifying_key: sh.verifying_key.clone(),
                reply: inb_a_tx,
            },
            inb_q_rx,
            self.peer_service.clone(),
            remote_key.clone(),
            conn_ready.clone(),
        );
        // identity of the simulated remote peer
        let mut seed = [7u8; 32];
        seed[0] = i as u8;
        let key = Ed25519SigningKey::create_from(&seed);
        let meeting = MeetingSecret::new(seed);
        let mut peer_node = Peer::create(conn_id, base64_encode(meeting.public_key().as_bytes()));
        peer_node.sign(&key).unwrap();
        let info = ConnectionInfo {
            endpoint_id: [1u8; 16],
            remote_id: conn_id,
            conn_id,
            meeting_token: [0u8; 7],
            peer_verifying_key: key.export_verifying_key(),
        };
        LocalPeerService::start(
            in_event_rx,
            local_rx,
            peer_id(i),
            info,
            sh.verifying_key.clone(),
            TokenType::OwnedInvite(OwnedInvite {
                id: conn_id,
                room: None,
                authorisation: None,
            }),
            remote_key,
            conn_ready,
            self.lock.clone(),
            query_service,
            out_event_tx,
            self.peer_service.clone(),
            inbound,
            &sh.services,
        );
        self.conns.insert(
            i,
            RealConn {
                in_event: Some(in_event_tx),
                out_event: out_event_rx,
                queries: query_rx,
                answers: answer_tx,
                key,
                peer_node,
                next_roomlist: VecDeque::new(),
                held: BTreeMap::new(),
                _local_event: local_tx,
                _inbound_q: inb_q_tx,
                _inbound_a: inb_a_rx,
            },
        );
    }

    /// run every task until nothing moves any more; the harness side (remote peer, fake peer service)
    /// is polled inline so that the whole run is single-threaded and deterministic
    async fn quiesce(&mut self) -> String {
        let mut grants: Vec<String> = vec![];
        loop {
            for _ in 0..24 {
                tokio::task::yield_now().await;
            }
            let mut moved = false;
            while let Ok(msg) = self.peer_msgs.try_recv() {
                moved = true;
                if let PeerConnectionMessage::ValidateHardware(_, _, reply) = msg {
                    let _ = reply.send(Ok(true));
                }
            }
            for (_, c) in self.conns.iter_mut() {
                while c.out_event.try_recv().is_ok() {
                    moved = true;
                }
                while let Ok(q) = c.queries.try_recv() {
                    moved = true;
                    match q.query {
                        Query::ProveIdentity(challenge) => {
                            let ans = IdentityAnswer {
                                peer: c.peer_node.clone(),
                                chall_signature: c.key.sign(&challenge),
                            };
                            let _ = c
                                .answers
                                .send(Answer {
                                    id: q.id,
                                    success: true,
                                    complete: true,
                                    serialized: bincode::serialize(&ans).unwrap(),
                                })
                                .await;
                        }
                        Query::RoomList => {
                            let rooms: VecDeque<Uid> = c
                                .next_roomlist
                                .pop_front()
                                .unwrap_or_default()
                                .into_iter()
                                .map(room_uid)
                                .collect();
                            let _ = c
                                .answers
                                .send(Answer {
                                    id: q.id,
                                    success: true,
                                    complete: false,
                                    serialized: bincode::serialize(&rooms).unwrap(),
                                })
                                .await;
                            let _ = c
                                .answers
                                .send(Answer {
                                    id: q.id,
                                    success: true,
                                    complete: true,
                                    serialized: bincode::serialize("").unwrap(),
                                })
                                .await;
                        }
                        Query::RoomDefinition(room) => {
                            // hold it: the synchronisation of this room is now in progress
                            c.held.entry(uid_room(&room)).or_default().push_back(q.id);
                        }
                        _ => {
                            let _ = c
                                .answers
                                .send(Answer {
                                    id: q.id,
                                    success: false,
                                    complete: true,
                                    serialized: vec![],
                                })
                                .await;
                        }
                    }
                }
            }
            for (id, c) in self.chans.iter_mut() {
                if let Some(rx) = c.rx.as_mut() {
                    while let Ok(room) = rx.try_recv() {
                        moved = true;
                        grants.push(format!("{}:{}", id, uid_room(&room)));
                    }
                }
            }
            if !moved {
                break;
            }
        }
        // stable sort by channel keeps the per-channel order
        let mut g2: Vec<(u64, usize, String)> = grants
            .iter()
            .enumerate()
            .map(|(k, g)| (g.split(':').next().unwrap().parse().unwrap(), k, g.clone()))
            .collect();
        g2.sort();
        let gl: Vec<String> = g2.into_iter().map(|x| x.2).collect();
        let mut sl: Vec<String> = vec![];
        for (i, c) in self.conns.iter() {
            for (r, q) in c.held.iter() {
                for _ in q.iter() {
                    sl.push(format!("{}:{}", i, r));
                }
            }
        }
        format!("grants {} | sync {}", join(&gl, ","), join(&sl, ","))
            .replace("grants  |", "grants |")
            .trim_end()
            .to_string()
    }

    /// end of a case: let every held synchronisation fail so that no task outlives the case
    async fn teardown(&mut self) {
        for (_, c) in self.conns.iter_mut() {
            let held: Vec<u64> = c.held.values().flat_map(|q| q.iter().copied()).collect();
            for qid in held {
                let _ = c
                    .answers
                    .send(Answer {
                        id: qid,
                        success: false,
                        complete: true,
                        serialized: vec![],
                    })
                    .await;
            }
            c.held.clear();
            c.in_event = None;
        }
        let _ = self.quiesce().await;
    }
}

async fn run(ops: &str, out: &str, stats_path: Option<&str>, work: &str) {
    let dir = std::path::PathBuf::from(work).join(format!("lockconn-db-{}", std::process::id()));
    let _ = std::fs::remove_dir_all(&dir);
    std::fs::create_dir_all(&dir).unwrap();
    let events = EventService::new();
    let key_material = [3u8; 32];
    let meeting = MeetingSecret::new([4u8; 32]);
    let (db, verifying_key, _private_room) = GraphDatabaseService::start(
        "lockconn",
        "{Person{name:String,}}",
        &key_material,
        meeting.public_key().as_bytes(),
        dir.clone(),
        &Configuration::default(),
        events.clone(),
    )
    .await
    .expect("database start");
    let sh = Shared {
        services: DiscretServices {
            events,
            database: db,
            signature_verification: SignatureVerificationService::start(1),
        },
        verifying_key,
        fingerprint_file: dir.join("hardware_fingerprint.bin"),
    };

    let f = std::fs::File::open(ops).expect("ops file");
    let mut w = BufWriter::new(std::fs::File::create(out).expect("out file"));
    let mut case: Option<Case> = None;
    let mut stats = Stats::default();
    for line in std::io::BufReader::new(f).lines() {
        let line = line.unwrap();
        let (kind, kv) = parse_kv(&line);
        let get = |k: &str| kv.get(k).and_then(|v| v.parse::<u64>().ok());
        let res: String = match kind.as_str() {
            "case" => match (get("id"), get("max")) {
                (Some(id), Some(max)) => {
                    if let Some(mut c) = case.take() {
                        c.teardown().await;
                    }
                    case = Some(Case::new(max as usize));
                    stats.inc("cases");
                    format!("case {}", id)
                }
                _ => "bad-op".into(),
            },
            "conn" => match (get("c"), case.as_mut()) {
                (Some(i), Some(c)) if c.conns.len() as u64 == i => {
                    c.start_conn(i, &sh);
                    stats.inc("op.conn");
                    c.quiesce().await
                }
                _ => "bad-op".into(),
            },
            "cready" => match (get("c"), kv.get("rooms"), case.as_mut()) {
                (Some(i), Some(rooms), Some(c)) if c.conns.contains_key(&i) => {
                    let rc = c.conns.get_mut(&i).unwrap();
                    rc.next_roomlist.push_back(parse_nat_list(rooms));
                    if let Some(tx) = rc.in_event.as_ref() {
                        let _ = tx.send(RemoteEvent::Ready).await;
                    }
                    stats.inc("op.cready");
                    c.quiesce().await
                }
                _ => "bad-op".into(),
            },
            "cevent" => match (get("c"), get("r"), case.as_mut()) {
                (Some(i), Some(r), Some(c)) if c.conns.contains_key(&i) => {
                    let rc = c.conns.get_mut(&i).unwrap();
                    if let Some(tx) = rc.in_event.as_ref() {
                        let _ = tx.send(RemoteEvent::RoomDefinitionChanged(room_uid(r))).await;
                    }
                    stats.inc("op.cevent");
                    c.quiesce().await
                }
                _ => "bad-op".into(),
            },
            "finish" => match (get("c"), get("r"), case.as_mut()) {
                (Some(i), Some(r), Some(c)) if c.conns.contains_key(&i) => {
                    let rc = c.conns.get_mut(&i).unwrap();
                    let qid = rc.held.get_mut(&r).and_then(|q| q.pop_front());
                    if rc.held.get(&r).map(|q| q.is_empty()).unwrap_or(false) {
                        rc.held.remove(&r);
                    }
                    if let Some(qid) = qid {
                        let _ = rc
                            .answers
                            .send(Answer {
                                id: qid,
                                success: false,
                                complete: true,
                                serialized: vec![],
                            })
                            .await;
                    }
                    stats.inc("op.finish");
                    c.quiesce().await
                }
                _ => "bad-op".into(),
            },
            "close" => match (get("c"), case.as_mut()) {
                (Some(i), Some(c)) if c.conns.contains_key(&i) => {
                    c.conns.get_mut(&i).unwrap().in_event = None;
                    stats.inc("op.close");
                    c.quiesce().await
                }
                _ => "bad-op".into(),
            },
            "req" => match (get("p"), get("ch"), kv.get("rooms"), case.as_mut()) {
                (Some(p), Some(ch), Some(rooms), Some(c)) => {
                    let rooms: VecDeque<Uid> =
                        parse_nat_list(rooms).into_iter().map(room_uid).collect();
                    let tx = c.chan(ch).tx.clone();
                    c.lock.request_locks(peer_id(1000 + p), rooms, tx).await;
                    stats.inc("op.req");
                    c.quiesce().await
                }
                _ => "bad-op".into(),
            },
            "unlock" => match (get("r"), case.as_mut()) {
                (Some(r), Some(c)) => {
                    c.lock.unlock(room_uid(r)).await;
                    stats.inc("op.unlock");
                    c.quiesce().await
                }
                _ => "bad-op".into(),
            },
            "drop" => match (get("ch"), case.as_mut()) {
                (Some(ch), Some(c)) => {
                    c.chan(ch).rx = None;
                    stats.inc("op.drop");
                    c.quiesce().await
                }
                _ => "bad-op".into(),
            },
            _ => "bad-op".into(),
        };
        writeln!(w, "{}", res).unwrap();
    }
    if let Some(mut c) = case.take() {
        c.teardown().await;
    }
    w.flush().unwrap();
    if let Some(p) = stats_path {
        stats.write(p);
    }
    let _ = std::fs::remove_dir_all(&dir);
}

fn main() {
    let a = Args::parse();
    match a.cmd.as_str() {
        "run" => {
            let rt = tokio::runtime::Builder::new_current_thread()
                .enable_all()
                .build()
                .unwrap();
            rt.block_on(run(
                &a.str_or("ops", "cases.ops"),
                &a.str_or("out", "impl.out"),
                a.get("stats"),
                &a.str_or("work", "/verif/work/lockconn"),
            ));
            // service threads of the database are still running: leave without running the C library's exit
            // handlers (they race with those threads); every output file has been flushed and closed
            unsafe { libc::_exit(0) }
        }
        _ => {
            eprintln!("usage: dv-lockconn run …");
            std::process::exit(2);
        }
    }
}
