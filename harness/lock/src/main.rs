//! Engine `lock`: drives the real `RoomLockService` actor one message at a time.
//!
//!   dv-lock gen  --seed S --n N --len L --out FILE          random op sequences
//!   dv-lock enum --peers P --rooms R --len L --max M --out FILE   all sequences of length L
//!   dv-lock run  --ops FILE --out FILE [--stats FILE]       execute on the real actor
//!
//! Op file (shared with the Lean driver `dmodel_lock`):
//!   case id=<n> max=<n> | req p=<n> ch=<n> rooms=a,b | unlock r=<n> | drop ch=<n>
//! Observation per op: `grants ch:room,…` sorted by channel, per-channel order preserved.
use discret::verif_hooks::synchronisation::room_locking_service::RoomLockService;
use dvcommon::{join, parse_kv, parse_nat_list, Args, Gen, Stats};
use std::collections::{BTreeMap, HashSet, VecDeque};
use std::io::{BufRead, BufWriter, Write};
use tokio::sync::mpsc;

type Uid = [u8; 16];

fn room_uid(n: u64) -> Uid {
    let mut u = [0u8; 16];
    u[..8].copy_from_slice(&n.to_be_bytes());
    u[15] = 0xAA;
    u
}
fn uid_room(u: &Uid) -> u64 {
    let mut b = [0u8; 8];
    b.copy_from_slice(&u[..8]);
    u64::from_be_bytes(b)
}
fn peer_id(n: u64) -> [u8; 32] {
    let mut u = [0u8; 32];
    u[..8].copy_from_slice(&n.to_be_bytes());
    u
}

struct Chan {
    tx: mpsc::UnboundedSender<Uid>,
    rx: Option<mpsc::UnboundedReceiver<Uid>>,
}

struct Case {
    svc: RoomLockService,
    chans: BTreeMap<u64, Chan>,
}

impl Case {
    fn new(max: usize) -> Self {
        Self {
            svc: RoomLockService::start(max),
            chans: BTreeMap::new(),
        }
    }
    fn chan(&mut self, ch: u64) -> &mut Chan {
        self.chans.entry(ch).or_insert_with(|| {
            let (tx, rx) = mpsc::unbounded_channel::<Uid>();
            Chan { tx, rx: Some(rx) }
        })
    }
    async fn quiesce(&mut self) -> String {
        // current-thread runtime: the actor only runs while we yield; it runs until it parks on recv
        for _ in 0..16 {
            tokio::task::yield_now().await;
        }
        let mut grants: Vec<String> = vec![];
        for (id, c) in self.chans.iter_mut() {
            if let Some(rx) = c.rx.as_mut() {
                while let Ok(room) = rx.try_recv() {
                    grants.push(format!("{}:{}", id, uid_room(&room)));
                }
            }
        }
        if grants.is_empty() {
            "grants".to_string()
        } else {
            format!("grants {}", join(&grants, ","))
        }
    }
}

async fn run(ops: &str, out: &str, stats_path: Option<&str>) {
    let f = std::fs::File::open(ops).expect("ops file");
    let mut w = BufWriter::new(std::fs::File::create(out).expect("out file"));
    let mut case: Option<Case> = None;
    let mut stats = Stats::default();
    let mut granted_cases = 0u64;
    let mut case_had_grant = false;
    for line in std::io::BufReader::new(f).lines() {
        let line = line.unwrap();
        let (kind, kv) = parse_kv(&line);
        let get = |k: &str| kv.get(k).and_then(|v| v.parse::<u64>().ok());
        let res: String = match kind.as_str() {
            "case" => match (get("id"), get("max")) {
                (Some(id), Some(max)) => {
                    if case_had_grant {
                        granted_cases += 1;
                    }
                    case_had_grant = false;
                    case = Some(Case::new(max as usize));
                    stats.inc("cases");
                    format!("case {}", id)
                }
                _ => "bad-op".into(),
            },
            "req" => match (get("p"), get("ch"), kv.get("rooms"), case.as_mut()) {
                (Some(p), Some(ch), Some(rooms), Some(c)) => {
                    let rooms: VecDeque<Uid> =
                        parse_nat_list(rooms).into_iter().map(room_uid).collect();
                    let tx = c.chan(ch).tx.clone();
                    c.svc.request_locks(peer_id(p), rooms, tx).await;
                    stats.inc("op.req");
                    c.quiesce().await
                }
                _ => "bad-op".into(),
            },
            "unlock" => match (get("r"), case.as_mut()) {
                (Some(r), Some(c)) => {
                    c.svc.unlock(room_uid(r)).await;
                    stats.inc("op.unlock");
                    c.quiesce().await
                }
                _ => "bad-op".into(),
            },
            "drop" => match (get("ch"), case.as_mut()) {
                (Some(ch), Some(c)) => {
                    c.chan(ch).rx = None;
                    stats.inc("op.drop");
                    c.quiesce().await
                }
                _ => "bad-op".into(),
            },
            _ => "bad-op".into(),
        };
        if res.starts_with("grants ") {
            case_had_grant = true;
            stats.add("grants", res.matches(':').count() as u64);
        }
        writeln!(w, "{}", res).unwrap();
    }
    if case_had_grant {
        granted_cases += 1;
    }
    stats.add("cases_with_grant", granted_cases);
    w.flush().unwrap();
    if let Some(p) = stats_path {
        stats.write(p);
    }
}

/// random sequences, biased towards the situations the proofs needed as hypotheses:
/// repeated requests of waiting peers, overlapping room sets, unlocks of rooms not held,
/// double unlocks, dropped receivers followed by new requests on old and new channels.
fn gen(seed: u64, n: usize, len: usize, out: &str) {
    let mut g = Gen::new(seed);
    let mut w = BufWriter::new(std::fs::File::create(out).unwrap());
    for id in 0..n {
        let peers = 1 + g.below(3) as u64;
        let rooms = 1 + g.below(4) as u64;
        let max = 1 + g.below(3);
        writeln!(w, "case id={} max={}", id, max).unwrap();
        let mut cur_ch: Vec<u64> = (0..=peers).map(|p| p * 100).collect();
        let mut dead: HashSet<u64> = HashSet::new();
        let l = 1 + g.below(len);
        for _ in 0..l {
            match g.weighted(&[5, 5, 1]) {
                0 => {
                    let p = 1 + g.below(peers as usize) as u64;
                    let k = g.below(rooms as usize + 1);
                    let mut rs: Vec<u64> = vec![];
                    for _ in 0..k {
                        let r = 1 + g.below(rooms as usize) as u64;
                        if !rs.contains(&r) || g.chance(1, 10) {
                            rs.push(r);
                        }
                    }
                    if dead.contains(&cur_ch[p as usize]) && g.chance(2, 3) {
                        cur_ch[p as usize] += 1;
                    }
                    writeln!(w, "req p={} ch={} rooms={}", p, cur_ch[p as usize], join(&rs, ","))
                        .unwrap();
                }
                1 => {
                    let r = 1 + g.below(rooms as usize) as u64;
                    writeln!(w, "unlock r={}", r).unwrap();
                }
                _ => {
                    let p = 1 + g.below(peers as usize) as u64;
                    dead.insert(cur_ch[p as usize]);
                    writeln!(w, "drop ch={}", cur_ch[p as usize]).unwrap();
                }
            }
        }
    }
}

/// every sequence of exactly `len` ops over the alphabet
///   req p rooms (rooms ∈ non-empty ordered selections without repetition of size ≤ 2, plus the empty list),
///   unlock r, drop p  — a request after a drop uses a fresh channel (the reuse of a dead channel is
///   covered by the random stream).
fn enumerate(peers: u64, rooms: u64, len: usize, max: usize, out: &str) -> u64 {
    let mut alphabet: Vec<(u8, u64, Vec<u64>)> = vec![]; // (kind, p|r, rooms)
    for p in 1..=peers {
        let mut lists: Vec<Vec<u64>> = vec![];
        for a in 1..=rooms {
            lists.push(vec![a]);
            for b in 1..=rooms {
                if a != b {
                    lists.push(vec![a, b]);
                }
            }
        }
        for l in lists {
            alphabet.push((0, p, l));
        }
        alphabet.push((2, p, vec![]));
    }
    for r in 1..=rooms {
        alphabet.push((1, r, vec![]));
    }
    let mut w = BufWriter::new(std::fs::File::create(out).unwrap());
    let k = alphabet.len();
    let mut idx = vec![0usize; len];
    let mut id = 0u64;
    loop {
        writeln!(w, "case id={} max={}", id, max).unwrap();
        id += 1;
        let mut gen_of: Vec<u64> = vec![0; peers as usize + 1];
        let mut dead: Vec<bool> = vec![false; peers as usize + 1];
        for i in 0..len {
            let (kind, a, rs) = &alphabet[idx[i]];
            match kind {
                0 => {
                    let p = *a as usize;
                    if dead[p] {
                        gen_of[p] += 1;
                        dead[p] = false;
                    }
                    writeln!(w, "req p={} ch={} rooms={}", a, a * 100 + gen_of[p], join(rs, ","))
                        .unwrap();
                }
                1 => writeln!(w, "unlock r={}", a).unwrap(),
                _ => {
                    let p = *a as usize;
                    dead[p] = true;
                    writeln!(w, "drop ch={}", a * 100 + gen_of[p]).unwrap();
                }
            }
        }
        // next
        let mut i = len;
        loop {
            if i == 0 {
                w.flush().unwrap();
                return id;
            }
            i -= 1;
            idx[i] += 1;
            if idx[i] < k {
                break;
            }
            idx[i] = 0;
        }
    }
}

fn main() {
    let a = Args::parse();
    match a.cmd.as_str() {
        "gen" => gen(
            a.u64_or("seed", 1),
            a.usize_or("n", 100),
            a.usize_or("len", 20),
            &a.str_or("out", "cases.ops"),
        ),
        "enum" => {
            let n = enumerate(
                a.u64_or("peers", 2),
                a.u64_or("rooms", 2),
                a.usize_or("len", 4),
                a.usize_or("max", 1),
                &a.str_or("out", "cases.ops"),
            );
            println!("{}", serde_json::json!({"sequences": n}));
        }
        "run" => {
            let rt = tokio::runtime::Builder::new_current_thread()
                .enable_all()
                .build()
                .unwrap();
            rt.block_on(run(
                &a.str_or("ops", "cases.ops"),
                &a.str_or("out", "impl.out"),
                a.get("stats"),
            ));
        }
        _ => {
            eprintln!("usage: dv-lock gen|enum|run …");
            std::process::exit(2);
        }
    }
}
