//! exploration of the engine's behaviour when `_daily_log` is updated under the open SELECT of `compute`
//! row spec: (entity, date, dirty, daily present, history present); the loop below mimics which UPDATE the
//! real loop would issue (marked row: full update; clean row: history update iff the previous history is known)
use rusqlite::Connection;
type Row = (&'static str, i64, i64, bool, bool);
pub fn probe() {
    let shapes: Vec<Vec<Row>> = vec![
        vec![("0", 0, 1, false, false), ("0", 1, 1, false, false)],
        vec![("0", 0, 1, false, true), ("0", 1, 1, false, false)],
        vec![("0", 0, 1, true, true), ("0", 1, 1, false, false)],
        vec![("0", 0, 1, true, false), ("0", 1, 1, false, false)],
        vec![("0", 0, 1, false, true), ("0", 1, 1, false, true)],
        vec![("0", 0, 1, false, true), ("0", 1, 1, true, true)],
    ];
    let conn = Connection::open_in_memory().unwrap();
    let v: String = conn.query_row("select sqlite_version()", [], |r| r.get(0)).unwrap();
    println!("sqlite {}", v);
    for shape in shapes {
        let conn = Connection::open_in_memory().unwrap();
        conn.execute_batch("CREATE TABLE _daily_log (room_id BLOB NOT NULL, entity TEXT NOT NULL, date INTEGER NOT NULL, entry_number INTEGER NOT NULL DEFAULT 0,
            daily_hash BLOB, history_hash BLOB, need_recompute INTEGER, PRIMARY KEY (room_id, entity, date)) WITHOUT ROWID, STRICT;
            CREATE INDEX _daily_log_recompute_room_date ON _daily_log (room_id, entity, need_recompute,  date);").unwrap();
        let room = [1u8; 16];
        for (e, d, dirty, hd, hh) in &shape {
            let a: Option<Vec<u8>> = if *hd { Some(vec![7u8; 32]) } else { None };
            let b: Option<Vec<u8>> = if *hh { Some(vec![7u8; 32]) } else { None };
            conn.execute("INSERT INTO _daily_log VALUES (?,?,?,?,?,?,?)", (room, e, d, 0, &a, &b, dirty)).unwrap();
        }
        let mut st = conn.prepare("SELECT room_id, entity, date, need_recompute, daily_hash, history_hash FROM _daily_log daily
            WHERE date >= ( IFNULL ( ( SELECT max(date) from _daily_log WHERE daily.room_id = room_id AND daily.entity = entity
                        AND date < ( SELECT min(date) from _daily_log WHERE daily.room_id = room_id AND daily.entity = entity AND need_recompute = 1 ) ),(
                        SELECT min(date) from _daily_log WHERE daily.room_id = room_id AND daily.entity = entity AND need_recompute = 1 ) ) )
            ORDER BY room_id, entity, date").unwrap();
        let mut up1 = conn.prepare("UPDATE _daily_log SET entry_number=?, daily_hash=?, history_hash=?, need_recompute=0 WHERE room_id=? AND entity=? AND date=?").unwrap();
        let mut up2 = conn.prepare("UPDATE _daily_log SET history_hash=? WHERE room_id=? AND entity=? AND date=?").unwrap();
        let mut rows = st.query([]).unwrap();
        let mut seen = vec![];
        let mut prev_ent = "-".to_string();
        let mut prev_hist: Option<Vec<u8>> = None;
        while let Some(r) = rows.next().unwrap() {
            let e: String = r.get(1).unwrap();
            let d: i64 = r.get(2).unwrap();
            let nr: bool = r.get(3).unwrap();
            let hist: Option<Vec<u8>> = r.get(5).unwrap();
            let mut what = if nr { "D" } else { "C" }.to_string();
            if nr {
                // marked: history known iff (same room: always here) previous history known, or first of the room
                let h: Option<Vec<u8>> = if prev_ent != "-" { prev_hist.as_ref().map(|_| vec![9u8; 32]) } else { Some(vec![9u8; 32]) };
                up1.execute((1, vec![9u8; 32], &h, room, &e, d)).unwrap();
                prev_hist = h;
            } else if prev_ent == e {
                if prev_hist.is_some() {
                    up2.execute((vec![8u8; 32], room, &e, d)).unwrap();
                    what.push('u');
                    prev_hist = Some(vec![8u8; 32]);
                } else {
                    prev_hist = hist;
                }
            } else {
                prev_hist = None;
            }
            prev_ent = e.clone();
            seen.push(format!("{}{}{}", e, d, what));
            if seen.len() > 30 { break; }
        }
        let sh: Vec<String> = shape.iter().map(|(e, d, x, a, b)| format!("{}{}{}{}{}", e, d, if *x == 1 { "D" } else { "C" }, if *a { "d" } else { "-" }, if *b { "h" } else { "-" })).collect();
        println!("{:?} -> {:?}", sh, seen);
    }
}
