//! Random histories for the `sync` engine. Every choice comes from the one PRNG seeded by `--seed`.
//! Profiles (`--prop`):
//!   C09  1-2 peers: multi-day histories, cross-day updates, room moves, reference changes, deletions of
//!        rows of earlier days, writer batches with recomputation requested inside and outside of them
//!   C03  2-4 peers: writes spread over the peers (same-millisecond and cross-day concurrent updates of
//!        one row), random directed pulls, rounds until quiescence at the end
//!   C11  3-4 peers: rows spread, then deletions racing with pulls, rounds until quiescence at the end; three of
//!        five cases are scenarios (`scenario`): reference deletion vs unaware edit, late moderator, stale version
//!   C11del  3-4 peers: deletion scenarios only (`del_scenario`): a row and its deletion record meeting in either
//!        order, references of the deleted row, deletion on the day of the last change or on a later day
use dvcommon::{Args, Gen};
use rand::seq::SliceRandom;
use std::collections::{BTreeMap, BTreeSet};
use std::io::{BufWriter, Write};

const DAY: u64 = 86_400_000;

struct RowInfo {
    ent: u64,
    /// the last version was made by an unbatched new/upd: a same-millisecond update may compete with it
    contestable: bool,
    hi_used: u64,
    lo_used: u64,
    episode: u64,
    holders: BTreeSet<usize>,
    refs: BTreeSet<u64>,
    last_t: u64,
}

struct CaseGen<'a> {
    g: &'a mut Gen,
    out: Vec<String>,
    peers: usize,
    t: u64,
    rows: BTreeMap<u64, RowInfo>,
    next_row: u64,
    sigs: Vec<u64>,
    val: u64,
    in_batch: Option<(usize, BTreeSet<u64>)>,
}

impl<'a> CaseGen<'a> {
    fn sig(&mut self) -> u64 {
        self.sigs.pop().unwrap_or(0)
    }
    fn push(&mut self, s: String) {
        self.out.push(s);
    }
    fn clock(&mut self, kind: usize) {
        // 0: a few ms, 1: same ms (nothing), 2: next day, 3: several days, 4: just before/after midnight
        match kind {
            0 => self.t += 1 + self.g.below(500) as u64,
            1 => return,
            2 => self.t += DAY - self.g.below(1000) as u64,
            3 => self.t += DAY * (2 + self.g.below(3) as u64) + self.g.below(1000) as u64,
            _ => {
                let next_midnight = (self.t / DAY + 1) * DAY;
                self.t = if self.g.chance(1, 2) { next_midnight - 1 } else { next_midnight };
            }
        }
        let t = self.t;
        self.push(format!("clock t={}", t));
    }
    fn pick_row(&mut self, p: usize, person: bool) -> Option<u64> {
        let mut c: Vec<u64> = self
            .rows
            .iter()
            .filter(|(k, r)| {
                (r.holders.contains(&p) || self.g_chance_static())
                    && (!person || r.ent == 0)
                    && !self.in_batch.as_ref().map(|b| b.1.contains(k)).unwrap_or(false)
            })
            .map(|(k, _)| *k)
            .collect();
        if c.is_empty() {
            return None;
        }
        c.sort();
        Some(c[self.g.below(c.len())])
    }
    fn g_chance_static(&self) -> bool {
        false
    }
    fn touch(&mut self, row: u64) {
        if let Some(b) = self.in_batch.as_mut() {
            b.1.insert(row);
        }
    }
    fn new_row(&mut self, p: usize, room_bias_two: bool) {
        if self.in_batch.is_some() {
            self.t += 1;
            let t = self.t;
            self.push(format!("clock t={}", t));
        }
        let row = self.next_row;
        self.next_row += 1;
        let ent = if self.g.chance(1, 4) { 1 } else { 0 };
        let room = if room_bias_two && self.g.chance(1, 4) { 2 } else { 1 };
        self.val += 1;
        let (v, s, t) = (self.val, self.sig(), self.t);
        self.push(format!("new p={} row={} room={} ent={} val={} sig={}", p, row, room, ent, v, s));
        let mut holders = BTreeSet::new();
        holders.insert(p);
        let contestable = self.in_batch.is_none();
        self.rows.insert(row, RowInfo { ent, contestable, hi_used: 0, lo_used: 0, episode: 0, holders, refs: BTreeSet::new(), last_t: t });
        self.touch(row);
    }
    fn upd(&mut self, p: usize, move_room: bool) {
        if let Some(row) = self.pick_row(p, false) {
            let same_ms = self.rows[&row].last_t == self.t;
            let r = &self.rows[&row];
            let can_contest = r.contestable && self.in_batch.is_none() && (r.hi_used < 3 || r.lo_used < 3);
            if self.in_batch.is_some() || (same_ms && !can_contest) {
                self.t += 1;
                let t = self.t;
                self.push(format!("clock t={}", t));
            }
            self.val += 1;
            let conflict = self.rows[&row].last_t == self.t;
            let v = self.val;
            let s = if conflict {
                let r = self.rows.get_mut(&row).unwrap();
                let up = if r.hi_used >= 3 { false } else if r.lo_used >= 3 { true } else { self.g.chance(1, 2) };
                if up {
                    r.hi_used += 1;
                    3_000_000 + row * 10_000 + r.episode * 10 + r.hi_used
                } else {
                    r.lo_used += 1;
                    1_000_000 + row * 10_000 + r.episode * 10 + (3 - r.lo_used)
                }
            } else {
                let r = self.rows.get_mut(&row).unwrap();
                if r.hi_used + r.lo_used > 0 {
                    r.episode += 1;
                }
                r.hi_used = 0;
                r.lo_used = 0;
                self.sig()
            };
            let room = if move_room { format!(" room={}", 1 + self.g.below(2)) } else { String::new() };
            self.push(format!("upd p={} row={} val={} sig={}{}", p, row, v, s, room));
            let t = self.t;
            let batch = self.in_batch.is_some();
            let r = self.rows.get_mut(&row).unwrap();
            r.last_t = t;
            r.contestable = !batch;
            self.touch(row);
        }
    }
    fn ensure_fresh_ms(&mut self, row: u64) {
        if self.rows[&row].last_t >= self.t || self.in_batch.is_some() {
            self.t += 1;
            let t = self.t;
            self.push(format!("clock t={}", t));
        }
    }
    fn reference(&mut self, p: usize) {
        if let (Some(row), Some(to)) = (self.pick_row(p, true), self.pick_row(p, true)) {
            self.ensure_fresh_ms(row);
            let s = self.sig();
            self.push(format!("ref p={} row={} to={} sig={}", p, row, to, s));
            let t = self.t;
            let r = self.rows.get_mut(&row).unwrap();
            r.refs.insert(to);
            r.last_t = t;
            r.contestable = false;
            self.touch(row);
        }
    }
    fn unref(&mut self, p: usize) {
        if let Some(row) = self.pick_row(p, true) {
            let refs: Vec<u64> = self.rows[&row].refs.iter().cloned().collect();
            let to = if !refs.is_empty() && self.g.chance(3, 4) {
                refs[self.g.below(refs.len())]
            } else {
                match self.pick_row(p, true) {
                    Some(x) => x,
                    None => return,
                }
            };
            self.ensure_fresh_ms(row);
            let (s, d) = (self.sig(), self.sig());
            self.push(format!("unref p={} row={} to={} sig={} dsig={}", p, row, to, s, d));
            let t = self.t;
            let r = self.rows.get_mut(&row).unwrap();
            r.refs.remove(&to);
            r.last_t = t;
            r.contestable = false;
            self.touch(row);
        }
    }
    fn del(&mut self, p: usize) {
        if let Some(row) = self.pick_row(p, false) {
            // a deletion gets a millisecond of its own: two records of one version with one date are the same
            // bytes (same author) or the same primary key (other author)
            self.t += 1;
            let t = self.t;
            self.push(format!("clock t={}", t));
            let d = self.sig();
            self.push(format!("del p={} row={} dsig={}", p, row, d));
            self.rows.get_mut(&row).unwrap().holders.remove(&p);
            self.touch(row);
        }
    }
    fn pull(&mut self, dst: usize, src: usize, room: u64) {
        self.end_batch();
        self.push(format!("pull dst={} src={} room={}", dst, src, room));
        for r in self.rows.values_mut() {
            if r.holders.contains(&src) {
                r.holders.insert(dst);
            }
        }
    }
    fn begin_batch(&mut self, p: usize) {
        self.end_batch();
        self.push(format!("begin p={}", p));
        self.in_batch = Some((p, BTreeSet::new()));
    }
    fn end_batch(&mut self) {
        if let Some((p, _)) = self.in_batch.take() {
            self.push(format!("commit p={}", p));
        }
    }
    fn write(&mut self, p: usize, w: &[u32]) {
        match self.g.weighted(w) {
            0 => self.new_row(p, true),
            1 => self.upd(p, false),
            2 => self.upd(p, true),
            3 => self.reference(p),
            4 => self.unref(p),
            _ => self.del(p),
        }
    }
}

/// `a` all rows, `s` own rows, `l` own rows and all rows from the date `grant` on (appended as ` grant=T`)
fn rights(g: &mut Gen, peers: usize, some_own: bool, some_late: bool) -> String {
    let mut v = vec!["a".to_string()];
    let mut late = false;
    for _ in 1..peers {
        v.push(if some_late && g.chance(1, 2) {
            late = true;
            "l".to_string()
        } else if some_own && g.chance(1, 3) {
            "s".to_string()
        } else {
            "a".to_string()
        });
    }
    let mut r = v.join(",");
    if late {
        // between the first writes (t=1000) and the days that follow
        let t = match g.below(3) {
            0 => 1000 + 1 + g.below(2000) as u64,
            1 => DAY,
            _ => DAY + g.below(1000) as u64,
        };
        r.push_str(&format!(" grant={}", t));
    }
    r
}

/// C11 scenarios (every fifth case each): the interleavings a random history rarely hits
///   0  a reference is deleted on one peer while an unaware peer edits the source row afterwards; the peer that
///      applied the deletion (locally or through a pull) pulls the newer row before the editor hears of the deletion
///   1  a member that receives the all-rows right at a later date deletes (and edits) older rows of other members
///   2  a row is updated and then deleted while another peer still holds the older version
fn scenario(g: &mut Gen, id: usize, which: usize) -> Vec<String> {
    let peers = 3 + g.below(2);
    let mut pool: Vec<u64> = (2_000_001..=2_000_600).collect();
    pool.shuffle(&mut g.rng);
    let mut sig = move || pool.pop().unwrap();
    let mut out: Vec<String> = vec![];
    let mut t: u64 = 1000;
    let mut val = 0u64;
    let mut step = |g: &mut Gen, t: &mut u64, out: &mut Vec<String>| {
        *t += match g.below(4) {
            0 => 1 + g.below(500) as u64,
            1 => DAY - g.below(1000) as u64,
            2 => DAY + g.below(1000) as u64,
            _ => 2 * DAY + g.below(1000) as u64,
        };
        out.push(format!("clock t={}", *t));
    };
    let everyone_pulls = |out: &mut Vec<String>, src: usize| {
        for d in 0..peers {
            if d != src {
                out.push(format!("pull dst={} src={} room=1", d, src));
            }
        }
    };
    match which {
        0 => {
            out.push(format!("case id={} peers={} rights={}", id, peers, vec!["a"; peers].join(",")));
            out.push("clock t=1000".into());
            let owner = g.below(peers);
            let nrows = 2 + g.below(2) as u64;
            for r in 1..=nrows {
                val += 1;
                out.push(format!("new p={} row={} room=1 ent=0 val={} sig={}", owner, r, val, sig()));
            }
            t += 1 + g.below(100) as u64;
            out.push(format!("clock t={}", t));
            out.push(format!("ref p={} row=1 to=2 sig={}", owner, sig()));
            if nrows > 2 && g.chance(1, 2) {
                t += 1;
                out.push(format!("clock t={}", t));
                out.push(format!("ref p={} row=1 to=3 sig={}", owner, sig()));
            }
            out.push(format!("compute p={}", owner));
            everyone_pulls(&mut out, owner);
            // the deletion
            let a = g.below(peers);
            let b = (a + 1 + g.below(peers - 1)) % peers;
            step(g, &mut t, &mut out);
            out.push(format!("unref p={} row=1 to=2 sig={} dsig={}", a, sig(), sig()));
            out.push(format!("compute p={}", a));
            // the peer that will pull the newer row: the deleter, or a third peer that learnt of the deletion
            let mut victim = a;
            if g.chance(1, 3) {
                let c = (0..peers).find(|x| *x != a && *x != b).unwrap();
                out.push(format!("pull dst={} src={} room=1", c, a));
                victim = c;
            }
            // the unaware edit, later than the deletion
            step(g, &mut t, &mut out);
            val += 1;
            out.push(format!("upd p={} row=1 val={} sig={}", b, val, sig()));
            out.push(format!("compute p={}", b));
            out.push(format!("pull dst={} src={} room=1", victim, b));
            for _ in 0..g.below(4) {
                let d = g.below(peers);
                let s2 = (d + 1 + g.below(peers - 1)) % peers;
                out.push(format!("pull dst={} src={} room=1", d, s2));
            }
            out.push("settle room=0 max=8".into());
        }
        1 => {
            let late = 1 + g.below(peers - 1);
            let rs: Vec<&str> = (0..peers).map(|i| if i == late { "l" } else if i > 0 && g.chance(1, 4) { "s" } else { "a" }).collect();
            let grant = match g.below(3) {
                0 => 1000 + 500 + g.below(1000) as u64,
                1 => DAY,
                _ => DAY + 500 + g.below(1000) as u64,
            };
            out.push(format!("case id={} peers={} rights={} grant={}", id, peers, rs.join(","), grant));
            out.push("clock t=1000".into());
            let owner = (late + 1 + g.below(peers - 1)) % peers;
            let nrows = 2 + g.below(2) as u64;
            for r in 1..=nrows {
                val += 1;
                let p = if r == nrows && g.chance(1, 3) { late } else { owner };
                out.push(format!("new p={} row={} room=1 ent={} val={} sig={}", p, r, if g.chance(1, 4) { 1 } else { 0 }, val, sig()));
            }
            for p in 0..peers {
                out.push(format!("compute p={}", p));
            }
            everyone_pulls(&mut out, owner);
            if owner != late {
                everyone_pulls(&mut out, late);
            }
            // before the grant: refused on the spot (when the clock has not reached the date yet)
            if g.chance(1, 2) && t + 1 < grant {
                t += 1;
                out.push(format!("clock t={}", t));
                out.push(format!("del p={} row=1 dsig={}", late, sig()));
            }
            // after the grant
            t = std::cmp::max(t, grant) + g.below(2000) as u64;
            out.push(format!("clock t={}", t));
            if g.chance(1, 3) {
                val += 1;
                out.push(format!("upd p={} row=2 val={} sig={}", late, val, sig()));
                t += 1;
                out.push(format!("clock t={}", t));
            }
            out.push(format!("del p={} row=1 dsig={}", late, sig()));
            out.push(format!("compute p={}", late));
            let first = (late + 1 + g.below(peers - 1)) % peers;
            out.push(format!("pull dst={} src={} room=1", first, late));
            for _ in 0..g.below(4) {
                let d = g.below(peers);
                let s2 = (d + 1 + g.below(peers - 1)) % peers;
                out.push(format!("pull dst={} src={} room=1", d, s2));
            }
            out.push("settle room=0 max=8".into());
        }
        _ => {
            out.push(format!("case id={} peers={} rights={}", id, peers, vec!["a"; peers].join(",")));
            out.push("clock t=1000".into());
            let owner = g.below(peers);
            for r in 1..=2u64 {
                val += 1;
                out.push(format!("new p={} row={} room=1 ent=0 val={} sig={}", owner, r, val, sig()));
            }
            out.push(format!("compute p={}", owner));
            everyone_pulls(&mut out, owner);
            let a = g.below(peers);
            step(g, &mut t, &mut out);
            val += 1;
            out.push(format!("upd p={} row=1 val={} sig={}", a, val, sig()));
            out.push(format!("compute p={}", a));
            if g.chance(1, 3) {
                // somebody else receives the new version first and is the one who deletes it
                let b = (a + 1 + g.below(peers - 1)) % peers;
                out.push(format!("pull dst={} src={} room=1", b, a));
                step(g, &mut t, &mut out);
                out.push(format!("del p={} row=1 dsig={}", b, sig()));
                out.push(format!("compute p={}", b));
                let c = (0..peers).find(|x| *x != a && *x != b).unwrap();
                out.push(format!("pull dst={} src={} room=1", c, b));
            } else {
                step(g, &mut t, &mut out);
                out.push(format!("del p={} row=1 dsig={}", a, sig()));
                out.push(format!("compute p={}", a));
                let c = (a + 1 + g.below(peers - 1)) % peers;
                out.push(format!("pull dst={} src={} room=1", c, a));
            }
            for _ in 0..g.below(4) {
                let d = g.below(peers);
                let s2 = (d + 1 + g.below(peers - 1)) % peers;
                out.push(format!("pull dst={} src={} room=1", d, s2));
            }
            out.push("settle room=0 max=8".into());
        }
    }
    out
}

/// Deletion scenarios (`--prop C11del`): the paths on which a row and its deletion record meet in either order
///   0  a peer applies a deletion (its own or a pulled one) and then pulls from a peer that has not seen it; the
///      deleter then pulls from that peer
///   1  the unaware peer edits the row after the deletion: a peer receives the newer version first, the deletion
///      record second, and is offered the newer version again
///   2  rows that refer to each other (one reference deleted beforehand), the row is deleted on a later day than its
///      last change, an unaware peer still holds the row and its references
/// The deletion falls on the day of the row's last change or on a later day; the target may be the source or the
/// target of the references.
fn del_scenario(g: &mut Gen, id: usize, which: usize) -> Vec<String> {
    let peers = 3 + g.below(2);
    let mut pool: Vec<u64> = (2_000_001..=2_000_600).collect();
    pool.shuffle(&mut g.rng);
    let mut sig = move || pool.pop().unwrap();
    let mut out: Vec<String> = vec![format!("case id={} peers={} rights={}", id, peers, vec!["a"; peers].join(","))];
    let mut t: u64 = 1000;
    let mut val = 0u64;
    out.push("clock t=1000".into());
    let owner = g.below(peers);
    let nrows = 2 + g.below(2) as u64;
    for r in 1..=nrows {
        val += 1;
        let ent = if r == 3 && g.chance(1, 2) { 1 } else { 0 };
        out.push(format!("new p={} row={} room=1 ent={} val={} sig={}", owner, r, ent, val, sig()));
    }
    // references between rows 1 and 2 (both Person)
    let mut refs: Vec<(u64, u64)> = vec![];
    if which == 2 || g.chance(1, 2) {
        refs.push((1, 2));
        if which == 2 || g.chance(1, 2) {
            refs.push((2, 1));
        }
    }
    for (a, b) in &refs {
        t += 1 + g.below(50) as u64;
        out.push(format!("clock t={}", t));
        out.push(format!("ref p={} row={} to={} sig={}", owner, a, b, sig()));
    }
    out.push(format!("compute p={}", owner));
    for d in 0..peers {
        if d != owner {
            out.push(format!("pull dst={} src={} room=1", d, owner));
        }
    }
    let step = |g: &mut Gen, t: &mut u64, out: &mut Vec<String>, later_day: bool| {
        *t += if later_day {
            match g.below(3) {
                0 => DAY - g.below(1000) as u64,
                1 => DAY + g.below(1000) as u64,
                _ => 2 * DAY + g.below(1000) as u64,
            }
        } else {
            1 + g.below(500) as u64
        };
        out.push(format!("clock t={}", *t));
    };
    let a = g.below(peers);
    let b = (a + 1 + g.below(peers - 1)) % peers;
    let c = (0..peers).find(|x| *x != a && *x != b).unwrap();
    if which == 2 {
        // one reference is deleted first (its record travels with the source row's new version)
        let later_day = g.chance(1, 3);
        step(g, &mut t, &mut out, later_day);
        let del_by = if g.chance(1, 2) { a } else { owner };
        out.push(format!("unref p={} row=1 to=2 sig={} dsig={}", del_by, sig(), sig()));
        out.push(format!("compute p={}", del_by));
        for d in 0..peers {
            if d != del_by && g.chance(2, 3) {
                out.push(format!("pull dst={} src={} room=1", d, del_by));
            }
        }
    }
    // the deletion: same day as the row's last change, or a later day
    let later = which == 2 || g.chance(1, 2);
    step(g, &mut t, &mut out, later);
    let target = 1 + g.below(2) as u64;
    out.push(format!("del p={} row={} dsig={}", a, target, sig()));
    out.push(format!("compute p={}", a));
    match which {
        1 => {
            // the unaware edit, later than the deletion
            let later_day = g.chance(1, 3);
            step(g, &mut t, &mut out, later_day);
            val += 1;
            out.push(format!("upd p={} row={} val={} sig={}", c, target, val, sig()));
            out.push(format!("compute p={}", c));
            out.push(format!("pull dst={} src={} room=1", b, c));
            out.push(format!("pull dst={} src={} room=1", b, a));
            out.push(format!("pull dst={} src={} room=1", b, c));
            out.push(format!("pull dst={} src={} room=1", a, c));
        }
        _ => {
            out.push(format!("pull dst={} src={} room=1", b, a));
            out.push(format!("pull dst={} src={} room=1", b, c));
            out.push(format!("pull dst={} src={} room=1", a, b));
        }
    }
    for _ in 0..g.below(4) {
        let d = g.below(peers);
        let s2 = (d + 1 + g.below(peers - 1)) % peers;
        out.push(format!("pull dst={} src={} room=1", d, s2));
    }
    out.push("settle room=0 max=8".into());
    out
}

fn one_case(g: &mut Gen, prop: &str, id: usize, len: usize) -> Vec<String> {
    let peers = match prop {
        "C09" => 1 + g.below(2),
        "C03" => 2 + g.below(3),
        _ => 3 + g.below(2),
    };
    let some_own = prop == "C03" && g.chance(1, 3);
    // dated rights appear in the C11 scenarios only (`scenario`)
    let some_late = false;
    let r = rights(g, peers, some_own, some_late);
    let mut pool: Vec<u64> = (2_000_001..=2_000_600).collect();
    pool.shuffle(&mut g.rng);
    let mut c = CaseGen {
        g,
        out: vec![format!("case id={} peers={} rights={}", id, peers, r)],
        peers,
        t: 1000,
        rows: BTreeMap::new(),
        next_row: 1,
        sigs: pool,
        val: 0,
        in_batch: None,
    };
    c.push("clock t=1000".to_string());
    let n = 3 + c.g.below(len);
    match prop {
        "C09" => {
            let seedrows = 1 + c.g.below(3);
            for _ in 0..seedrows {
                let p = c.g.below(c.peers);
                c.new_row(p, true);
            }
            for _ in 0..n {
                let p = c.g.below(c.peers);
                if let Some((bp, _)) = &c.in_batch {
                    let bp = *bp;
                    match c.g.weighted(&[6, 2, 2]) {
                        0 => c.write(bp, &[4, 4, 2, 2, 2, 2]),
                        1 => c.push(format!("compute p={}", bp)),
                        _ => c.end_batch(),
                    }
                    continue;
                }
                match c.g.weighted(&[10, 4, 5, 2, if c.peers > 1 { 3 } else { 0 }]) {
                    0 => c.write(p, &[4, 4, 2, 2, 2, 3]),
                    1 => c.push(format!("compute p={}", p)),
                    2 => {
                        let k = c.g.weighted(&[5, 1, 4, 1, 2]);
                        c.clock(k)
                    }
                    3 => c.begin_batch(p),
                    _ => {
                        let src = (p + 1) % c.peers;
                        let room = 1 + c.g.below(2) as u64;
                        c.pull(p, src, room)
                    }
                }
            }
            c.end_batch();
            for p in 0..c.peers {
                c.push(format!("compute p={}", p));
            }
            if c.peers > 1 {
                c.push("settle room=0 max=6".to_string());
            }
        }
        "C03" => {
            // a few rows everybody has, then concurrent activity
            let seedrows = 1 + c.g.below(3);
            for _ in 0..seedrows {
                c.new_row(0, false);
            }
            c.push("compute p=0".to_string());
            for p in 1..c.peers {
                c.pull(p, 0, 1);
            }
            for _ in 0..n {
                let p = c.g.below(c.peers);
                match c.g.weighted(&[10, 8, 4, 1]) {
                    0 => {
                        c.write(p, &[3, 6, 1, 2, 2, 2]);
                        // the API asks for a recomputation after every acknowledged write
                        if c.g.chance(9, 10) {
                            c.push(format!("compute p={}", p));
                        }
                    }
                    1 => {
                        let src = (p + 1 + c.g.below(c.peers - 1)) % c.peers;
                        let room = if c.g.chance(1, 5) { 2 } else { 1 };
                        c.pull(p, src, room)
                    }
                    2 => {
                        let k = c.g.weighted(&[4, 4, 3, 1, 2]);
                        c.clock(k)
                    }
                    _ => c.push(format!("compute p={}", p)),
                }
            }
            c.push("settle room=0 max=8".to_string());
        }
        _ => {
            let seedrows = 2 + c.g.below(3);
            for _ in 0..seedrows {
                let p = c.g.below(c.peers);
                c.new_row(p, false);
            }
            for p in 0..c.peers {
                c.push(format!("compute p={}", p));
            }
            for dst in 0..c.peers {
                for src in 0..c.peers {
                    if dst != src {
                        c.pull(dst, src, 1);
                    }
                }
            }
            for _ in 0..n {
                let p = c.g.below(c.peers);
                match c.g.weighted(&[4, 5, 9, 3]) {
                    0 => {
                        c.write(p, &[2, 4, 0, 2, 2, 0]);
                        if c.g.chance(9, 10) {
                            c.push(format!("compute p={}", p));
                        }
                    }
                    1 => {
                        c.write(p, &[0, 0, 0, 0, 2, 6]);
                        if c.g.chance(9, 10) {
                            c.push(format!("compute p={}", p));
                        }
                    }
                    2 => {
                        let src = (p + 1 + c.g.below(c.peers - 1)) % c.peers;
                        c.pull(p, src, 1)
                    }
                    _ => {
                        let k = c.g.weighted(&[5, 2, 4, 1, 1]);
                        c.clock(k)
                    }
                }
            }
            c.push("settle room=0 max=8".to_string());
        }
    }
    c.out
}

/// a small concurrent history on three peers (seeded), then EVERY sequence of `len` directed pulls, then rounds
/// until quiescence: all arrival orders of the same writes
fn all_orders(a: &Args) {
    let seed = a.u64_or("seed", 1);
    let len = a.usize_or("len", 3);
    let bases = a.usize_or("n", 4);
    let mut w = BufWriter::new(std::fs::File::create(a.str_or("out", "cases.ops")).unwrap());
    let pairs: Vec<(usize, usize)> = vec![(0, 1), (0, 2), (1, 0), (1, 2), (2, 0), (2, 1)];
    let mut id = 0;
    for b in 0..bases {
        let mut g = Gen::new(seed.wrapping_mul(1000003) ^ (b as u64) ^ 0xA11_0DE5);
        // base: two rows known to everybody, then concurrent writes on the three peers
        let mut base: Vec<String> = vec![
            "clock t=1000".into(),
            "new p=0 row=1 room=1 ent=0 val=1 sig=2000001".into(),
            "new p=0 row=2 room=1 ent=0 val=2 sig=2000002".into(),
            "compute p=0".into(),
            "pull dst=1 src=0 room=1".into(),
            "pull dst=2 src=0 room=1".into(),
        ];
        let mut t = 2000u64;
        let mut sig = 2000010u64;
        let mut val = 10u64;
        let mut deleted = false;
        for p in 0..3usize {
            if g.chance(1, 3) {
                t += if g.chance(1, 4) { DAY } else { 1 + g.below(5) as u64 };
            }
            base.push(format!("clock t={}", t));
            let row = 1 + g.below(2) as u64;
            sig += 1;
            val += 1;
            match g.weighted(&[5, if deleted { 0 } else { 3 }, 2]) {
                0 => base.push(format!("upd p={} row={} val={} sig={}", p, row, val, sig)),
                1 => {
                    t += 1;
                    base.push(format!("clock t={}", t));
                    base.push(format!("del p={} row={} dsig={}", p, row, sig));
                    deleted = true;
                }
                _ => {
                    t += 1;
                    base.push(format!("clock t={}", t));
                    base.push(format!("ref p={} row={} to={} sig={}", p, row, 3 - row, sig));
                }
            }
            base.push(format!("compute p={}", p));
            t += 1;
        }
        let mut idx = vec![0usize; len];
        loop {
            writeln!(w, "case id={} peers=3 rights=a,a,a", id).unwrap();
            id += 1;
            for l in &base {
                writeln!(w, "{}", l).unwrap();
            }
            for i in 0..len {
                let (d, s) = pairs[idx[i]];
                writeln!(w, "pull dst={} src={} room=1", d, s).unwrap();
            }
            writeln!(w, "settle room=1 max=6").unwrap();
            let mut i = len;
            let mut done = false;
            loop {
                if i == 0 {
                    done = true;
                    break;
                }
                i -= 1;
                idx[i] += 1;
                if idx[i] < pairs.len() {
                    break;
                }
                idx[i] = 0;
            }
            if done {
                break;
            }
        }
    }
    w.flush().unwrap();
}

pub fn generate(a: &Args) {
    if a.str_or("prop", "C09") == "orders" {
        return all_orders(a);
    }
    let prop = a.str_or("prop", "C09");
    let mut g = Gen::new(a.u64_or("seed", 1) ^ (prop.bytes().map(|b| b as u64).sum::<u64>() << 32));
    let n = a.usize_or("n", 50);
    let len = a.usize_or("len", 14);
    let mut w = BufWriter::new(std::fs::File::create(a.str_or("out", "cases.ops")).unwrap());
    for id in 0..n {
        let lines = if prop == "C11del" {
            del_scenario(&mut g, id, id % 3)
        } else if prop == "C11" && id % 5 < 3 {
            scenario(&mut g, id, id % 5)
        } else {
            one_case(&mut g, &prop, id, len)
        };
        for l in lines {
            writeln!(w, "{}", l).unwrap();
        }
    }
    w.flush().unwrap();
}
