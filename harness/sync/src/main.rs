//! Engine `sync`: 2-4 real database instances synchronised pairwise through the real pull code.
//!
//!   dv-sync gen  --prop C09|C03|C11 --seed S --n N --out FILE      random histories
//!   dv-sync run  --ops FILE --out FILE [--stats FILE] [--work DIR]  execute on the real code
//!
//! Op file (shared with the Lean driver `dmodel_sync`); times are logical milliseconds, a day is 86400000:
//!   case id=<n> peers=<2..4> rights=a,a,s     instances 0..peers-1 all members of rooms 1 and 2 (peer 0 admin);
//!                                             right a = own and foreign rows, s = own rows only
//!   clock t=<ms>
//!   new p= row= room= ent= val= sig=          create row `row` (entity 0 Person, 1 Pet)
//!   upd p= row= val= sig= [room=]             update (optionally moving the row to another room)
//!   ref p= row= to= sig=                      add a reference row -> to (re-signs the row: sig)
//!   unref p= row= to= sig= dsig=              delete the reference (re-signs the row: sig; record: dsig)
//!   del p= row= dsig=                         delete the row (record: dsig)
//!   unrefs p= rows=a,b tos=x,y sigs=.. dsigs=..  ONE deletion query with one reference-deletion entry per position
//!                                             (rows distinct; entries naming an absent reference remove nothing); not in a batch
//!   begin p= / commit p=                      the writes of p in between are ONE writer batch
//!   compute p=                                request the daily-log recomputation and wait for it
//!   pull dst= src= room=                      one directed synchronisation of one room
//!   settle room= max=                         every peer recomputes, then full rounds of all ordered pairs (room 0:
//!                                             of both rooms) until a round changes nothing
//! The `sig` numbers are symbolic signatures chosen by the generator (unique in a case); the harness
//! maps the real signature bytes to them, and makes the byte order of the signatures of two versions of
//! the same row with the same date agree with the numeric order (by re-signing with another salt).
mod gen;
mod probe;
mod world;

use discret::verif_hooks::database::Error as DbError;
use discret::verif_hooks::security::Uid;
use dvcommon::{join, parse_kv, Args, Canon, Stats};
use std::collections::{BTreeMap, HashMap};
use std::io::{BufRead, BufWriter, Write};
use std::path::PathBuf;
use world::*;

fn err_class(e: &DbError) -> &'static str {
    match e {
        DbError::AuthorisationRejected(_, _) => "auth",
        DbError::UnknownEntity(_, _) => "unknown",
        DbError::UnknownRoom(_) => "room",
        _ => "other",
    }
}

struct Pending {
    op: String,
    kv: HashMap<String, String>,
    mutation: Option<
        tokio::sync::oneshot::Receiver<
            Result<discret::verif_hooks::database::mutation_query::MutationQuery, DbError>,
        >,
    >,
    deletion: Option<
        tokio::sync::oneshot::Receiver<
            Result<discret::verif_hooks::database::deletion::DeletionQuery, DbError>,
        >,
    >,
    computed: bool,
}

struct Case {
    npeers: usize,
    rooms: Vec<Uid>,
    rows: HashMap<u64, Uid>,
    row_of: HashMap<Uid, u64>,
    ent_of_row: HashMap<u64, usize>,
    ent_short: HashMap<String, usize>,
    sigs: HashMap<Vec<u8>, u64>,
    versions: HashMap<u64, Vec<(i64, Vec<u8>, u64)>>,
    hashes: Canon<Vec<u8>>,
    unknown_ids: Canon<Uid>,
    unknown_sigs: Canon<Vec<u8>>,
    open: Option<(usize, OpenBatch, Vec<Pending>)>,
    salt: u64,
}

struct World {
    peers: Vec<Peer>,
    work: PathBuf,
    generation: u64,
    case: Option<Case>,
    stats: Stats,
}

impl World {
    async fn ensure_peers(&mut self, n: usize) -> Result<(), String> {
        while self.peers.len() < n {
            let i = self.peers.len();
            let folder = self.work.join(format!("g{}_p{}", self.generation, i));
            let _ = std::fs::remove_dir_all(&folder);
            let mut secret = [0u8; 32];
            secret[0] = i as u8 + 1;
            secret[1] = (self.generation & 0xff) as u8;
            secret[2] = 0x5a;
            self.peers.push(Peer::start(folder, secret).await?);
        }
        Ok(())
    }

    async fn start_case(&mut self, kv: &HashMap<String, String>) -> Result<String, String> {
        let id: u64 = kv.get("id").and_then(|v| v.parse().ok()).ok_or("bad-op")?;
        let npeers: usize = kv.get("peers").and_then(|v| v.parse().ok()).ok_or("bad-op")?;
        if !(1..=4).contains(&npeers) {
            return Err("bad-op".into());
        }
        let rights: Vec<String> = kv
            .get("rights")
            .map(|s| s.split(',').map(|x| x.to_string()).collect())
            .unwrap_or_else(|| vec!["a".to_string(); npeers]);
        if rights.len() != npeers || rights.iter().any(|r| r != "a" && r != "s" && r != "l") || rights[0] != "a" {
            return Err("bad-op".into());
        }
        // `l`: own-rows right from the start, all-rows right from date `grant` on (a dated right of the room definition)
        let grant: Option<i64> = kv.get("grant").and_then(|v| v.parse().ok());
        if rights.iter().any(|r| r == "l") && grant.is_none() {
            return Err("bad-op".into());
        }
        if let Some(c) = self.case.take() {
            if let Some((p, b, _)) = c.open {
                close_batch(&self.peers[p], b).await;
            }
        }
        self.ensure_peers(npeers).await?;
        set_clock(0);
        let mut rooms = vec![];
        for _ in 0..2 {
            let mut all = String::new();
            let mut own = String::new();
            let mut late = String::new();
            let mut kvs: Vec<(String, String)> = vec![("u0".to_string(), self.peers[0].key64.clone())];
            for (i, r) in rights.iter().enumerate() {
                kvs.push((format!("k{}", i), self.peers[i].key64.clone()));
                let s = format!("{{verif_key:$k{}}}", i);
                let tgt = if r == "a" {
                    &mut all
                } else if r == "s" {
                    &mut own
                } else {
                    &mut late
                };
                if !tgt.is_empty() {
                    tgt.push(',');
                }
                tgt.push_str(&s);
            }
            let group = |name: &str, users: &str, allrows: bool| -> String {
                if users.is_empty() {
                    return String::new();
                }
                format!(
                    "{{ name:\"{}\" rights:[{{entity:\"Person\" mutate_self:true mutate_all:{}}},{{entity:\"Pet\" mutate_self:true mutate_all:{}}}] users:[{}] }}",
                    name, allrows, allrows, users
                )
            };
            let text = format!(
                "mutate {{ sys.Room {{ admin: [{{verif_key:$u0}}] authorisations:[ {} {} {} ] }} }}",
                group("all", &all, true),
                if own.is_empty() { String::new() } else { format!(", {}", group("own", &own, false)) },
                if late.is_empty() { String::new() } else { format!(", {}", group("late", &late, false)) }
            );
            let kvr: Vec<(&str, String)> = kvs.iter().map(|(k, v)| (k.as_str(), v.clone())).collect();
            let q = self.peers[0]
                .svc
                .mutate_raw(&text, Some(params(&kvr)))
                .await
                .map_err(|e| format!("room creation: {}", e))?;
            let room_id = q.mutate_entities[0].node_to_mutate.id;
            rooms.push(room_id);
            if !late.is_empty() {
                // the last group of the mutation is "late": it gets the all-rows right at the date `grant`
                let gid = q.mutate_entities[0]
                    .sub_nodes
                    .get("authorisations")
                    .and_then(|v| v.last())
                    .map(|g| g.node_to_mutate.id)
                    .ok_or("room creation: no group id")?;
                self.peers[0].write_barrier().await;
                set_clock(grant.unwrap());
                let text = "mutate { sys.Room { id:$r authorisations:[{ id:$g rights:[{entity:\"Person\" mutate_self:true mutate_all:true},{entity:\"Pet\" mutate_self:true mutate_all:true}] }] } }";
                let r = self.peers[0]
                    .svc
                    .mutate_raw(text, Some(params(&[("r", discret::verif_hooks::security::uid_encode(&room_id)), ("g", discret::verif_hooks::security::uid_encode(&gid))])))
                    .await;
                set_clock(0);
                r.map_err(|e| format!("room grant: {}", e))?;
            }
        }
        self.peers[0].write_barrier().await;
        for i in 1..npeers {
            for r in &rooms {
                let res = pull(&self.peers[i], &self.peers[0], *r, None).await;
                res.result.map_err(|e| format!("setup pull: {}", e))?;
            }
        }
        self.case = Some(Case {
            npeers,
            rooms,
            rows: HashMap::new(),
            row_of: HashMap::new(),
            ent_of_row: HashMap::new(),
            ent_short: HashMap::new(),
            sigs: HashMap::new(),
            versions: HashMap::new(),
            hashes: Canon::default(),
            unknown_ids: Canon::default(),
            unknown_sigs: Canon::default(),
            open: None,
            salt: 0,
        });
        self.stats.inc("cases");
        Ok(format!("case {}", id))
    }

    /// the raw state of every peer (real bytes, sorted): used to detect a round that changes nothing
    /// without touching the canonical numbering of the case
    async fn fingerprint(&mut self) -> String {
        let c = self.case.as_ref().unwrap();
        let mut parts = vec![];
        for pi in 0..c.npeers {
            let raw = dump_raw(&self.peers[pi], c.rooms.clone()).await;
            let mut v: Vec<String> = vec![];
            for n in &raw.nodes {
                v.push(format!("N{:?}{:?}{}{}{}{:?}{:?}", n.id, n.room, n.cdate, n.mdate, n.entity, n.json, n.sig));
            }
            for e in raw.edges.iter().filter(|e| c.row_of.contains_key(&e.src) || c.row_of.contains_key(&e.dest)) {
                v.push(format!("E{:?}{:?}{}{:?}", e.src, e.dest, e.cdate, e.key));
            }
            for t in &raw.ntombs {
                v.push(format!("D{:?}{:?}{}{}{:?}", t.room, t.id, t.mdate, t.ddate, t.sig));
            }
            for t in &raw.etombs {
                v.push(format!("X{:?}{:?}{:?}{}{}{:?}", t.room, t.src, t.dest, t.cdate, t.ddate, t.sig));
            }
            for l in &raw.log {
                v.push(format!("L{:?}{}{}{}{:?}{:?}{}", l.room, l.entity, l.date, l.n, l.daily, l.history, l.dirty));
            }
            v.sort();
            parts.push(v.join("|"));
        }
        parts.join("#")
    }

    async fn dump(&mut self) -> String {
        let c = self.case.as_mut().unwrap();
        let mut parts = vec![];
        let key_of: HashMap<Vec<u8>, usize> = self
            .peers
            .iter()
            .enumerate()
            .map(|(i, p)| (p.key.clone(), i))
            .collect();
        for pi in 0..c.npeers {
            let raw = dump_raw(&self.peers[pi], c.rooms.clone()).await;
            parts.push(format!("p{}{{{}}}", pi, canon_dump(c, &key_of, &raw)));
        }
        join(&parts, " ")
    }
}

fn rid(c: &mut Case, u: &Uid) -> String {
    match c.row_of.get(u) {
        Some(k) => k.to_string(),
        None => format!("u{}", c.unknown_ids.id(u)),
    }
}
fn room_ix(c: &Case, u: &Uid) -> String {
    match c.rooms.iter().position(|r| r == u) {
        Some(i) => (i + 1).to_string(),
        None => "?".to_string(),
    }
}
fn ent_ix(c: &Case, s: &str) -> String {
    match c.ent_short.get(s) {
        Some(i) => i.to_string(),
        None => format!("?{}", s),
    }
}
fn sig_ix(c: &mut Case, s: &Vec<u8>) -> String {
    match c.sigs.get(s) {
        Some(k) => k.to_string(),
        None => format!("x{}", c.unknown_sigs.id(s)),
    }
}
fn key_ix(key_of: &HashMap<Vec<u8>, usize>, k: &Vec<u8>) -> String {
    match key_of.get(k) {
        Some(i) => i.to_string(),
        None => "?".to_string(),
    }
}
fn val_of(json: &Option<String>) -> String {
    if let Some(j) = json {
        if let Ok(serde_json::Value::Object(o)) = serde_json::from_str::<serde_json::Value>(j) {
            if let Some(serde_json::Value::String(s)) = o.get("32") {
                return s.trim_start_matches('v').to_string();
            }
        }
    }
    "?".to_string()
}
fn hash_ix(c: &mut Case, h: &Option<Vec<u8>>) -> String {
    match h {
        None => "-".to_string(),
        Some(b) => format!("h{}", c.hashes.id(b)),
    }
}

fn canon_dump(c: &mut Case, key_of: &HashMap<Vec<u8>, usize>, raw: &Raw) -> String {
    let t = |x: i64| x - BASE;
    let dayn = |x: i64| (x - BASE).div_euclid(DAY);
    // nodes
    let mut ns: Vec<(String, String)> = raw
        .nodes
        .iter()
        .map(|n| {
            let k = rid(c, &n.id);
            let s = format!(
                "{}:{}:{}:{}:{}:{}:{}:{}",
                k,
                room_ix(c, &n.room),
                ent_ix(c, &n.entity),
                t(n.cdate),
                t(n.mdate),
                key_ix(key_of, &n.key),
                val_of(&n.json),
                sig_ix(c, &n.sig)
            );
            (sort_key(&k), s)
        })
        .collect();
    ns.sort();
    let known: std::collections::HashSet<Uid> = c.row_of.keys().cloned().collect();
    let mut es: Vec<(String, String)> = raw
        .edges
        .iter()
        .filter(|e| known.contains(&e.src) || known.contains(&e.dest))
        .map(|e| {
            let (a, b) = (rid(c, &e.src), rid(c, &e.dest));
            let s = format!("{}:{}:{}:{}", a, b, t(e.cdate), key_ix(key_of, &e.key));
            (format!("{}|{}", sort_key(&a), sort_key(&b)), s)
        })
        .collect();
    es.sort();
    let mut ds: Vec<(String, String)> = raw
        .ntombs
        .iter()
        .map(|d| {
            let k = rid(c, &d.id);
            let s = format!(
                "{}:{}:{}:{}:{}:{}:{}",
                k,
                room_ix(c, &d.room),
                ent_ix(c, &d.entity),
                t(d.mdate),
                t(d.ddate),
                key_ix(key_of, &d.key),
                sig_ix(c, &d.sig)
            );
            (
                format!(
                    "{}|{:020}|{}|{}",
                    sort_key(&k),
                    t(d.ddate),
                    sort_key(&key_ix(key_of, &d.key)),
                    sort_key(&sig_ix(c, &d.sig))
                ),
                s,
            )
        })
        .collect();
    ds.sort();
    let mut xs: Vec<(String, String)> = raw
        .etombs
        .iter()
        .map(|d| {
            let (a, b) = (rid(c, &d.src), rid(c, &d.dest));
            let s = format!(
                "{}:{}:{}:{}:{}:{}:{}",
                a,
                b,
                room_ix(c, &d.room),
                t(d.cdate),
                t(d.ddate),
                key_ix(key_of, &d.key),
                sig_ix(c, &d.sig)
            );
            (
                format!(
                    "{}|{}|{:020}|{}|{}",
                    sort_key(&a),
                    sort_key(&b),
                    t(d.ddate),
                    sort_key(&key_ix(key_of, &d.key)),
                    sort_key(&sig_ix(c, &d.sig))
                ),
                s,
            )
        })
        .collect();
    xs.sort();
    // daily log + independent from-scratch check
    let spec = from_scratch(raw);
    let mut ls: Vec<((String, String, i64), &RawLog)> = raw
        .log
        .iter()
        .map(|l| ((room_ix(c, &l.room), ent_ix(c, &l.entity), dayn(l.date)), l))
        .collect();
    ls.sort_by(|a, b| a.0.cmp(&b.0));
    let mut lout = vec![];
    let mut seen = std::collections::HashSet::new();
    for (k, l) in ls {
        seen.insert((l.room, l.entity.clone(), l.date));
        let chk = if l.dirty {
            "-".to_string()
        } else {
            match spec.get(&(l.room, l.entity.clone(), l.date)) {
                None => "e".to_string(),
                Some((n, d, h)) => {
                    let mut s = String::new();
                    if *n != l.n {
                        s.push('n')
                    }
                    if l.daily.as_ref() != Some(d) {
                        s.push('d')
                    }
                    if l.history.as_ref() != Some(h) {
                        s.push('h')
                    }
                    if s.is_empty() {
                        s.push_str("ok")
                    }
                    s
                }
            }
        };
        lout.push(format!(
            "{}:{}:{}:{}:{}:{}:{}:{}",
            k.0,
            k.1,
            k.2,
            l.n,
            hash_ix(c, &l.daily),
            hash_ix(c, &l.history),
            if l.dirty { 1 } else { 0 },
            chk
        ));
    }
    let mut missing: Vec<(String, String, i64)> = spec
        .keys()
        .filter(|k| !seen.contains(*k))
        .map(|k| (room_ix(c, &k.0), ent_ix(c, &k.1), dayn(k.2)))
        .collect();
    missing.sort();
    for m in missing {
        lout.push(format!("{}:{}:{}:missing", m.0, m.1, m.2));
    }
    let f = |v: Vec<(String, String)>| join(&v.into_iter().map(|x| x.1).collect::<Vec<_>>(), ";");
    format!(
        "N[{}] E[{}] D[{}] X[{}] L[{}]",
        f(ns),
        f(es),
        f(ds),
        f(xs),
        join(&lout, ";")
    )
}

/// first-byte band of the real signature for a symbolic signature number: numbers from 3000000 / below 2000000
/// (same-date concurrent versions) get disjoint bands above / below the band of the ordinary numbers
fn band(sig: u64) -> (u8, u8) {
    if sig >= 3_000_000 {
        match sig % 10 {
            1 => (0xC0, 0xD8),
            2 => (0xD8, 0xEC),
            _ => (0xEC, 0xFC),
        }
    } else if sig < 2_000_000 {
        match 3 - (sig % 10).min(3) {
            1 => (0x28, 0x40),
            2 => (0x14, 0x28),
            _ => (0x04, 0x14),
        }
    } else {
        (0x40, 0xC0)
    }
}

fn sort_key(k: &str) -> String {
    match k.parse::<u64>() {
        Ok(n) => format!("0{:012}", n),
        Err(_) => format!("1{}", k),
    }
}

fn getn(kv: &HashMap<String, String>, k: &str) -> Option<u64> {
    kv.get(k).and_then(|v| v.parse().ok())
}

impl World {
    fn mutation_text(&mut self, kind: &str, kv: &HashMap<String, String>) -> Result<(usize, String, Vec<(String, String)>), String> {
        let c = self.case.as_mut().ok_or("bad-op")?;
        let p = getn(kv, "p").ok_or("bad-op")? as usize;
        if p >= c.npeers {
            return Err("bad-op".into());
        }
        let row = getn(kv, "row").ok_or("bad-op")?;
        c.salt += 1;
        let salt = format!("s{}", c.salt);
        match kind {
            "new" => {
                let room = getn(kv, "room").ok_or("bad-op")? as usize;
                let ent = getn(kv, "ent").ok_or("bad-op")? as usize;
                let val = getn(kv, "val").ok_or("bad-op")?;
                getn(kv, "sig").ok_or("bad-op")?;
                if !(1..=2).contains(&room) || ent > 1 || c.rows.contains_key(&row) {
                    return Err("bad-op".into());
                }
                Ok((
                    p,
                    format!("mutate {{ P: {} {{ room_id:$room name:$name salt:$salt }} }}", ENTITIES[ent]),
                    vec![
                        ("room".into(), discret::verif_hooks::security::uid_encode(&c.rooms[room - 1])),
                        ("name".into(), format!("v{}", val)),
                        ("salt".into(), salt),
                    ],
                ))
            }
            "upd" => {
                let val = getn(kv, "val").ok_or("bad-op")?;
                getn(kv, "sig").ok_or("bad-op")?;
                let id = *c.rows.get(&row).ok_or("bad-op")?;
                let ent = *c.ent_of_row.get(&row).ok_or("bad-op")?;
                let mut ps = vec![
                    ("id".to_string(), discret::verif_hooks::security::uid_encode(&id)),
                    ("name".to_string(), format!("v{}", val)),
                    ("salt".to_string(), salt),
                ];
                let roomtxt = match getn(kv, "room") {
                    Some(r) => {
                        if !(1..=2).contains(&(r as usize)) {
                            return Err("bad-op".into());
                        }
                        ps.push(("room".to_string(), discret::verif_hooks::security::uid_encode(&c.rooms[r as usize - 1])));
                        "room_id:$room"
                    }
                    None => "",
                };
                Ok((
                    p,
                    format!("mutate {{ P: {} {{ id:$id {} name:$name salt:$salt }} }}", ENTITIES[ent], roomtxt),
                    ps,
                ))
            }
            "ref" => {
                let to = getn(kv, "to").ok_or("bad-op")?;
                getn(kv, "sig").ok_or("bad-op")?;
                let id = *c.rows.get(&row).ok_or("bad-op")?;
                let tid = *c.rows.get(&to).ok_or("bad-op")?;
                if c.ent_of_row.get(&row) != Some(&0) || c.ent_of_row.get(&to) != Some(&0) {
                    return Err("bad-op".into());
                }
                Ok((
                    p,
                    "mutate { P: Person { id:$id parents:[{id:$to}] } }".to_string(),
                    vec![
                        ("id".into(), discret::verif_hooks::security::uid_encode(&id)),
                        ("to".into(), discret::verif_hooks::security::uid_encode(&tid)),
                    ],
                ))
            }
            "unref" => {
                let to = getn(kv, "to").ok_or("bad-op")?;
                getn(kv, "sig").ok_or("bad-op")?;
                getn(kv, "dsig").ok_or("bad-op")?;
                let id = *c.rows.get(&row).ok_or("bad-op")?;
                let tid = *c.rows.get(&to).ok_or("bad-op")?;
                if c.ent_of_row.get(&row) != Some(&0) {
                    return Err("bad-op".into());
                }
                Ok((
                    p,
                    "delete { Person { $id parents[$to] } }".to_string(),
                    vec![
                        ("id".into(), discret::verif_hooks::security::uid_encode(&id)),
                        ("to".into(), discret::verif_hooks::security::uid_encode(&tid)),
                    ],
                ))
            }
            "del" => {
                getn(kv, "dsig").ok_or("bad-op")?;
                let id = *c.rows.get(&row).ok_or("bad-op")?;
                let ent = *c.ent_of_row.get(&row).ok_or("bad-op")?;
                Ok((
                    p,
                    format!("delete {{ {} {{ $id }} }}", ENTITIES[ent]),
                    vec![("id".into(), discret::verif_hooks::security::uid_encode(&id))],
                ))
            }
            _ => Err("bad-op".into()),
        }
    }

    /// registers what a finished mutation produced; returns (result class, order violated?)
    fn register_mutation(
        &mut self,
        kind: &str,
        kv: &HashMap<String, String>,
        res: Result<discret::verif_hooks::database::mutation_query::MutationQuery, DbError>,
        enforce_band: bool,
    ) -> (String, bool) {
        let c = self.case.as_mut().unwrap();
        match res {
            Err(e) => (format!("err:{}", err_class(&e)), false),
            Ok(q) => {
                let ntm = &q.mutate_entities[0].node_to_mutate;
                let row = getn(kv, "row").unwrap();
                let sig = getn(kv, "sig").unwrap();
                if kind == "new" {
                    c.rows.insert(row, ntm.id);
                    c.row_of.insert(ntm.id, row);
                    c.ent_of_row.insert(row, getn(kv, "ent").unwrap() as usize);
                }
                let mut violated = false;
                if let Some(node) = &ntm.node {
                    c.ent_short
                        .insert(node._entity.clone(), *c.ent_of_row.get(&row).unwrap());
                    let vs = c.versions.entry(row).or_default();
                    for (m, b, s) in vs.iter() {
                        if *m == node.mdate && *s != sig && ((node._signature > *b) != (sig > *s)) {
                            violated = true;
                        }
                    }
                    if enforce_band {
                        let (lo, hi) = band(sig);
                        let b0 = node._signature[0];
                        if b0 < lo || b0 >= hi {
                            violated = true;
                        }
                    }
                    if !violated {
                        vs.push((node.mdate, node._signature.clone(), sig));
                        c.sigs.insert(node._signature.clone(), sig);
                    }
                    ("ok".to_string(), violated)
                } else {
                    ("ok:nochange".to_string(), false)
                }
            }
        }
    }

    /// registers what a finished deletion produced; returns (result class, signature order of the re-signed
    /// source row violated?)
    fn register_deletion(
        &mut self,
        kv: &HashMap<String, String>,
        res: Result<discret::verif_hooks::database::deletion::DeletionQuery, DbError>,
    ) -> (String, bool) {
        let c = self.case.as_mut().unwrap();
        let mut violated = false;
        let r = match res {
            Err(e) => format!("err:{}", err_class(&e)),
            Ok(q) => {
                let row = getn(kv, "row").unwrap();
                if let (Some(n), Some(s)) = (q.updated_nodes.first(), getn(kv, "sig")) {
                    let vs = c.versions.entry(row).or_default();
                    for (m, b, s2) in vs.iter() {
                        if *m == n.mdate && *s2 != s && ((n._signature > *b) != (s > *s2)) {
                            violated = true;
                        }
                    }
                    if !violated {
                        c.sigs.insert(n._signature.clone(), s);
                        vs.push((n.mdate, n._signature.clone(), s));
                    }
                }
                if let Some(d) = getn(kv, "dsig") {
                    // identical content signs identically: the first number given to those bytes stays
                    if let Some(l) = q.node_log.first() {
                        c.sigs.entry(l.signature.clone()).or_insert(d);
                    }
                    if let Some(l) = q.edge_log.first() {
                        c.sigs.entry(l.signature.clone()).or_insert(d);
                    }
                }
                let what = if !q.node_log.is_empty() || !q.edge_log.is_empty() {
                    "ok"
                } else if !q.nodes.is_empty() {
                    "ok:norecord"
                } else if !q.updated_nodes.is_empty() {
                    "ok:noref"
                } else {
                    "ok:nothing"
                };
                what.to_string()
            }
        };
        (r, violated)
    }

    async fn write_op(&mut self, kind: &str, kv: &HashMap<String, String>) -> Result<String, String> {
        let (p, mut text, mut ps) = self.mutation_text(kind, kv)?;
        let mut retry_kind = kind;
        let is_del = kind == "del" || kind == "unref";
        let in_batch = matches!(&self.case.as_ref().unwrap().open, Some((bp, _, _)) if *bp == p);
        if !in_batch {
            self.auto_commit().await;
        }
        self.stats.inc(&format!("op.{}", kind));
        let mut tries = 0;
        loop {
            let psr: Vec<(&str, String)> = ps
                .iter()
                .map(|(k, v)| {
                    if k == "salt" && tries > 0 {
                        (k.as_str(), format!("{}r{}", v, tries))
                    } else {
                        (k.as_str(), v.clone())
                    }
                })
                .collect();
            if is_del {
                let rx = send_deletion(&self.peers[p], &text, params(&psr)).await;
                if in_batch {
                    self.peers[p].pipeline_sync().await;
                    let c = self.case.as_mut().unwrap();
                    c.open.as_mut().unwrap().2.push(Pending {
                        op: kind.to_string(),
                        kv: kv.clone(),
                        mutation: None,
                        deletion: Some(rx),
                        computed: false,
                    });
                    return Ok("queued".to_string());
                }
                let res = rx.await.map_err(|e| e.to_string())?; // answered after the commit
                let (r, violated) = self.register_deletion(kv, res);
                if violated {
                    // a reference deletion re-signed the source row at a date another version of it carries: re-sign
                    // it (same date, same value, other salt) until the signatures compare like the op file's numbers
                    let row = getn(kv, "row").unwrap();
                    let id = *self.case.as_ref().unwrap().rows.get(&row).unwrap();
                    let mut ok = false;
                    for _ in 0..1000 {
                        self.stats.inc("sig_order_retries");
                        let c = self.case.as_mut().unwrap();
                        c.salt += 1;
                        let psr = vec![
                            ("id", discret::verif_hooks::security::uid_encode(&id)),
                            ("salt", format!("s{}", c.salt)),
                        ];
                        let rx = send_mutation(&self.peers[p], "mutate { P: Person { id:$id salt:$salt } }", params(&psr)).await;
                        let res = rx.await.map_err(|e| e.to_string())?;
                        let (_, v) = self.register_mutation("upd", kv, res, false);
                        if !v {
                            ok = true;
                            break;
                        }
                    }
                    if !ok {
                        return Err("cannot-order-signature".to_string());
                    }
                }
                self.stats.inc(&format!("res.{}.{}", kind, r));
                return Ok(r);
            } else {
                let rx = send_mutation(&self.peers[p], &text, params(&psr)).await;
                if in_batch {
                    self.peers[p].pipeline_sync().await;
                    let c = self.case.as_mut().unwrap();
                    c.open.as_mut().unwrap().2.push(Pending {
                        op: kind.to_string(),
                        kv: kv.clone(),
                        mutation: Some(rx),
                        deletion: None,
                        computed: false,
                    });
                    return Ok("queued".to_string());
                }
                let res = rx.await.map_err(|e| e.to_string())?; // answered after the commit
                let (r, violated) = self.register_mutation(if tries == 0 { kind } else { retry_kind }, kv, res, kind == "new" || kind == "upd");
                if violated && kind == "ref" && tries < 1000 {
                    // the reference is in place; re-sign the source row (same date, same value, other salt) until
                    // its signature compares like the number of the op file
                    tries += 1;
                    self.stats.inc("sig_order_retries");
                    if tries == 1 {
                        let c = self.case.as_mut().unwrap();
                        let row = getn(kv, "row").unwrap();
                        let id = *c.rows.get(&row).unwrap();
                        c.salt += 1;
                        text = "mutate { P: Person { id:$id salt:$salt } }".to_string();
                        ps = vec![
                            ("id".to_string(), discret::verif_hooks::security::uid_encode(&id)),
                            ("salt".to_string(), format!("s{}", c.salt)),
                        ];
                        retry_kind = "upd";
                    }
                    continue;
                }
                if violated && (kind == "upd" || kind == "new") && tries < 1000 {
                    tries += 1;
                    self.stats.inc("sig_order_retries");
                    if tries == 1 {
                        // from now on: a plain update of the same row at the same date, same value, other salt
                        let c = self.case.as_ref().unwrap();
                        let row = getn(kv, "row").unwrap();
                        let id = *c.rows.get(&row).unwrap();
                        let ent = *c.ent_of_row.get(&row).unwrap();
                        text = format!("mutate {{ P: {} {{ id:$id name:$name salt:$salt }} }}", ENTITIES[ent]);
                        let name = ps.iter().find(|(k, _)| k == "name").map(|x| x.1.clone()).unwrap_or_default();
                        let salt = ps.iter().find(|(k, _)| k == "salt").map(|x| x.1.clone()).unwrap_or_default();
                        ps = vec![
                            ("id".to_string(), discret::verif_hooks::security::uid_encode(&id)),
                            ("name".to_string(), name),
                            ("salt".to_string(), salt),
                        ];
                        retry_kind = "upd";
                    }
                    continue;
                }
                if violated {
                    return Err("cannot-order-signature".to_string());
                }
                self.stats.inc(&format!("res.{}.{}", kind, r));
                return Ok(r);
            }
        }
    }

    /// `unrefs`: one deletion query `delete { Person { $id0 parents[$to0] } Person { $id1 parents[$to1] } .. }`.
    /// Every re-signed source row and every deletion record is registered under the symbolic number of its entry.
    async fn unrefs_op(&mut self, kv: &HashMap<String, String>) -> Result<String, String> {
        let list = |k: &str| -> Option<Vec<u64>> {
            kv.get(k)?.split(',').map(|x| x.parse::<u64>().ok()).collect()
        };
        let p = getn(kv, "p").ok_or("bad-op")? as usize;
        let (rows, tos, sigs, dsigs) = (
            list("rows").ok_or("bad-op")?,
            list("tos").ok_or("bad-op")?,
            list("sigs").ok_or("bad-op")?,
            list("dsigs").ok_or("bad-op")?,
        );
        let n = rows.len();
        if n == 0 || n > 4 || tos.len() != n || sigs.len() != n || dsigs.len() != n {
            return Err("bad-op".into());
        }
        let (text, ps, ids) = {
            let c = self.case.as_ref().ok_or("bad-op")?;
            if p >= c.npeers || matches!(&c.open, Some((bp, _, _)) if *bp == p) {
                return Err("bad-op".into());
            }
            let mut text = String::from("delete {");
            let mut ps: Vec<(String, String)> = vec![];
            let mut ids = vec![];
            for i in 0..n {
                if rows[..i].contains(&rows[i]) || c.ent_of_row.get(&rows[i]) != Some(&0) {
                    return Err("bad-op".into());
                }
                let id = *c.rows.get(&rows[i]).ok_or("bad-op")?;
                let tid = *c.rows.get(&tos[i]).ok_or("bad-op")?;
                text.push_str(&format!(" Person {{ $id{} parents[$to{}] }}", i, i));
                ps.push((format!("id{}", i), discret::verif_hooks::security::uid_encode(&id)));
                ps.push((format!("to{}", i), discret::verif_hooks::security::uid_encode(&tid)));
                ids.push(id);
            }
            text.push_str(" }");
            (text, ps, ids)
        };
        self.auto_commit().await;
        self.stats.inc("op.unrefs");
        let psr: Vec<(&str, String)> = ps.iter().map(|(k, v)| (k.as_str(), v.clone())).collect();
        let rx = send_deletion(&self.peers[p], &text, params(&psr)).await;
        let res = rx.await.map_err(|e| e.to_string())?;
        let r = match res {
            Err(e) => format!("err:{}", err_class(&e)),
            Ok(q) => {
                let mut to_resign = vec![];
                {
                    let c = self.case.as_mut().unwrap();
                    for node in &q.updated_nodes {
                        let i = ids.iter().position(|x| *x == node.id).ok_or("unrefs: unknown source row")?;
                        let (row, s) = (rows[i], sigs[i]);
                        let vs = c.versions.entry(row).or_default();
                        let mut violated = false;
                        for (m, b, s2) in vs.iter() {
                            if *m == node.mdate && *s2 != s && ((node._signature > *b) != (s > *s2)) {
                                violated = true;
                            }
                        }
                        if violated {
                            to_resign.push((row, s, node.id));
                        } else {
                            c.sigs.insert(node._signature.clone(), s);
                            vs.push((node.mdate, node._signature.clone(), s));
                        }
                    }
                    for l in &q.edge_log {
                        let i = ids.iter().position(|x| *x == l.src).ok_or("unrefs: unknown source row")?;
                        c.sigs.entry(l.signature.clone()).or_insert(dsigs[i]);
                    }
                }
                for (row, s, id) in to_resign {
                    // same date, same value, other salt, until the signatures compare like the op file's numbers
                    let mut kv2 = HashMap::new();
                    kv2.insert("row".to_string(), row.to_string());
                    kv2.insert("sig".to_string(), s.to_string());
                    let mut ok = false;
                    for _ in 0..1000 {
                        self.stats.inc("sig_order_retries");
                        let c = self.case.as_mut().unwrap();
                        c.salt += 1;
                        let psr = vec![
                            ("id", discret::verif_hooks::security::uid_encode(&id)),
                            ("salt", format!("s{}", c.salt)),
                        ];
                        let rx = send_mutation(&self.peers[p], "mutate { P: Person { id:$id salt:$salt } }", params(&psr)).await;
                        let res = rx.await.map_err(|e| e.to_string())?;
                        let (_, v) = self.register_mutation("upd", &kv2, res, false);
                        if !v {
                            ok = true;
                            break;
                        }
                    }
                    if !ok {
                        return Err("cannot-order-signature".to_string());
                    }
                }
                if !q.edge_log.is_empty() { "ok" } else if !q.updated_nodes.is_empty() { "ok:noref" } else { "ok:nothing" }.to_string()
            }
        };
        self.stats.inc(&format!("res.unrefs.{}", r));
        Ok(r)
    }

    async fn auto_commit(&mut self) -> Option<String> {
        let c = self.case.as_mut()?;
        let (p, b, pend) = c.open.take()?;
        close_batch(&self.peers[p], b).await;
        let mut rs = vec![];
        for mut pe in pend {
            if let Some(rx) = pe.mutation.take() {
                match rx.await {
                    Ok(res) => rs.push(self.register_mutation(&pe.op, &pe.kv, res, false).0),
                    Err(_) => rs.push("err:lost".to_string()),
                }
            } else if let Some(rx) = pe.deletion.take() {
                match rx.await {
                    Ok(res) => rs.push(self.register_deletion(&pe.kv, res).0),
                    Err(_) => rs.push("err:lost".to_string()),
                }
            } else if pe.computed {
                rs.push("computed".to_string());
            }
        }
        self.peers[p].write_barrier().await;
        self.stats.inc("batches");
        self.stats.add("batched_ops", rs.len() as u64);
        Some(join(&rs, ","))
    }

    async fn exec(&mut self, kind: &str, kv: &HashMap<String, String>) -> Result<String, String> {
        match kind {
            "clock" => {
                let t = getn(kv, "t").ok_or("bad-op")? as i64;
                self.case.as_ref().ok_or("bad-op")?;
                set_clock(t);
                Ok("ok".into())
            }
            "dates" => {
                // the real date_utils::date / date_next_day on one date (negative and unrepresentable ones included)
                let t: i64 = kv.get("t").and_then(|v| v.parse().ok()).ok_or("bad-op")?;
                self.case.as_ref().ok_or("bad-op")?;
                let d = discret::verif_hooks::date_utils::date(t);
                let n = discret::verif_hooks::date_utils::date_next_day(t);
                let inrange = d <= t && t < n && n == d + 86400000;
                Ok(format!("date={} next={} inrange={}", d, n, inrange))
            }
            "new" | "upd" | "ref" | "unref" | "del" => self.write_op(kind, kv).await,
            "unrefs" => self.unrefs_op(kv).await,
            "begin" => {
                let p = getn(kv, "p").ok_or("bad-op")? as usize;
                if p >= self.case.as_ref().ok_or("bad-op")?.npeers {
                    return Err("bad-op".into());
                }
                self.auto_commit().await;
                let b = open_batch(&self.peers[p]).await;
                self.case.as_mut().unwrap().open = Some((p, b, vec![]));
                Ok("ok".into())
            }
            "commit" => {
                let p = getn(kv, "p").ok_or("bad-op")? as usize;
                match &self.case.as_ref().ok_or("bad-op")?.open {
                    Some((bp, _, _)) if *bp == p => {
                        let r = self.auto_commit().await.unwrap_or_default();
                        Ok(format!("ok res={}", r))
                    }
                    _ => Ok("ok:nobatch".into()),
                }
            }
            "compute" => {
                let p = getn(kv, "p").ok_or("bad-op")? as usize;
                if p >= self.case.as_ref().ok_or("bad-op")?.npeers {
                    return Err("bad-op".into());
                }
                let in_batch = matches!(&self.case.as_ref().unwrap().open, Some((bp, _, _)) if *bp == p);
                self.stats.inc("op.compute");
                if in_batch {
                    self.peers[p].pipeline_sync().await;
                    self.peers[p].svc.compute_daily_log().await;
                    self.peers[p].pipeline_sync().await;
                    let c = self.case.as_mut().unwrap();
                    c.open.as_mut().unwrap().2.push(Pending {
                        op: "compute".into(),
                        kv: kv.clone(),
                        mutation: None,
                        deletion: None,
                        computed: true,
                    });
                    return Ok("queued".into());
                }
                self.auto_commit().await;
                compute(&self.peers[p]).await;
                Ok("ok".into())
            }
            "pull" => {
                let c = self.case.as_ref().ok_or("bad-op")?;
                let (dst, src, room) = (
                    getn(kv, "dst").ok_or("bad-op")? as usize,
                    getn(kv, "src").ok_or("bad-op")? as usize,
                    getn(kv, "room").ok_or("bad-op")? as usize,
                );
                if dst >= c.npeers || src >= c.npeers || dst == src || !(1..=2).contains(&room) {
                    return Err("bad-op".into());
                }
                let room_id = c.rooms[room - 1];
                self.auto_commit().await;
                self.stats.inc("op.pull");
                let r = pull(&self.peers[dst], &self.peers[src], room_id, getn(kv, "cut")).await;
                if r.requested > 0 {
                    self.stats.inc("pulls_fetching");
                    self.stats.add("rows_requested", r.requested);
                }
                match r.result {
                    Ok(_) => Ok(format!("ok f={}", r.requested)),
                    Err(_) => Ok(format!("err:pull f={}", r.requested)),
                }
            }
            "settle" => {
                let c = self.case.as_ref().ok_or("bad-op")?;
                let room = getn(kv, "room").ok_or("bad-op")? as usize;
                let max = getn(kv, "max").ok_or("bad-op")?;
                if room > 2 {
                    return Err("bad-op".into());
                }
                // room=0: both rooms
                let room_ids: Vec<Uid> = if room == 0 { c.rooms.clone() } else { vec![c.rooms[room - 1]] };
                let n = c.npeers;
                self.auto_commit().await;
                self.stats.inc("op.settle");
                // every peer recomputes its log first, as the API does after every acknowledged write
                for p in 0..n {
                    compute(&self.peers[p]).await;
                }
                let mut rounds = 0;
                let mut last_f = 0;
                let mut quiet = false;
                while rounds < max {
                    let before = self.fingerprint().await;
                    let mut f = 0;
                    for room_id in &room_ids {
                        for dst in 0..n {
                            for src in 0..n {
                                if dst != src {
                                    let r = pull(&self.peers[dst], &self.peers[src], *room_id, None).await;
                                    f += r.requested;
                                }
                            }
                        }
                    }
                    rounds += 1;
                    last_f = f;
                    let after = self.fingerprint().await;
                    if before == after {
                        quiet = true;
                        break;
                    }
                }
                if quiet {
                    self.stats.inc("settled");
                }
                Ok(format!("ok rounds={} quiet={} f={}", rounds, if quiet { 1 } else { 0 }, last_f))
            }
            _ => Err("bad-op".into()),
        }
    }
}

async fn run(ops: &str, out: &str, stats_path: Option<&str>, work: &str) {
    let f = std::fs::File::open(ops).expect("ops file");
    let mut w = BufWriter::new(std::fs::File::create(out).expect("out file"));
    let work_dir = PathBuf::from(work).join(format!("dvsync_{}", std::process::id()));
    let _ = std::fs::remove_dir_all(&work_dir);
    let mut world = World {
        peers: vec![],
        work: work_dir.clone(),
        generation: 0,
        case: None,
        stats: Stats::default(),
    };
    // the instances are reused from case to case (new rooms each time); their tables grow and every recomputation
    // scans the whole daily log, so they are replaced by fresh ones every RECYCLE cases
    const RECYCLE: usize = 120;
    let mut cases_on_instances = 0usize;
    for line in std::io::BufReader::new(f).lines() {
        let line = line.unwrap();
        let (kind, kv) = parse_kv(&line);
        let res: String = if kind == "case" {
            if cases_on_instances >= RECYCLE {
                if world.case.is_some() {
                    world.auto_commit().await;
                }
                world.peers.clear();
                world.generation += 1;
                world.case = None;
                cases_on_instances = 0;
                world.stats.add("instances_recycled", 1);
            }
            cases_on_instances += 1;
            let t0 = std::time::Instant::now();
            let r = world.start_case(&kv).await;
            world.stats.add("ms.case", t0.elapsed().as_millis() as u64);
            match r {
                Ok(s) => s,
                Err(e) if e == "bad-op" => "bad-op".to_string(),
                Err(e) => {
                    // an instance is unusable: start again with fresh ones
                    eprintln!("case setup failed: {}", e);
                    world.peers.clear();
                    world.generation += 1;
                    world.case = None;
                    match world.start_case(&kv).await {
                        Ok(s) => s,
                        Err(e) => format!("setup-failed {}", e.replace(|c: char| c.is_whitespace(), "_")),
                    }
                }
            }
        } else if world.case.is_none() {
            "bad-op".to_string()
        } else {
            let t0 = std::time::Instant::now();
            let r = world.exec(&kind, &kv).await;
            world.stats.add(&format!("ms.{}", kind), t0.elapsed().as_millis() as u64);
            let t1 = std::time::Instant::now();
            let d = world.dump().await;
            world.stats.add("ms.dump", t1.elapsed().as_millis() as u64);
            match r.map(|s| format!("{} | {}", s, d.clone())) {
                Ok(s) => s,
                Err(e) if e == "bad-op" => "bad-op".to_string(),
                Err(e) => format!("fail:{} | {}", e.replace(|c: char| c.is_whitespace(), "_"), d),
            }
        };
        writeln!(w, "{}", res).unwrap();
    }
    if world.case.is_some() {
        world.auto_commit().await;
    }
    w.flush().unwrap();
    if let Some(p) = stats_path {
        world.stats.write(p);
    }
    let _ = std::fs::remove_dir_all(&work_dir);
}

fn main() {
    let a = Args::parse();
    match a.cmd.as_str() {
        "gen" => gen::generate(&a),
        "sqlprobe" => probe::probe(),
        "run" => {
            // the run is latency bound (six thread hops per write): ask for a better scheduling priority
            // (ignored when not permitted)
            unsafe {
                libc::setpriority(libc::PRIO_PROCESS, 0, -10);
            }
            let rt = tokio::runtime::Builder::new_multi_thread()
                .worker_threads(2)
                .enable_all()
                .build()
                .unwrap();
            let work = a.str_or("work", &std::env::var("VERIF_OUT").map(|o| format!("{}/work", o)).unwrap_or("/verif/work".to_string()));
            rt.block_on(run(
                &a.str_or("ops", "cases.ops"),
                &a.str_or("out", "impl.out"),
                a.get("stats"),
                &work,
            ));
            // instances own threads that never end
            std::process::exit(0);
        }
        _ => {
            eprintln!("usage: dv-sync gen|run …");
            std::process::exit(2);
        }
    }
}

#[allow(dead_code)]
fn unused(_: BTreeMap<u8, u8>) {}
