//! The world of one op file: 2-4 real `GraphDatabaseService` instances wired back to back.
//! Every directed pull runs the real `LocalPeerService::synchronise_room` on the puller; its
//! `QueryService` talks over in-memory channels to the real `InboundQueryService::process_inbound`
//! of the serving instance. Nothing of discret is re-implemented here.
use discret::verif_hooks::clock;
use discret::verif_hooks::configuration::Configuration;
use discret::verif_hooks::database::graph_database::{DbMessage, GraphDatabaseService};
use discret::verif_hooks::database::mutation_query::MutationQuery;
use discret::verif_hooks::database::query_language::parameter::{Parameters, ParametersAdd};
use discret::verif_hooks::database::sqlite_database::{WriteMessage, Writeable};
use discret::verif_hooks::discret::DiscretServices;
use discret::verif_hooks::event_service::EventService;
use discret::verif_hooks::peer_connection_service::{PeerConnectionMessage, PeerConnectionService};
use discret::verif_hooks::security::{base64_encode, HardwareFingerprint, Uid};
use discret::verif_hooks::signature_verification_service::SignatureVerificationService;
use discret::verif_hooks::synchronisation::peer_inbound_service::{LocalPeerService, QueryService};
use discret::verif_hooks::synchronisation::peer_outbound_service::{
    InboundQueryService, RemotePeerHandle,
};
use discret::verif_hooks::synchronisation::{Answer, Query, QueryProtocol};
use std::collections::{HashMap, HashSet};
use std::path::PathBuf;
use std::sync::atomic::{AtomicBool, AtomicU64, Ordering};
use std::sync::Arc;
use tokio::sync::{mpsc, oneshot, Mutex};

pub const BASE: i64 = 1_704_067_200_000; // 2024-01-01T00:00:00Z, a day boundary
pub const DAY: i64 = 86_400_000;
pub const DATA_MODEL: &str =
    "{ Person { name: String, salt: String, parents:[Person] nullable } Pet { name: String, salt: String } }";
pub const ENTITIES: [&str; 2] = ["Person", "Pet"];

pub struct Peer {
    pub svc: GraphDatabaseService,
    pub key: Vec<u8>,
    pub key64: String,
    pub services: DiscretServices,
}

pub fn config() -> Configuration {
    let mut c = Configuration::default();
    c.parallelism = 1; // one reader thread: the read pipeline is FIFO
    c
}

impl Peer {
    pub async fn start(folder: PathBuf, secret: [u8; 32]) -> Result<Peer, String> {
        std::fs::create_dir_all(&folder).map_err(|e| e.to_string())?;
        let events = EventService::new();
        let (svc, key, _private_room) = GraphDatabaseService::start(
            "dv sync",
            DATA_MODEL,
            &secret,
            &[7u8; 32],
            folder,
            &config(),
            events.clone(),
        )
        .await
        .map_err(|e| e.to_string())?;
        let services = DiscretServices {
            events,
            database: svc.clone(),
            signature_verification: SignatureVerificationService::start(1),
        };
        Ok(Peer {
            key64: base64_encode(&key),
            key,
            svc,
            services,
        })
    }

    /// every message sent to the instance before this call has reached the writer's queue
    pub async fn pipeline_sync(&self) {
        // database task (FIFO)
        let _ = self.svc.datamodel().await;
        // reader thread (single, FIFO)
        let (tx, rx) = oneshot::channel::<()>();
        let _ = self
            .svc
            .db
            .reader
            .send_async(Box::new(move |_conn| {
                let _ = tx.send(());
            }))
            .await;
        let _ = rx.await;
        // authorisation task (FIFO)
        let _ = self.svc.sign(vec![0u8; 4]).await;
        // let the writer's buffering task drain its small channel
        for _ in 0..8 {
            tokio::task::yield_now().await;
        }
    }

    /// everything handed to the writer before this call is committed
    pub async fn write_barrier(&self) {
        self.pipeline_sync().await;
        let _ = self.svc.db.writer.write(Box::new(Noop {})).await;
    }
}

pub struct Noop {}
impl Writeable for Noop {
    fn write(&mut self, _conn: &rusqlite::Connection) -> Result<(), rusqlite::Error> {
        Ok(())
    }
}

/// holds the writer thread inside a batch until released: everything sent meanwhile forms ONE batch
pub struct Gate {
    pub rx: std::sync::mpsc::Receiver<()>,
}
impl Writeable for Gate {
    fn write(&mut self, _conn: &rusqlite::Connection) -> Result<(), rusqlite::Error> {
        let _ = self.rx.recv();
        Ok(())
    }
}

pub struct OpenBatch {
    pub release: std::sync::mpsc::Sender<()>,
    pub gate_reply: oneshot::Receiver<
        Result<discret::verif_hooks::database::sqlite_database::WriteStmt, discret::verif_hooks::database::Error>,
    >,
}

pub async fn open_batch(peer: &Peer) -> OpenBatch {
    peer.write_barrier().await;
    let (release, rx) = std::sync::mpsc::channel::<()>();
    let (reply, gate_reply) = oneshot::channel();
    let _ = peer
        .svc
        .db
        .writer
        .send(WriteMessage::Write(Box::new(Gate { rx }), reply))
        .await;
    // the gate must be inside the writer thread before anything else is queued
    for _ in 0..8 {
        tokio::task::yield_now().await;
    }
    tokio::time::sleep(std::time::Duration::from_millis(2)).await;
    OpenBatch {
        release,
        gate_reply,
    }
}

pub async fn close_batch(peer: &Peer, b: OpenBatch) {
    peer.pipeline_sync().await;
    tokio::time::sleep(std::time::Duration::from_millis(1)).await;
    let _ = b.release.send(());
    let _ = b.gate_reply.await;
}

pub fn params(kv: &[(&str, String)]) -> Parameters {
    let mut p = Parameters::default();
    for (k, v) in kv {
        p.add(k, v.clone()).unwrap();
    }
    p
}

/// sends a mutation WITHOUT the automatic `ComputeDailyLog` of `mutate_raw`
pub async fn send_mutation(
    peer: &Peer,
    text: &str,
    p: Parameters,
) -> oneshot::Receiver<Result<MutationQuery, discret::verif_hooks::database::Error>> {
    let (reply, receive) = oneshot::channel();
    let _ = peer
        .svc
        .sender
        .send(DbMessage::Mutate(text.to_string(), p, reply))
        .await;
    receive
}

pub async fn send_deletion(
    peer: &Peer,
    text: &str,
    p: Parameters,
) -> oneshot::Receiver<
    Result<discret::verif_hooks::database::deletion::DeletionQuery, discret::verif_hooks::database::Error>,
> {
    let (reply, receive) = oneshot::channel();
    let _ = peer
        .svc
        .sender
        .send(DbMessage::Delete(text.to_string(), p, reply))
        .await;
    receive
}

/// `ComputeDailyLog` requested and run
pub async fn compute(peer: &Peer) {
    peer.pipeline_sync().await;
    peer.svc.compute_daily_log().await;
    peer.write_barrier().await;
}

pub struct PullResult {
    pub result: Result<(), String>,
    pub requested: u64,
    pub queries: u64,
}

/// dst <- src of one room, through the real code on both sides
pub async fn pull(dst: &Peer, src: &Peer, room: Uid, cut: Option<u64>) -> PullResult {
    let (q_tx, mut q_rx) = mpsc::channel::<QueryProtocol>(16);
    let (a_tx, a_rx) = mpsc::channel::<Answer>(16);
    let qs = QueryService::start(q_tx, a_rx);
    let mut allowed = HashSet::new();
    allowed.insert(room);
    let mut handle = RemotePeerHandle {
        allowed_room: allowed,
        db: src.svc.clone(),
        verifying_key: src.key.clone(),
        reply: a_tx,
    };
    let remote_key = Arc::new(Mutex::new(dst.key.clone()));
    let ready = Arc::new(AtomicBool::new(true));
    let fp = HardwareFingerprint {
        id: [0u8; 16],
        name: "dv".to_string(),
    };
    let requested = Arc::new(AtomicU64::new(0));
    let queries = Arc::new(AtomicU64::new(0));
    let (req2, q2) = (requested.clone(), queries.clone());
    let server = tokio::spawn(async move {
        while let Some(msg) = q_rx.recv().await {
            let n = q2.fetch_add(1, Ordering::SeqCst);
            if let Some(c) = cut {
                if n >= c {
                    break; // connection lost: the receiver and the answer sender are dropped
                }
            }
            if let Query::Nodes(_, ids) = &msg.query {
                req2.fetch_add(ids.len() as u64, Ordering::SeqCst);
            }
            let _ = InboundQueryService::process_inbound(msg, &mut handle, &remote_key, &ready, &fp)
                .await;
        }
    });
    let (ps_tx, ps_rx) = mpsc::channel::<PeerConnectionMessage>(4);
    drop(ps_rx);
    let res = LocalPeerService::verif_synchronise_room(
        room,
        &qs,
        PeerConnectionService { sender: ps_tx },
        &dst.services,
    )
    .await;
    drop(qs);
    server.abort();
    let _ = server.await;
    // the pull requests a recomputation when it touched something: let it run
    dst.write_barrier().await;
    PullResult {
        result: res.map_err(|e| e.to_string()),
        requested: requested.load(Ordering::SeqCst),
        queries: queries.load(Ordering::SeqCst),
    }
}

pub fn set_clock(t: i64) {
    clock::set(BASE + t);
}

/// raw content of the five tables, restricted to the given rooms
#[derive(Default, Clone, Debug)]
pub struct Raw {
    pub nodes: Vec<RawNode>,
    pub edges: Vec<RawEdge>,
    pub ntombs: Vec<RawNTomb>,
    pub etombs: Vec<RawETomb>,
    pub log: Vec<RawLog>,
}
#[derive(Clone, Debug)]
pub struct RawNode {
    pub id: Uid,
    pub room: Uid,
    pub cdate: i64,
    pub mdate: i64,
    pub entity: String,
    pub json: Option<String>,
    pub key: Vec<u8>,
    pub sig: Vec<u8>,
}
#[derive(Clone, Debug)]
pub struct RawEdge {
    pub src: Uid,
    pub src_entity: String,
    pub label: String,
    pub dest: Uid,
    pub cdate: i64,
    pub key: Vec<u8>,
}
#[derive(Clone, Debug)]
pub struct RawNTomb {
    pub room: Uid,
    pub id: Uid,
    pub mdate: i64,
    pub entity: String,
    pub ddate: i64,
    pub key: Vec<u8>,
    pub sig: Vec<u8>,
}
#[derive(Clone, Debug)]
pub struct RawETomb {
    pub room: Uid,
    pub src: Uid,
    pub src_entity: String,
    pub dest: Uid,
    pub label: String,
    pub cdate: i64,
    pub ddate: i64,
    pub key: Vec<u8>,
    pub sig: Vec<u8>,
}
#[derive(Clone, Debug)]
pub struct RawLog {
    pub room: Uid,
    pub entity: String,
    pub date: i64,
    pub n: i64,
    pub daily: Option<Vec<u8>>,
    pub history: Option<Vec<u8>>,
    pub dirty: bool,
}

fn read_raw(conn: &rusqlite::Connection, rooms: &[Uid]) -> Result<Raw, rusqlite::Error> {
    let mut raw = Raw::default();
    for room in rooms {
        let mut st = conn.prepare_cached(
            "SELECT id, cdate, mdate, _entity, _json, verifying_key, _signature FROM _node WHERE room_id = ?",
        )?;
        let mut rows = st.query([room])?;
        while let Some(r) = rows.next()? {
            raw.nodes.push(RawNode {
                id: r.get(0)?,
                room: *room,
                cdate: r.get(1)?,
                mdate: r.get(2)?,
                entity: r.get(3)?,
                json: r.get(4)?,
                key: r.get(5)?,
                sig: r.get(6)?,
            });
        }
        let mut st = conn.prepare_cached(
            "SELECT room_id, id, mdate, entity, deletion_date, verifying_key, signature FROM _node_deletion_log WHERE room_id = ?",
        )?;
        let mut rows = st.query([room])?;
        while let Some(r) = rows.next()? {
            raw.ntombs.push(RawNTomb {
                room: r.get(0)?,
                id: r.get(1)?,
                mdate: r.get(2)?,
                entity: r.get(3)?,
                ddate: r.get(4)?,
                key: r.get(5)?,
                sig: r.get(6)?,
            });
        }
        let mut st = conn.prepare_cached(
            "SELECT room_id, src, src_entity, dest, label, cdate, deletion_date, verifying_key, signature FROM _edge_deletion_log WHERE room_id = ?",
        )?;
        let mut rows = st.query([room])?;
        while let Some(r) = rows.next()? {
            raw.etombs.push(RawETomb {
                room: r.get(0)?,
                src: r.get(1)?,
                src_entity: r.get(2)?,
                dest: r.get(3)?,
                label: r.get(4)?,
                cdate: r.get(5)?,
                ddate: r.get(6)?,
                key: r.get(7)?,
                sig: r.get(8)?,
            });
        }
        let mut st = conn.prepare_cached(
            "SELECT room_id, entity, date, entry_number, daily_hash, history_hash, need_recompute FROM _daily_log WHERE room_id = ?",
        )?;
        let mut rows = st.query([room])?;
        while let Some(r) = rows.next()? {
            let d: Option<i64> = r.get(6)?;
            raw.log.push(RawLog {
                room: r.get(0)?,
                entity: r.get(1)?,
                date: r.get(2)?,
                n: r.get(3)?,
                daily: r.get(4)?,
                history: r.get(5)?,
                dirty: d.unwrap_or(0) != 0,
            });
        }
    }
    if std::env::var("DV_DEBUG").is_ok() {
        let mut st = conn.prepare("SELECT hex(room_id), entity, date, entry_number, hex(daily_hash), hex(history_hash), need_recompute FROM _daily_log ORDER BY room_id, entity, date")?;
        let mut rows = st.query([])?;
        while let Some(r) = rows.next()? {
            let a: String = r.get(0)?; let b: String = r.get(1)?; let c: i64 = r.get(2)?; let d: i64 = r.get(3)?;
            let e: Option<String> = r.get(4)?; let f: Option<String> = r.get(5)?; let g: Option<i64> = r.get(6)?;
            eprintln!("LOG {} {} {} {} {:?} {:?} {:?}", &a[..8], b, c - BASE, d, e.map(|x| x[..8.min(x.len())].to_string()), f.map(|x| x[..8.min(x.len())].to_string()), g);
        }
        let mut st = conn.prepare("SELECT daily_hash, history_hash, date FROM _daily_log ORDER BY room_id, entity, date")?;
        let mut rows = st.query([])?;
        let mut prev: Option<(Vec<u8>, Vec<u8>)> = None;
        while let Some(r) = rows.next()? {
            let d: Option<Vec<u8>> = r.get(0)?; let h: Option<Vec<u8>> = r.get(1)?; let dt: i64 = r.get(2)?;
            if let (Some(d), Some(h)) = (d, h) {
                let mut hs = blake3::Hasher::new(); hs.update(&d); hs.update(&d);
                let selfchain = hs.finalize().as_bytes().to_vec() == h;
                let mut hs = blake3::Hasher::new(); hs.update(&h); hs.update(&d);
                let selfchain2 = hs.finalize().as_bytes().to_vec();
                let prevchain = match &prev { Some((ph, pd)) => { let mut hs = blake3::Hasher::new(); hs.update(ph); hs.update(pd); hs.finalize().as_bytes().to_vec() == h } None => false };
                eprintln!("   date {} hist==daily {} hist==H(daily,daily) {} hist==H(prevhist,prevdaily) {} H(hist,daily)={:02x}{:02x}", dt - BASE, d == h, selfchain, prevchain, selfchain2[0], selfchain2[1]);
                prev = Some((h, d));
            }
        }
        eprintln!("--");
    }
    // references whose source row is in one of the rooms, or whose source row is gone (dangling)
    let mut st = conn.prepare_cached(
        "SELECT e.src, e.src_entity, e.label, e.dest, e.cdate, e.verifying_key, n.room_id
         FROM _edge e LEFT JOIN _node n ON n.id = e.src",
    )?;
    let mut rows = st.query([])?;
    while let Some(r) = rows.next()? {
        let room: Option<Uid> = r.get(6)?;
        let src_entity: String = r.get(1)?;
        if src_entity.contains('.') {
            continue; // system entities (room definitions)
        }
        let keep = match room {
            Some(rm) => rooms.contains(&rm),
            None => true,
        };
        if keep {
            raw.edges.push(RawEdge {
                src: r.get(0)?,
                src_entity,
                label: r.get(2)?,
                dest: r.get(3)?,
                cdate: r.get(4)?,
                key: r.get(5)?,
            });
        }
    }
    Ok(raw)
}

pub async fn dump_raw(peer: &Peer, rooms: Vec<Uid>) -> Raw {
    let (tx, rx) = oneshot::channel::<Raw>();
    let _ = peer
        .svc
        .db
        .reader
        .send_async(Box::new(move |conn| {
            let raw = read_raw(conn, &rooms).unwrap_or_default();
            let _ = tx.send(raw);
        }))
        .await;
    rx.await.unwrap_or_default()
}

/// from-scratch recomputation of the daily log of one room from `_node` and the deletion logs
/// (the spec of property C09), with the real hash function.
/// returns (room, entity, day) -> (count, daily, history) for every day that has content
pub fn from_scratch(raw: &Raw) -> HashMap<(Uid, String, i64), (i64, Vec<u8>, Vec<u8>)> {
    let mut sigs: HashMap<(Uid, String, i64), Vec<Vec<u8>>> = HashMap::new();
    let day = |t: i64| t - t.rem_euclid(DAY);
    for n in &raw.nodes {
        sigs.entry((n.room, n.entity.clone(), day(n.mdate)))
            .or_default()
            .push(n.sig.clone());
    }
    for t in &raw.ntombs {
        sigs.entry((t.room, t.entity.clone(), day(t.ddate)))
            .or_default()
            .push(t.sig.clone());
    }
    for t in &raw.etombs {
        sigs.entry((t.room, t.src_entity.clone(), day(t.ddate)))
            .or_default()
            .push(t.sig.clone());
    }
    let mut groups: HashMap<(Uid, String), Vec<i64>> = HashMap::new();
    for k in sigs.keys() {
        groups.entry((k.0, k.1.clone())).or_default().push(k.2);
    }
    let mut res = HashMap::new();
    for ((room, ent), mut days) in groups {
        days.sort();
        let mut prev: Option<(Vec<u8>, Vec<u8>)> = None; // (history, daily) of the previous day
        for d in days {
            let mut s = sigs.remove(&(room, ent.clone(), d)).unwrap();
            s.sort();
            let mut h = blake3::Hasher::new();
            for x in &s {
                h.update(x);
            }
            let daily = h.finalize().as_bytes().to_vec();
            let history = match &prev {
                None => daily.clone(),
                Some((ph, pd)) => {
                    let mut h = blake3::Hasher::new();
                    h.update(ph);
                    h.update(pd);
                    h.finalize().as_bytes().to_vec()
                }
            };
            prev = Some((history.clone(), daily.clone()));
            res.insert((room, ent.clone(), d), (s.len() as i64, daily, history));
        }
    }
    res
}
