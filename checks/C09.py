"""C09 — the daily log is a function of the stored content, nothing else."""
import json, os
from . import lib, engine
from .engine import Cfg
from . import synclib


class C09(Cfg):
    prop = "C09"
    prop_module = "DiscretModel.Props.C09"
    lean_targets = ["dmodel_sync"]
    harness_pkg = "dv-sync"
    model_exe = "dmodel_sync"
    design_ref = "DESIGN.md §6 C09, App. A.5, A.6, A.7"
    technique = ("Lean 4 invariant proof over a literal model of the marks and of DailyLogsUpdate::compute (the row-by-row evaluation of its "
                 "SELECT under the loop's own updates, fixed by 079e672, stays in the model behind a switch) + correspondence run of the compiled model against 1-2 real "
                 "GraphDatabaseService instances (logical clock, writer batches forced with a gate statement, real pulls) + an "
                 "independent from-scratch recomputation of every log row by the harness with the real hash function")
    level_text = ("Theorems (Lean 4; any number of rooms, entities, days, writes, batches and recomputation points): for the intended behaviour "
                  "(Defects.none: every touched day marked, seed row loaded, entity compared, emptied days dropped, window fixed before the loop) "
                  "an invariant over (content, log, pending marks) is preserved by every write whose marks cover the days it touches, by the end-of-batch "
                  "mark write and by a recomputation at ANY point, and after a recomputation with nothing pending the log is exactly the specification "
                  "(count, daily hash of the sorted signatures, history(d1)=daily(d1), history(dk+1)=H(history(dk)++daily(dk))) of the stored content; "
                  "hence equal content => equal logs whatever the batching, and (hash = identity on what is fed) different per-day signature sets => different logs. "
                  "Every concrete write of the model (local create/update/move/reference/deletion, synchronised rows, synchronised deletion records) covers its days under Defects.none. "
                  "For the code as it is the statement is FALSE: decide-checked witnesses for the dropped history seed, the entity not compared and the emptied day keeping a row "
                  "(all #20, history hashes only); proved for the code as it is: every MARKED day gets the count and daily hash of its content, and every write of the model marks the days it touches. "
                  "Regression witnesses (fixed in /repo, switch off, corpus replay kept): the lazily evaluated SELECT (079e672), the old day of a synchronised cross-day update (8123d04), "
                  "the synchronised deletion of another version (1a9cbe6), the reference deletion that re-dates its source row without marking (9b21e0a) or without removing anything (456214b). "
                  "The model is tied to /repo by running both on the same generated multi-day histories and comparing every table of every peer after every op.")
    level_note = ("Trusted: Lean kernel (+propext, Classical.choice, Quot.sound), the hand-written models lean/DiscretModel/Model/{DailyLog,Sync}.lean and the harness. "
                  "Modelled and exercised: daily_log.rs (marks, compute), the marking sites of mutation_query.rs, deletion.rs, node.rs, edge.rs, the batch writer's end-of-batch mark write, "
                  "synchronise_room. Idealised: blake3 injective, signatures as opaque numbers. Exercised only: SQL text.")
    trusted_base = [
        "hand-written models lean/DiscretModel/Model/DailyLog.lean and Sync.lean, tied by the correspondence run (dv-sync vs dmodel_sync)",
        "harness/sync (real GraphDatabaseService instances, logical clock hook, writer batches forced by a blocking Writeable; the from-scratch recomputation uses SQL over _node and the deletion logs and the blake3 crate)",
        "blake3 modelled as an injective function of the bytes fed to it; Ed25519 signatures as distinct numbers for distinct signed contents",
    ]
    assumptions = [
        "rooms and rights do not change during a case; rows always carry a room",
        "a recomputation barrier = ComputeDailyLog processed in a batch that starts after every earlier batch committed (the API sends one after every acknowledged write)",
    ]

    def streams(self, tier, seed, work, dv):
        res = []
        plan = [("C09", 160, 22)] if tier == "quick" else [("C09", 4000, 26), ("C03", 300, 22)]
        for prop, n, ln in plan:
            path = os.path.join(work, "hist_%s.ops" % prop)
            lib.sh([dv, "gen", "--prop", prop, "--seed", str(seed), "--n", str(n), "--len", str(ln), "--out", path], check=True)
            res.append(("histories %s seed=%d n=%d" % (prop, seed, n), path, False))
        return res

    def nontrivial(self, ops, outs):
        return synclib.c09_nontrivial(ops, outs)

    def oracle(self, ops, outs):
        return synclib.c09_oracle(ops, outs)


CHECK = C09()
