"""C09 — the daily log is a function of the stored content, nothing else."""
import json, os
from . import lib, engine
from .engine import Cfg
from . import synclib


DAY = 86400000


def _base_history(rnd):
    """one peer, 4..8 writes over several days: few rows per day, so that days empty out. Returns the op lines
    (clock lines included) with None where a recomputation request may be inserted (after every write)."""
    ops, rows, t, nrow, sigs = [], {}, 1000, 0, list(range(2000001, 2000400))
    rnd.shuffle(sigs)
    nwrites = rnd.randint(4, 8)
    for _ in range(nwrites):
        step = rnd.choice([1, DAY, DAY, DAY + 7, 2 * DAY + 3]) if ops else 0
        if step:
            t += step
            ops.append("clock t=%d" % t)
        elif not ops:
            ops.append("clock t=%d" % t)
        live = sorted(rows)
        kind = rnd.choice(["new", "new", "upd", "upd", "del", "move"]) if live else "new"
        if kind == "new" or not live:
            nrow += 1
            ent = 1 if rnd.random() < 0.35 else 0
            room = 2 if rnd.random() < 0.15 else 1
            rows[nrow] = (room, ent)
            ops.append("new p=0 row=%d room=%d ent=%d val=%d sig=%d" % (nrow, room, ent, nrow, sigs.pop()))
        elif kind == "upd":
            r = rnd.choice(live)
            ops.append("upd p=0 row=%d val=%d sig=%d" % (r, 100 + len(ops), sigs.pop()))
        elif kind == "move":
            r = rnd.choice(live)
            room = 3 - rows[r][0]
            rows[r] = (room, rows[r][1])
            ops.append("upd p=0 row=%d val=%d sig=%d room=%d" % (r, 100 + len(ops), sigs.pop(), room))
        else:
            r = rnd.choice(live)
            del rows[r]
            ops.append("del p=0 row=%d dsig=%d" % (r, sigs.pop()))
        t += 1          # two writes never share a millisecond
        ops.append(None)
    return ops


def window_family(seed, nbases, path):
    """writes `path`; every base history under: no intermediate recomputation, one after every write, one after a
    single write (each position), and a few random placements; always one at the end. Deterministic in `seed`."""
    import random
    rnd = random.Random(1000003 * seed + 9)
    out, cid = [], 0
    for _ in range(nbases):
        base = _base_history(rnd)
        slots = [i for i, o in enumerate(base) if o is None]
        k = len(slots)
        placements = [set(), set(range(k))] + [{i} for i in range(k - 1)]
        for _ in range(3):
            placements.append({i for i in range(k) if rnd.random() < 0.5})
        seen = set()
        for pl in placements:
            key = frozenset(pl | {k - 1})
            if key in seen: continue
            seen.add(key)
            out.append("case id=%d peers=1 rights=a" % cid); cid += 1
            j = 0
            for o in base:
                if o is None:
                    if j in key: out.append("compute p=0")
                    j += 1
                else:
                    out.append(o)
    with open(path, "w") as f:
        f.write("\n".join(out) + "\n")
    return cid


CHRONO_MIN, CHRONO_MAX = -8334601228800000, 8210266876799999


def dates_family(seed, nrandom, path):
    """`dates t=…`: the real date_utils::date / date_next_day against Model/Date.lean on the boundaries of chrono's
    representable range, day boundaries around 0 and around today, i64 extremes, and random dates of every
    magnitude (negative ones included). One case, no write: the state part of every answer stays empty."""
    import random
    rnd = random.Random(104729 * seed + 11)
    ts = set()
    for b in (CHRONO_MIN, CHRONO_MAX, CHRONO_MAX - DAY, CHRONO_MAX - DAY + 1, CHRONO_MAX - 2 * DAY, 0, DAY, -DAY,
              1700000000000, 1700006400000, -(2 ** 63), 2 ** 63 - 1, 253402300800000, -62135596800000):
        for d in (-DAY - 1, -DAY, -2, -1, 0, 1, 2, DAY - 1, DAY, DAY + 1):
            if -(2 ** 63) <= b + d < 2 ** 63: ts.add(b + d)
    for _ in range(nrandom):
        mag = rnd.choice([10, 20, 30, 37, 40, 45, 50, 53, 54, 60, 63])
        t = rnd.randrange(-(2 ** mag), 2 ** mag)
        ts.add(t); ts.add(t - t % DAY); ts.add(t - t % DAY - 1)
    ts = sorted(ts)
    rnd.shuffle(ts)
    with open(path, "w") as f:
        f.write("case id=0 peers=1 rights=a\n" + "\n".join("dates t=%d" % t for t in ts) + "\n")
    return len(ts)


def unrefs_family(seed, ncases, path):
    """one deletion query with several reference-deletion entries (`unrefs`): source rows last modified on different
    days, some entries naming a reference that does not exist (never did, or was deleted before); every touched day
    must be marked — the day each re-dated row leaves as well as the day it arrives on."""
    import random
    rnd = random.Random(7919 * seed + 3)
    out = []
    for cid in range(ncases):
        sigs = list(range(2000001, 2000300)); rnd.shuffle(sigs)
        out.append("case id=%d peers=1 rights=a" % cid)
        t, nrows = 1000, rnd.randint(3, 5)
        out.append("clock t=%d" % t)
        for r in range(1, nrows + 1):
            if r > 1 and rnd.random() < 0.6:
                t += rnd.choice([DAY, 2 * DAY + 5]); out.append("clock t=%d" % t)
            else:
                t += 1; out.append("clock t=%d" % t)
            out.append("new p=0 row=%d room=1 ent=0 val=%d sig=%d" % (r, r, sigs.pop()))
        refs = set()
        for _ in range(rnd.randint(1, 4)):
            a, b = rnd.randint(1, nrows), rnd.randint(1, nrows)
            if a == b or (a, b) in refs: continue
            t += rnd.choice([1, DAY, DAY + 11]); out.append("clock t=%d" % t)
            out.append("ref p=0 row=%d to=%d sig=%d" % (a, b, sigs.pop())); refs.add((a, b))
        if refs and rnd.random() < 0.4:
            a, b = rnd.choice(sorted(refs))
            t += rnd.choice([1, DAY]); out.append("clock t=%d" % t)
            out.append("unref p=0 row=%d to=%d sig=%d dsig=%d" % (a, b, sigs.pop(), sigs.pop()))   # gone before the query
        if rnd.random() < 0.7: out.append("compute p=0")
        for _ in range(rnd.randint(1, 2)):
            t += rnd.choice([DAY, DAY + 3, 3 * DAY]); out.append("clock t=%d" % t)
            k = rnd.randint(2, min(4, nrows))
            srcs = rnd.sample(range(1, nrows + 1), k)
            present = [x for x in srcs if any(a == x for a, _ in refs)]
            # an absent entry first, a present one later, as often as the history allows
            if present and rnd.random() < 0.7:
                absent = [x for x in srcs if x not in present]
                srcs = absent + present if absent else srcs
            tos = []
            for x in srcs:
                cands = [b for a, b in sorted(refs) if a == x]
                if cands and rnd.random() < 0.75: tos.append(rnd.choice(cands))
                else: tos.append(rnd.choice([y for y in range(1, nrows + 1) if y != x]))
            out.append("unrefs p=0 rows=%s tos=%s sigs=%s dsigs=%s" % (
                ",".join(map(str, srcs)), ",".join(map(str, tos)),
                ",".join(str(sigs.pop()) for _ in srcs), ",".join(str(sigs.pop()) for _ in srcs)))
            if rnd.random() < 0.5: out.append("compute p=0")
        out.append("compute p=0")
    with open(path, "w") as f:
        f.write("\n".join(out) + "\n")
    return ncases


class C09(Cfg):
    prop = "C09"
    prop_module = "DiscretModel.Props.C09"
    lean_targets = ["dmodel_sync"]
    harness_pkg = "dv-sync"
    model_exe = "dmodel_sync"
    design_ref = "DESIGN.md §6 C09, App. A.5, A.6, A.7"
    technique = ("Lean 4 invariant proof over a literal model of the marks and of DailyLogsUpdate::compute (the row-by-row evaluation of its "
                 "SELECT under the loop's own updates, fixed by 079e672, and the loop before the three repairs of #20 stay in the model behind switches) + correspondence run of the compiled model against 1-2 real "
                 "GraphDatabaseService instances (logical clock, writer batches forced with a gate statement, real pulls) + an "
                 "independent from-scratch recomputation of every log row by the harness with the real hash function")
    level_text = ("Theorems (Lean 4; any number of rooms, entities, days, writes, batches and recomputation points), for the code as it is "
                  "(Defects.asImplemented, which since the three repairs of candidate #20 — seed row loaded, entity compared, emptied day dropped — has every switch of "
                  "DailyLogsUpdate::compute off) and for every Defects value with those switches off: "
                  "an invariant over (content, log, pending marks) is preserved by every write whose marks cover the days it touches, by the end-of-batch "
                  "mark write and by a recomputation at ANY point, and after a recomputation with nothing pending the log is exactly the specification "
                  "(one row per (room, entity, day) with content: count, daily hash of the sorted signatures, history(d1)=daily(d1), history(dk+1)=H(history(dk)++daily(dk)); no row for a day without content) "
                  "of the stored content (C09_log_of_content_asImplemented); "
                  "hence equal content => equal logs whatever the batching (C09_equal_content_equal_log_asImplemented), and (hash = identity on what is fed) different per-day signature multisets => different logs "
                  "(C09_equal_log_equal_content_asImplemented, C09_logOf_injective). "
                  "Every concrete write of the model of the code (local create/update/move/reference/deletion, one deletion query with several reference-deletion entries, synchronised rows, synchronised deletion records) covers its days (C09_model_marks_asImplemented, C09_model_unrefs). "
                  "The window of compute is modelled literally: the rows walked are those the SQL text selects (C09_window_is_sql_window). "
                  "Regression witnesses for the code before each repair (switch off now, corpus replay kept): the dropped history seed, the entity not compared, the emptied day keeping a row (all #20; Defects.beforeFixHistory), "
                  "the lazily evaluated SELECT (079e672), the old day of a synchronised cross-day update (8123d04), "
                  "the synchronised deletion of another version (1a9cbe6), the reference deletion that re-dates its source row without marking (9b21e0a) or without removing anything (456214b). "
                  "The day of a date: date_utils::date / date_next_day are modelled as written, chrono's representable range included (Model/Date.lean), and for every representable date the SQL day window [date t, date_next_day t) "
                  "selects exactly the dates of the same day number t / 86400000 — the `dayOf` of the models (C09_window_iff_same_day, C09_date_eq_iff_same_day, C09_windows_disjoint; C09_date_idem / C09_date_mono for every i64; "
                  "C09_breaks_lastDay: in the last representable day the window is empty, the boundary of the hypothesis). "
                  "The model is tied to /repo by running both on the same generated multi-day histories and comparing every table of every peer after every op, and by the `dates` stream (real date / date_next_day on range bounds, day bounds, i64 extremes, random magnitudes).")
    level_note = ("Trusted: Lean kernel (+propext, Classical.choice, Quot.sound), the hand-written models lean/DiscretModel/Model/{DailyLog,Sync}.lean and the harness. "
                  "Modelled and exercised: daily_log.rs (marks, compute), the marking sites of mutation_query.rs, deletion.rs, node.rs, edge.rs, the batch writer's end-of-batch mark write, "
                  "synchronise_room. Idealised: blake3 injective, signatures as opaque numbers. Exercised only: SQL text.")
    trusted_base = [
        "hand-written models lean/DiscretModel/Model/DailyLog.lean, Sync.lean and Date.lean, tied by the correspondence run (dv-sync vs dmodel_sync)",
        "harness/sync (real GraphDatabaseService instances, logical clock hook, writer batches forced by a blocking Writeable; the from-scratch recomputation uses SQL over _node and the deletion logs and the blake3 crate)",
        "blake3 modelled as an injective function of the bytes fed to it; Ed25519 signatures as distinct numbers for distinct signed contents",
    ]
    assumptions = [
        "rooms and rights do not change during a case; rows always carry a room",
        "a recomputation barrier = ComputeDailyLog processed in a batch that starts after every earlier batch committed (the API sends one after every acknowledged write)",
    ]

    def streams(self, tier, seed, work, dv):
        res = []
        # the window of compute (seed row, emptied days, several entities): every history is run under several
        # placements of the recomputation requests — same writes, same final content, different windows
        path = os.path.join(work, "window_splits.ops")
        n = window_family(seed, 10 if tier == "quick" else 150, path)
        res.append(("window splits seed=%d cases=%d" % (seed, n), path, False))
        path = os.path.join(work, "unrefs.ops")
        n = unrefs_family(seed, 40 if tier == "quick" else 600, path)
        res.append(("multi-entry reference deletions seed=%d cases=%d" % (seed, n), path, False))
        path = os.path.join(work, "dates.ops")
        n = dates_family(seed, 300 if tier == "quick" else 20000, path)
        res.append(("day arithmetic (date_utils) seed=%d dates=%d" % (seed, n), path, False))
        plan = [("C09", 160, 22)] if tier == "quick" else [("C09", 4000, 26), ("C03", 300, 22)]
        for prop, n, ln in plan:
            path = os.path.join(work, "hist_%s.ops" % prop)
            lib.sh([dv, "gen", "--prop", prop, "--seed", str(seed), "--n", str(n), "--len", str(ln), "--out", path], check=True)
            res.append(("histories %s seed=%d n=%d" % (prop, seed, n), path, False))
        return res

    def nontrivial(self, ops, outs):
        return synclib.c09_nontrivial(ops, outs)

    def oracle(self, ops, outs):
        return synclib.c09_oracle(ops, outs)


CHECK = C09()
