"""C11 — a deleted row stays deleted."""
import os
from . import lib
from .engine import Cfg
from . import synclib


class C11(Cfg):
    prop = "C11"
    prop_module = "DiscretModel.Props.C11"
    lean_targets = ["dmodel_sync"]
    harness_pkg = "dv-sync"
    model_exe = "dmodel_sync"
    design_ref = "DESIGN.md §6 C11, App. A.3, A.5, A.6"
    technique = ("Lean 4 invariant proofs over the executable model of local writes, writer batches and pulls: for the intended behaviour (Defects.none) and for "
                 "every model that consults the deletion log with every other switch as in the code — the code as it is since the repair of #18 — + decide-checked "
                 "traces for the code before that repair + correspondence run of the model against 3-4 real instances with deletions racing with pulls + "
                 "an independent oracle on every dump (a peer that stores the deletion record of a row or of a reference never shows that row / reference again) and after "
                 "quiescence (record everywhere, row — at any version — and reference nowhere); scenario families: reference deletion racing with an unaware edit of the "
                 "source row, deletion by a member that received the all-rows right at a later date, deletion reaching a peer that holds an older version, and the "
                 "deletion scenarios (record first then a pull from a peer that has not seen it, newer version first then the record, references of the deleted row, "
                 "deletion on the day of the last change and on later days)")
    level_text = ("Theorems (Lean 4; any number of peers, any op sequence of creations, updates, room moves, reference changes, deletions, writer batches, "
                  "recomputations, pulls in any order and rounds). (a) Intended behaviour (Defects.none: deletion log consulted, a record removes every version of its row in every room): "
                  "no replica ever stores a row whose id carries a deletion record on that replica (also not behind an open writer batch), deletion records are never forgotten "
                  "(C11_invariant, C11_deleted_stays_deleted). (b) EVERY model that consults the deletion log, all other switches free — in particular the code with #18 repaired "
                  "(findings/C11-ingest-consults-deletion-log-v2.patch), where deletion records are per room: whatever a peer pulls from whatever source it keeps every deletion record "
                  "and stores no row in a room in which it holds a deletion record of that row (C11_pull_keeps_deleted); invariant over any schedule whose LOCAL writes do not themselves "
                  "put a row into such a room (C11_invariant_repaired, C11_deleted_stays_deleted_repaired; the guard is automatic for every write without room move outside an open batch, "
                  "C11_safe_is_automatic); for histories in which rows keep the room they were created in — the histories of the property — the statement at the level of row ids: "
                  "no replica ever stores ANY version of a row whose id carries a deletion record on it, whatever it pulls from peers that have not seen the deletion "
                  "(C11_invariant_rooms, C11_deleted_stays_deleted_rooms; fresh ids only). (c) After synchronisation: when a pull leaves the puller unchanged, the puller holds every "
                  "deletion record the source holds for the room and no version of those rows (C11_quiescent_pull_complete), under hypotheses that each stand for one open finding: whole history "
                  "compared (room-summary-compares-first-entity-only), members holding every right (#19), no two records of one row on one day or batches not keyed by row id, logs = logs of content (C09); "
                  "for pulls that are joins, after quiescence the row is shown nowhere and every record is everywhere (C11_converged_absent). "
                  "Open after the repair: a row that changes room (records are per room): an older version held by a peer in another room is fetched next to the record of a later version (C11_breaks_syncDeletionRoomScoped, model trace). "
                  "The code as it is consults the deletion log (repair of #18, Node::filter_existing_in_room): Defects.asImplemented is such a model and (b), (c) are stated for it "
                  "(C11_pull_keeps_deleted_asImplemented, C11_invariant_asImplemented, C11_deleted_stays_deleted_asImplemented, C11_invariant_rooms_asImplemented, C11_deleted_stays_deleted_rooms_asImplemented). "
                  "Before the repair the statement was FALSE: the schedule delete@A, B<-A, B<-C, A<-B brought the row back on B and on A (C11_breaks_ingestIgnoresTombstones, regression replay corpus/C11/deleted-row-comes-back.ops: "
                  "reverting the repair makes the check report deleted-row-back-after-pull).")
    level_note = ("Trusted: Lean kernel (+propext, Classical.choice, Quot.sound), the hand-written model lean/DiscretModel/Model/Sync.lean and the harness. "
                  "Modelled and exercised: deletion.rs, validate_deletion, delete_nodes/validate_node_deletions/NodeDeletionEntry::delete_all, filter_existing, add_nodes, synchronise_day. "
                  "Defects.none is stronger than the statement (a record removes newer versions too, in every room). Reference deletions and dated rights (EntityRight::valid_from) are modelled and exercised; the proved invariants are about rows; "
                  "references of a deleted row stay stored (a synchronised deletion keeps them) but have no stored end: the oracle checks that none is shown.")
    trusted_base = [
        "hand-written model lean/DiscretModel/Model/Sync.lean, tied by the correspondence run (dv-sync vs dmodel_sync)",
        "harness/sync (see C03)",
    ]
    assumptions = [
        "created rows get fresh ids (the code draws 16-byte random uids)",
        "the room definition is fixed during a case (its rights may be dated: a member can hold the own-rows right first and the all-rows right from a later date on)",
    ]

    def streams(self, tier, seed, work, dv):
        res = []
        n, ln = (30, 16) if tier == "quick" else (600, 24)
        path = os.path.join(work, "hist_C11.ops")
        lib.sh([dv, "gen", "--prop", "C11", "--seed", str(seed), "--n", str(n), "--len", str(ln), "--out", path], check=True)
        res.append(("histories C11 seed=%d n=%d" % (seed, n), path, False))
        # the paths repaired for #18: a row and its deletion record meeting in either order (tombstone first then a pull
        # from a peer that has not seen it; newer version first then the record), references of the deleted row,
        # deletion on the day of the last change and on later days
        n = 12 if tier == "quick" else 300
        path = os.path.join(work, "del_C11.ops")
        lib.sh([dv, "gen", "--prop", "C11del", "--seed", str(seed), "--n", str(n), "--out", path], check=True)
        res.append(("deletion scenarios seed=%d n=%d" % (seed, n), path, False))
        if tier != "quick":
            path = os.path.join(work, "orders_C11.ops")
            lib.sh([dv, "gen", "--prop", "orders", "--seed", str(seed + 77), "--n", "3", "--len", "3", "--out", path], check=True)
            res.append(("all pull orders len=3 bases=3 seed=%d" % (seed + 77), path, True))
        return res

    def nontrivial(self, ops, outs):
        return synclib.c11_nontrivial(ops, outs)

    def oracle(self, ops, outs):
        return synclib.c11_oracle(ops, outs)


CHECK = C11()
