"""C15 — changing the data model never loses data; a refused change changes nothing."""
import os, re, sys
from . import lib, engine
from .engine import Cfg

sys.path.insert(0, os.path.join(lib.ROOT, "translators"))


# ----------------------------------------------------------------------------- shared with C14
def repo_under_test():
    """the source tree the harness is built against (a mutation run points the harness at a copy)"""
    try:
        txt = open(os.path.join(lib.HARNESS, "Cargo.toml")).read()
        m = re.search(r'discret\s*=\s*\{\s*path\s*=\s*"([^"]+)"', txt)
        if m: return m.group(1)
    except OSError:
        pass
    return lib.REPO


GEN_FILE = {"t6_consts": "Consts.lean", "t3_grammar": "Grammar.lean", "t5_frames": "FrameSites.lean"}


def run_translators(names):
    """regenerates lean/DiscretModel/Gen/*.lean from the source tree; returns a list of problems.
    A translator that cannot read its source replaces its Gen file by one that does not compile, so that
    the obligations depending on it are reported broken instead of being checked against a stale table."""
    problems = []
    repo = repo_under_test()
    for n in names:
        try:
            mod = __import__(n)
            mod.main(repo)
        except Exception as e:  # TranslateError or a crash of the translator
            problems.append("%s: %s" % (n, e))
            try:
                import common
                common.write_if_changed(GEN_FILE[n], "/-! translator %s FAILED on %s: %s -/\nexample : False := by decide\n" % (
                    n, repo, str(e).replace("-/", "- /")))
            except Exception:
                pass
    return problems


def with_hints(fn):
    """`dv-schema run` writes `<out>.hints` (the hash-map visit order it observed, one line per op);
    the model driver gets each op line with its hint appended. The model cannot predict Rust's
    RandomState, it takes the observed order as an input."""
    orig = lib.run_model

    def run_model(binary, ops_path, out_path, timeout=3000):
        impl = out_path[:-len(".model")] + ".impl" if out_path.endswith(".model") else None
        hints = impl + ".hints" if impl else None
        if hints and os.path.exists(hints):
            ops, hs = lib.read_lines(ops_path), lib.read_lines(hints)
            if len(hs) == len(ops):
                merged = out_path + ".ops"
                with open(merged, "w") as f:
                    for o, h in zip(ops, hs): f.write(o + (" " + h if h else "") + "\n")
                return orig(binary, merged, out_path, timeout)
        return orig(binary, ops_path, out_path, timeout)

    lib.run_model = run_model
    try:
        return fn()
    finally:
        lib.run_model = orig


def replay_with_hints(cfg, path):
    """./check replay <Cxx> <file> for the `schema` engine: the model needs the harness' hints"""
    ok, out, _, dv = lib.cargo_build(cfg.harness_pkg)
    if not ok:
        print(out); return 2
    work = os.path.join(lib.OUT, "work", cfg.prop + "_replay"); os.makedirs(work, exist_ok=True)
    ops = lib.read_lines(path)
    if path.endswith(".txt"):
        print("\n".join(ops[:6]))
        ops = ops[ops.index("ops:") + 1:] if "ops:" in ops else []
    if not ops: return 0
    lib.lean_build(list(cfg.lean_targets), cfg.prop_module)
    impl, mod = with_hints(lambda: engine._run_case_files(cfg, dv, lib.model_bin(cfg.model_exe), work, ops, "r"))
    for i, o in enumerate(ops):
        print("%s\n   impl:  %s\n   model: %s" % (o[:200], (impl[i] if i < len(impl) else "-")[:400], (mod[i] if mod and i < len(mod) else "-")[:400]))
    for cops, couts in lib.split_cases(ops, impl):
        for sig, d in cfg.oracle(cops, couts): print("ORACLE %s: %s" % (sig, d))
    for ci, v in engine._rust_oracle(os.path.join(work, "shrink_r.ops.impl")).items():
        for sig, d in v: print("ORACLE(case %d) %s: %s" % (ci, sig, d))
    return 0


# ----------------------------------------------------------------------------- parsing observations
def kv(line):
    t = line.split()
    return (t[0] if t else ""), dict(x.split("=", 1) for x in t[1:] if "=" in x)


def parse_version(s):
    """-> [(ns, [(entity, [(field, type, mods, default)], [index])])] or None"""
    v = []
    for b in (s.split("|") if s else []):
        if "!" not in b: return None
        ns, ents = b.split("!", 1)
        es = []
        for e in (ents.split(";") if ents else []):
            p = e.split("~")
            if len(p) != 4: return None
            fs = []
            for f in (p[2].split(",") if p[2] else []):
                q = f.split("/")
                if len(q) != 4: return None
                fs.append(tuple(q))
            es.append((p[0], fs, p[3].split("+") if p[3] else []))
        v.append((ns, es))
    return v


def positional(v):
    """ids the version text gives by position: {ns: (id, {entity: (k, {field: short})})} (sys excluded)"""
    res, order = {}, []
    for ns, ents in v:
        for e, fs, _ in ents:
            if ns not in res:
                res[ns] = (len(order) + 1, {})
                order.append(ns)
            d = res[ns][1]
            if e in d: return None          # duplicated entity: never accepted
            d[e] = (len(d), {f[0]: 32 + i for i, f in enumerate(fs)})
    return res


ENT_RE = re.compile(r"^([^@]*)@([^!]*)!([^{]*)\{(.*)\}\[(.*)\]\[(.*)\]$")


def parse_table(s):
    """'T|ns@id;Ent@short!flags{f=32/T/m/d,…}[idx][rm]…' -> {ns: (id, {entity: (short, {field: (short, type, mods, dflt)}, flags, idx, rm)})}"""
    if not s.startswith("T"): return None
    res = {}
    for nsb in s.split("|")[1:]:
        if nsb.startswith("#rev:"):
            rev = {}
            for x in (nsb[5:].split(",") if len(nsb) > 5 else []):
                sh, _, rest = x.partition("=")
                ns, _, name = rest.partition(":")
                if sh in rev: return None
                rev[sh] = (ns, name)
            res["#rev"] = rev
            continue
        parts = nsb.split(";")
        name, _, i = parts[0].rpartition("@")
        ents = {}
        for e in parts[1:]:
            m = ENT_RE.match(e)
            if not m: return None
            fields = {}
            for f in (m.group(4).split(",") if m.group(4) else []):
                fname, _, rest = f.partition("=")
                q = rest.split("/")
                if len(q) != 4 or not q[0].isdigit(): return None
                fields[fname] = (int(q[0]), q[1], q[2], q[3])
            ents[m.group(1)] = (m.group(2), fields, m.group(3), m.group(5), m.group(6))
        res[name] = (int(i) if i.isdigit() else -1, ents)
    return res


def ids_of(tab):
    """the id part of a table, user namespaces only"""
    return {ns: (i, {e: (x[0], {f: y[0] for f, y in x[1].items()}) for e, x in ents.items()})
            for ns, v in tab.items() if ns != "sys" and not ns.startswith("#") for (i, ents) in [v]}


def names_of(tab):
    return {ns: {e: set(x[1]) for e, x in ents.items()} for ns, v in tab.items() if ns != "sys" and not ns.startswith("#") for (_, ents) in [v]}


def names_of_version(v):
    res = {}
    for ns, ents in v:
        for e, fs, _ in ents:
            res.setdefault(ns, {})[e] = set(f[0] for f in fs)
    return res


def user_rev(tab):
    return {sh: x for sh, x in tab.get("#rev", {}).items() if x[0] != "sys"}


def expected_ids(v):
    pos = positional(v)
    if pos is None: return None
    return {ns: (i, {e: (("%d" % k) if ns == "" else "%d.%d" % (i, k), fs) for e, (k, fs) in ents.items()})
            for ns, (i, ents) in pos.items()}


class C15(Cfg):
    prop = "C15"
    prop_module = "DiscretModel.Props.C15"
    lean_targets = ["dmodel_schema"]
    harness_pkg = "dv-schema"
    model_exe = "dmodel_schema"
    design_ref = "DESIGN.md §6 C15, App. A.10, §3.2 T6"
    technique = ("Lean 4 induction over version sequences on an AST-level model of DataModel::update/Entity::update and of the "
                 "load/update/persist cycle of graph_database.rs + correspondence run against the real DataModel and real "
                 "GraphDatabaseService instances holding data + constants regenerated from system_entities.rs (T6)")
    level_text = ("Theorems (Lean 4, every history of versions, every hash-map visit order, no size bound) about an AST-level model of "
                  "data_model_parser.rs and of the load/update/persist cycle of graph_database.rs: short ids of existing namespaces/entities/fields never change "
                  "(any defects), are pairwise distinct, equal the positions in the last accepted text (hence depend on the accepted versions only and peers with "
                  "different pasts agree), stored values read back unchanged through the short id and new fields read default/null, a refused version returns the "
                  "model unchanged (also at instance level), re-applying the accepted text changes nothing and an instance restarts on its own model. These are "
                  "proved for Defects.none = Defects.asImplemented: the two deviations this check found (ids of several new fields in hash-map order; refused version "
                  "partially applied and reported Ok; a version may remove the default old rows rely on) were confirmed on the real code and fixed in /repo (e35fd01, fb21964, "
                  "9cb7f9f). The model also carries the reverse short-name table (complete along every history: C15_reverse_table_complete) and the conformance predicate a peer "
                  "applies to a row it receives (rows written under an older version keep conforming: C15_old_rows_conform). C15_breaks_hashOrderIds, C15_breaks_partialRefusal and "
                  "C15_breaks_defaultDropAccepted are decide-checked witnesses of what each defect does (the replays in corpus/C15 show the same on the real code when a "
                  "fix is reverted); C15_partial covers the pre-fix code under the guard 'accepted and at most one new field per existing entity'. The hard-coded "
                  "*_SHORT constants of system_entities.rs are proved equal to the positional ids of SYSTEM_DATA_MODEL on a table regenerated from the source on every run. "
                  "Tie: the real DataModel::update/update_system and real GraphDatabaseService instances (start, run-time update through the actor message and "
                  "through the public API, restart on the same text, rows written and read back) are run on generated version sequences (valid edits, every kind of "
                  "invalid edit, versions valid for some entities and invalid for others, versions built on refused ones); the serialised id tables, error classes and "
                  "query results, the reverse table and the conformance of every stored row to the live model (the check GraphDatabase::add_nodes applies to a peer's row) are compared "
                  "line by line with the compiled model; an independent oracle checks the property on the implementation's observations alone. Wide entities (short ids crossing 99/100) are part of the stream.")
    level_note = ("Trusted: Lean kernel (+propext, Classical.choice, Quot.sound), the hand-written model and harness, the AST->text renderer, T6 (regex-level). "
                  "The iteration order of Rust hash maps is an INPUT of the model (observed by the harness: items modified before a failure, ids given to new fields); "
                  "the model cannot predict RandomState and the theorems for Defects.none quantify over every order. Not modelled: the pest grammar and the walk over "
                  "its pairs (exercised; C14 covers the grammar), SQL generation, index DDL, the query/mutation caches (every request of the harness has a fresh name). "
                  "Exercised only: serde round trip of the model through _configuration.")
    trusted_base = [
        "hand-written model lean/DiscretModel/Model/DataModel.lean of data_model_parser.rs and graph_database.rs:899-1060, tied by the correspondence run (dv-schema vs dmodel_schema)",
        "visit-order hints: supplied by the harness from what it observed (harness/schema/src/c15.rs: infer_pri); a wrong hint can only produce a disagreement, never hide one",
        "translator T6 translators/t6_consts.py (system_entities.rs, data_model_parser.rs -> Gen/Consts.lean)",
        "the two lexical checks is_reserved / starts_with('_') are computed by the driver (String.toLower does not reduce in the kernel)",
    ]
    assumptions = [
        "a version is presented to the model as its AST; the text given to the real parser is rendered from the same AST",
        "serde_json round trip of DataModel is faithful (exercised by every restart)",
        "string defaults of Base64/Json fields are limited to two tokens with known validity (abcd, [1])",
    ]

    # ------------------------------------------------------------------ pipeline hooks
    def run(self, tier, seed):
        self.translator_problems = run_translators(["t6_consts"])
        if self.translator_problems:
            # keep going: the build of Props/C15 fails or not; the obligation is reported broken either way
            print("# translator problems: " + "; ".join(self.translator_problems))
        return with_hints(lambda: engine.run(self, tier, seed))

    def replay(self, path):
        return replay_with_hints(self, path)

    def streams(self, tier, seed, work, dv):
        res = []
        plan = [("dm", 1000, 1), ("db", 40, 3)] if tier == "quick" else [("dm", 25000, 1), ("db", 120, 10)]
        for kind, n, parts in plan:
            for p in range(parts):
                path = os.path.join(work, "%s_%d.ops" % (kind, p))
                lib.sh([dv, "gen", "--prop", "C15", "--seed", str(seed * 1000 + p), "--n", str(n), "--kind", kind, "--out", path], check=True)
                res.append(("%s seed=%d part=%d n=%d" % (kind, seed, p, n), path, False))
        return res

    def nontrivial(self, ops, outs):
        return sum(1 for o in outs if o.startswith("ok ")) >= 2

    # ------------------------------------------------------------------ the oracle
    def oracle(self, ops, outs):
        """The property, evaluated on the implementation's observations only:
        ids never change, never collide, are the positions in the accepted text (so peers agree);
        a refused version changes nothing; the same text again changes nothing; values read back."""
        res = []
        _, h = kv(ops[0])
        n = int(h.get("n", "1"))
        prev = [None] * n          # last table (full) per model/instance
        acc_text = [None] * n      # encoded text of the last accepted version
        acc_tab = [None] * n       # table right after the last accepted version
        hash_order = [False] * n
        dirty = [False] * n        # the model in memory was modified by a refused version
        rows = {}                  # row no -> (entity ref, {field: value})
        defaults = {}              # (entity ref, field) -> set of defaults seen in accepted versions (+ "null")
        fields_of = {}             # entity ref -> set of fields of the accepted version (instance 0)
        dirty_live = False         # instance 0 runs on a model that a refused version modified
        tainted = set()            # rows written through fields that only a refused version brought
        was_nullable = set()       # (entity ref, field) that some accepted version declared nullable

        def flag(sig, detail):
            res.append((sig, detail))

        for op, out in zip(ops[1:], outs[1:]):
            k, a = kv(op)
            if out == "bad-op":
                flag("malformed", "harness refused op: " + op[:80]); break
            if out.startswith("panic") or out in ("hang", "service-dead"):
                flag("crash", "%s on %s" % (out.split(" ")[0], op[:120])); break
            if k in ("ver", "sysver", "start", "upd", "updpub"):
                i = int(a.get("i", "0"))
                if i >= n: continue
                head, _, tab_s = out.partition(" ")
                if head == "not-running": continue
                tab = parse_table(tab_s) if tab_s else None
                if tab_s and tab is None:
                    flag("malformed", "unparsable table: " + tab_s[:80]); break
                text = a.get("v", "")
                v = parse_version(text) if k != "sysver" else []
                exp = expected_ids(v) if v is not None else None
                accepted = head == "ok"
                if head == "done":      # public API: the outcome is not reported; accepted iff the model now is what the text says
                    accepted = tab is not None and v is not None and exp is not None and names_of(tab) == names_of_version(v)
                    if accepted and prev[i] is not None:
                        # an accepted version keeps every pre-existing item at its position in the text
                        got0 = ids_of(tab)
                        for ns, (nid, ents) in ((k_, v_) for k_, v_ in prev[i].items() if not k_.startswith("#")):
                            if ns == "sys" or not accepted: continue
                            if ns not in exp or exp[ns][0] != got0[ns][0]: accepted = False; break
                            for e, x in ents.items():
                                ee = exp[ns][1].get(e)
                                if ee is None or ee[0] != got0[ns][1][e][0] or any(ee[1].get(f) != got0[ns][1][e][1].get(f) for f in x[1]):
                                    accepted = False; break
                before = prev[i]
                # -- ids never change / never collide (accepted or not)
                if tab is not None:
                    if before is not None:
                        for ns, (nid, ents) in ((k_, v_) for k_, v_ in before.items() if not k_.startswith("#")):
                            if ns in tab and tab[ns][0] != nid:
                                flag("id-changed", "namespace %r id %d -> %d" % (ns, nid, tab[ns][0]))
                            for e, x in ents.items():
                                y = tab.get(ns, (0, {}))[1].get(e)
                                if y is None:
                                    flag("item-lost", "entity %s.%s disappeared" % (ns, e)); continue
                                if y[0] != x[0]: flag("id-changed", "entity %s.%s short %s -> %s" % (ns, e, x[0], y[0]))
                                for f, fx in x[1].items():
                                    fy = y[1].get(f)
                                    if fy is None: flag("item-lost", "field %s.%s.%s disappeared" % (ns, e, f))
                                    elif fy[0] != fx[0]: flag("id-changed", "field %s.%s.%s short %d -> %d" % (ns, e, f, fx[0], fy[0]))
                    # -- the reverse table: every entity is found again through its short name, and only entities are
                    rev = tab.get("#rev")
                    if rev is not None:
                        want = {}
                        for ns, v_ in tab.items():
                            if ns.startswith("#"): continue
                            for e, x in v_[1].items(): want[x[0]] = (ns, e)
                        if rev != want:
                            missing = [sh for sh in want if sh not in rev]
                            wrong = [sh for sh in rev if sh in want and rev[sh] != want[sh]]
                            flag("reverse-table-broken", "entities_short: missing %s wrong %s extra %s" % (
                                missing[:3], wrong[:3], [sh for sh in rev if sh not in want][:3]))
                    seen_ns, seen_ent = {}, {}
                    for ns, (nid, ents) in ((k_, v_) for k_, v_ in tab.items() if not k_.startswith("#")):
                        if nid in seen_ns: flag("id-collision", "namespaces %r and %r share id %d" % (ns, seen_ns[nid], nid))
                        seen_ns[nid] = ns
                        for e, x in ents.items():
                            if x[0] in seen_ent: flag("id-collision", "entities %s and %s share short %s" % (e, seen_ent[x[0]], x[0]))
                            seen_ent[x[0]] = e
                            shorts = [fx[0] for fx in x[1].values()]
                            if len(set(shorts)) != len(shorts): flag("id-collision", "fields of %s.%s share a short id" % (ns, e))
                if k == "sysver":
                    if tab is not None: prev[i] = tab
                    continue
                if accepted:
                    if k == "start" and tab is None:
                        flag("malformed", "start ok without table"); break
                    # -- ids are the positions in the accepted text (a function of the accepted versions only)
                    got = ids_of(tab)
                    if exp is not None and got != exp:
                        only_new_field_perm = before is not None and set(got) == set(exp)
                        if only_new_field_perm:
                            for ns in exp:
                                if got[ns][0] != exp[ns][0] or set(got[ns][1]) != set(exp[ns][1]): only_new_field_perm = False; break
                                for e in exp[ns][1]:
                                    ge, ee = got[ns][1][e], exp[ns][1][e]
                                    if ge[0] != ee[0] or set(ge[1]) != set(ee[1]): only_new_field_perm = False; break
                                    old = before.get(ns, (0, {}))[1].get(e, (None, {}))[1]
                                    diff = [f for f in ee[1] if ge[1][f] != ee[1][f]]
                                    if any(f in old for f in diff) or sorted(ge[1][f] for f in diff) != sorted(ee[1][f] for f in diff):
                                        only_new_field_perm = False; break
                                    if diff and len([f for f in ee[1] if f not in old]) < 2: only_new_field_perm = False; break
                        if only_new_field_perm or hash_order[i]:
                            hash_order[i] = True
                            flag("hash-order-ids", "fields added together did not get their ids in text order (%s)" % op[:60])
                        else:
                            flag("ids-not-positional", "accepted version does not give positional ids (%s)" % op[:60])
                    # -- the same text again (restart) changes nothing
                    if text == acc_text[i] and acc_tab[i] is not None and k != "updpub" and tab != acc_tab[i]:
                        if dirty[i]: flag("refused-version-changed-model", "the accepted text has to undo what a refused version left behind")
                        else: flag("same-text-changed-model", "re-applying the accepted text changed the model (%s)" % k)
                    acc_text[i], acc_tab[i], prev[i] = text, tab, tab
                    if k != "ver": dirty[i] = False       # start / run-time update reload the stored model
                    if i == 0: dirty_live = False
                    if i == 0 and v is not None:
                        for ns, ents in v:
                            for e, fs, _ in ents:
                                fields_of[(ns, e)] = set(f[0] for f in fs)
                                for f in fs:
                                    defaults.setdefault(((ns, e), f[0]), set(["null"])).add(f[3].partition(":")[2] if f[3] != "-" else "null")
                                    if "n" in f[2]: was_nullable.add(((ns, e), f[0]))
                else:
                    # -- a refused version changes nothing
                    if text == acc_text[i] and acc_text[i] is not None:
                        if hash_order[i]:
                            flag("hash-order-ids", "the accepted text is refused at the next start/update: %s" % head)
                        elif dirty[i]:
                            flag("refused-version-changed-model", "the accepted text is refused after a refused version modified the model: %s" % head)
                        else:
                            flag("same-text-refused", "the accepted text is refused: %s" % head)
                    if k == "start":
                        prev[i] = acc_tab[i]      # instance down; the stored model is what the next start sees
                        dirty[i] = False
                        if i == 0: dirty_live = False
                    elif tab is not None and before is not None and tab != before:
                        flag("refused-version-changed-model", "%s left a modified model behind (%s)" % (head, k))
                        prev[i] = tab
                        dirty[i] = True
                        if i == 0: dirty_live = True
                    # a later run-time update reloads the stored model
                    if k in ("upd", "updpub"): prev[i] = acc_tab[i] if acc_tab[i] is not None else prev[i]
                # -- peers that accepted the same text agree on the ids
                for j in range(n):
                    if j != i and acc_text[j] is not None and acc_text[j] == acc_text[i] and acc_tab[j] is not None and acc_tab[i] is not None:
                        if ids_of(acc_tab[j]) != ids_of(acc_tab[i]) or user_rev(acc_tab[j]) != user_rev(acc_tab[i]):
                            if hash_order[i] or hash_order[j]: flag("hash-order-ids", "two peers on the same accepted text disagree on short ids")
                            else: flag("peers-disagree", "two peers on the same accepted text disagree on short ids")
            elif k == "put":
                if out == "ok" and a.get("i") == "0":
                    ref = tuple(a.get("e", ":").split(":", 1))
                    vals = {}
                    for t in a.get("vals", "").split(";"):
                        p = t.split(":")
                        if len(p) == 3: vals[p[0]] = p[2]
                    rows[int(a.get("r", "0"))] = (ref, vals)
                    if dirty_live and any(f not in fields_of.get(ref, set()) for f in vals):
                        tainted.add(int(a.get("r", "0")))
            elif k == "conf":
                if out.startswith("conf bad"):
                    bad = [int(x[1:]) for x in out.split(" ")[-1].split(",") if x[1:].isdigit()]
                    dropped = False
                    cur = parse_version(acc_text[0]) if acc_text[0] is not None else None
                    for no in bad:
                        if no not in rows or cur is None: continue
                        ref, vals = rows[no]
                        for ns, ents in cur:
                            for e, fs, _ in ents:
                                if (ns, e) != ref: continue
                                for f in fs:
                                    scalar = f[1] in ("B", "F", "I", "S", "X", "J")
                                    if scalar and f[0] not in vals and "n" not in f[2] and f[3] == "-":
                                        hist = defaults.get((ref, f[0]), set())
                                        if len(hist - set(["null"])) > 0 or ((ref, f[0]) in was_nullable):
                                            dropped = True
                    if dropped:
                        flag("default-dropped", "a version removed the default (or nullability) some stored rows rely on: %s" % out)
                    else:
                        flag("old-row-not-conforming", "stored rows do not conform to the accepted model: %s" % out)
            elif k == "get":
                if a.get("i") != "0": continue
                ref = tuple(a.get("e", ":").split(":", 1))
                asked = [f for f in a.get("f", "").split(",") if f]
                if out == "not-running": continue
                if not out.startswith("rows"):
                    if all(f in fields_of.get(ref, set()) for f in asked):
                        flag("accepted-field-unreadable", "%s on fields of the accepted model (%s)" % (out, op[:60]))
                    continue
                got = {}
                for r in (out[5:].split(";") if len(out) > 5 else []):
                    no, _, vs = r.partition(":")
                    got[int(no[1:])] = dict(x.split("=", 1) for x in vs.split(",") if "=" in x)
                for no, (rref, vals) in rows.items():
                    if rref != ref: continue
                    if no not in got:
                        flag("row-lost", "row %d of %s is not returned any more" % (no, ":".join(ref))); continue
                    for f in asked:
                        val = got[no].get(f)
                        if no in tainted:
                            if (f in vals and val != vals[f]) or (f not in vals and val not in defaults.get((ref, f), set(["null"]))):
                                flag("refused-version-changed-model", "row %d was written through a field that only a refused version "
                                     "brought into the live model; field %s now reads %s" % (no, f, val))
                        elif f in vals:
                            if val != vals[f]: flag("value-changed", "row %d field %s written %s read %s" % (no, f, vals[f], val))
                        elif val not in defaults.get((ref, f), set(["null"])):
                            flag("bad-default-read", "row %d field %s never written reads %s" % (no, f, val))
                for no in got:
                    if no not in rows or rows[no][0] != ref: flag("phantom-row", "row %d returned for %s" % (no, ":".join(ref)))
            if len(res) > 20: break
        # one entry per signature is enough for the verdict
        seen, uniq = set(), []
        for s, d in res:
            if s not in seen:
                seen.add(s); uniq.append((s, d))
        return uniq


CHECK = C15()
