"""C05 — query results equal a direct evaluation of the query over the data."""
import functools, json, os, subprocess, urllib.parse
from . import lib
from .engine import Cfg


def kv(line):
    t = line.split()
    return (t[0] if t else ""), dict(x.split("=", 1) for x in t[1:] if "=" in x)


def dec(s):
    return "" if s == "" else "".join(chr(int(x)) for x in s.split(","))


NULL = ("N",)


def parse_val(t):
    k, r = t[0], t[1:]
    if k == "N": return NULL
    if k == "S": return ("S", dec(r))
    if k == "I": return ("I", int(r))
    if k == "B": return ("B", r == "1")
    raise ValueError(t)


# ---------------------------------------------------------------------------------------------------
# A second evaluator of the query language, written from its meaning, independent of the Lean model.
# `sw` = set of deviations of the code that are switched ON (empty = intended behaviour).

# deviations of the code as it is
SWITCHES = ["cursor-drops-absent-keys", "order-ignores-default", "bool-default-as-number", "null-param-never-matches",
            "explicit-null-hides-default", "same-key-shadows-parent", "ref-filter-needs-selection"]
# fixed in /repo (a7dcc50, 4f128e8): only used to name a regression when a fix is reverted
FIXED_SWITCHES = ["skip-without-first-fails", "minmax-compare-text"]


def num(v):
    if v[0] == "I": return v[1]
    if v[0] == "B": return 1 if v[1] else 0
    return None


def vlt(a, b):
    """absent < numbers < texts"""
    if a == NULL: return b != NULL
    if b == NULL: return False
    if a[0] == "S" and b[0] == "S": return a[1] < b[1]
    if a[0] == "S": return False
    if b[0] == "S": return True
    return num(a) < num(b)


def vsame(a, b):
    return not vlt(a, b) and not vlt(b, a)


def compare(op, a, b):
    if a == NULL or b == NULL: return False
    return {"eq": vsame(a, b), "ne": not vsame(a, b), "lt": vlt(a, b), "le": not vlt(b, a),
            "gt": vlt(b, a), "ge": not vlt(a, b)}[op]


class World:
    def __init__(self):
        self.ns = False
        self.ents = []      # list of list of field dicts
        self.rows = []      # dicts id, ent, vals, refs
        self.nodes = {}
        self.upgraded = False

    def fdef(self, ent, f):
        """the field as the current model version declares it"""
        try: fd = self.ents[ent][f]
        except IndexError: return None
        if fd.get("then") is not None and self.upgraded:
            return dict(fd, nullable=False, dflt=fd["then"])
        return fd


def from_json(x):
    """python json value -> value tuples"""
    if x is None: return NULL
    if isinstance(x, bool): return ("B", x)
    if isinstance(x, int): return ("I", x)
    if isinstance(x, str): return ("S", x)
    if isinstance(x, list): return ("jarr", [from_json(v) for v in x])
    return ("jobj", [(k, from_json(v)) for k, v in x.items()])


def parse_path(spec):
    if spec == "$": return []
    if spec.startswith("@"): return [int(spec[1:])]
    out = []
    for seg in spec.split("/"):
        if ":" in seg:
            k, i = seg.split(":"); out += [k, int(i)]
        else: out.append(seg)
    return out


def jget(j, path):
    for p in path:
        if j is None: return None
        if isinstance(p, int):
            if j[0] != "jarr" or p >= len(j[1]): return None
            j = j[1][p]
        else:
            if j[0] != "jobj": return None
            d = dict(j[1])
            if p not in d: return None
            j = d[p]
    return j


def json_min(j):
    if j == NULL: return "null"
    if j[0] == "B": return "true" if j[1] else "false"
    if j[0] == "I": return str(j[1])
    if j[0] == "S": return '"' + j[1] + '"'
    if j[0] == "jarr": return "[" + ",".join(json_min(v) for v in j[1]) + "]"
    return "{" + ",".join('"%s":%s' % (k, json_min(v)) for k, v in j[1]) + "}"


def jleaf(j):
    if j is None: return NULL
    if j[0] in ("jarr", "jobj"): return ("S", json_min(j))
    return j


def selected(sw, fd, stored):
    dv = fd["dflt"] if fd["dflt"] is not None else NULL
    if dv[0] == "B" and "bool-default-as-number" in sw: dv = ("I", 1 if dv[1] else 0)
    if stored is None: return dv
    if stored == NULL: return NULL if "explicit-null-hides-default" in sw else dv
    return stored


def filtered(fd, stored):
    if stored is None or stored == NULL: return fd["dflt"] if fd["dflt"] is not None else NULL
    return stored


def ordered(sw, fd, on_alias, stored):
    if on_alias: return selected(sw, fd, stored)
    if "order-ignores-default" in sw: return NULL if stored is None else stored
    return filtered(fd, stored)


def filter_holds(w, sw, ent, r, f):
    fd = w.fdef(ent, f["f"])
    if fd is None: return False
    raw = r["vals"].get(f["f"])
    v = f["v"]
    if v == NULL:
        x = selected(sw, fd, raw) if f["sel"] else (NULL if raw is None else raw)
        if f["var"] and "null-param-never-matches" in sw: return False
        if f["op"] == "eq": return x == NULL
        if f["op"] == "ne": return x != NULL
        return False
    x = filtered(fd, selected(sw, fd, raw)) if f["sel"] else filtered(fd, raw)
    return compare(f["op"], x, v)


def holds(w, sw, my_key, n, r, f, depth=0):
    """one filter of node n on row r: scalar, through a json selector, or `= null` / `!= null` on a reference field"""
    if f.get("jpath") is not None:
        x = jleaf(jget(r["jsons"].get(f["f"]), f["jpath"]))
        if f["v"] == NULL: return (x == NULL) if f["op"] == "eq" else ((x != NULL) if f["op"] == "ne" else False)
        return compare(f["op"], x, f["v"])
    if not f.get("ref"): return filter_holds(w, sw, w.nodes[n]["ent"], r, f)
    node = w.nodes[n]
    fd = w.fdef(r["ent"], f["f"])
    if fd is None: return False
    if "ref-filter-needs-selection" in sw:
        present = False
        for s in node["sels"]:
            if s[0] == "sub" and s[1] == f["name"] and s[2] == f["f"]:
                sub = eval_rows(w, sw, s[1], s[3], candidates(w, sw, my_key, s[1], r, s[2], w.nodes[s[3]]["ent"]), fd["kind"] == "A", depth + 1)
                present = present or bool(sub)
    else:
        ids = r["refs"].get(f["f"], [])
        present = any(t["ent"] == fd["to"] and t["id"] in ids for t in w.rows)
    return (not present) if f["op"] == "eq" else (present if f["op"] == "ne" else False)


def tuple_lt(orders, a, b):
    for o, x, y in zip(orders, a, b):
        if (vlt(y, x) if o["desc"] else vlt(x, y)): return True
        if not vsame(x, y): return False
    return False


def cursor_cmp(sw, orders, keys, cur, after):
    for o, k, c in zip(orders, keys, cur):
        present = ("cursor-drops-absent-keys" not in sw) or (k != NULL and c != NULL)
        if after: beyond = vlt(k, c) if o["desc"] else vlt(c, k)
        else: beyond = vlt(c, k) if o["desc"] else vlt(k, c)
        if present and beyond: return True
        if not (present and vsame(k, c)): return False
    return False


def candidates(w, sw, parent_key, key, r, fld, ent):
    if "same-key-shadows-parent" in sw and parent_key == key:
        return [t for t in w.rows if t["ent"] == ent and t["id"] in t["refs"].get(fld, [])]
    ids = r["refs"].get(fld, [])
    return [t for t in w.rows if t["ent"] == ent and t["id"] in ids]


def eval_rows(w, sw, my_key, n, cands, limited, depth=0):
    node = w.nodes[n]
    ent = node["ent"]
    ok = []
    for r in cands:
        if r["ent"] != ent: continue
        good = True
        for s in node["sels"]:
            if s[0] != "sub": continue
            _, key, fld, child = s
            fd = w.fdef(ent, fld)
            if fd is None: good = False; break
            if key in node["optional"] or fd["nullable"]: continue
            sub = eval_rows(w, sw, key, child, candidates(w, sw, my_key, key, r, fld, w.nodes[child]["ent"]), fd["kind"] == "A", depth + 1)
            if not sub: good = False; break
        if good and all(holds(w, sw, my_key, n, r, f, depth) for f in node["filters"]): ok.append(r)
    orders = node["orders"]

    def keys(r):
        return [ordered(sw, w.fdef(ent, o["f"]), o["sel"], r["vals"].get(o["f"])) if w.fdef(ent, o["f"]) else NULL for o in orders]
    ok.sort(key=functools.cmp_to_key(lambda a, b: -1 if tuple_lt(orders, keys(a), keys(b)) else (1 if tuple_lt(orders, keys(b), keys(a)) else 0)))
    res = [r for r in ok
           if (not node["after"] or cursor_cmp(sw, orders, keys(r), node["after"], True))
           and (not node["before"] or cursor_cmp(sw, orders, keys(r), node["before"], False))]
    if limited:
        res = res[node["skip"]:]
        if node["first"]: res = res[:node["first"]]
    return res


def project(w, sw, my_key, n, r):
    node = w.nodes[n]
    out = []
    for s in node["sels"]:
        if s[0] == "scalar":
            fd = w.fdef(r["ent"], s[2])
            if fd and fd["kind"] == "J": out.append((s[1], r["jsons"].get(s[2]) or NULL))
            else: out.append((s[1], selected(sw, fd, r["vals"].get(s[2])) if fd else NULL))
        elif s[0] == "json":
            out.append((s[1], jget(r["jsons"].get(s[2]), s[3]) or NULL))
        elif s[0] == "agg":
            out.append((s[1], NULL))
        elif s[0] == "id":
            out.append((s[1], ("#", r["id"])))
        else:
            _, key, fld, child = s
            fd = w.fdef(r["ent"], fld)
            cands = candidates(w, sw, my_key, key, r, fld, w.nodes[child]["ent"])
            if fd and fd["kind"] == "A":
                out.append((key, ("arr", child, [project(w, sw, key, child, t) for t in eval_rows(w, sw, key, child, cands, True)])))
            else:
                rows = eval_rows(w, sw, key, child, cands, False)
                out.append((key, ("obj", child, project(w, sw, key, child, rows[0])) if rows else NULL))
    return out


def refused(w, sw, n, renders_limit):
    node = w.nodes[n]
    if "skip-without-first-fails" in sw and renders_limit and node["skip"] != 0 and node["first"] == 0: return True
    for s in node["sels"]:
        if s[0] == "sub":
            fd = w.fdef(node["ent"], s[2])
            if fd and refused(w, sw, s[3], fd["kind"] == "A"): return True
    return False


def canon_scalar(v):
    if v == NULL: return "N"
    if v[0] == "jobj": return "J{" + ";".join("%s=%s" % (k, canon_scalar(x)) for k, x in v[1]) + "}"
    if v[0] == "jarr": return "A[" + ",".join(canon_scalar(x) for x in v[1]) + "]"
    if v[0] == "B": return "B1" if v[1] else "B0"
    if v[0] == "I": return "I%d" % v[1]
    if v[0] == "S": return "S" + ".".join(str(ord(c)) for c in v[1])
    if v[0] == "#": return "#%d" % v[1]
    return "?"


def canon_row(w, n, row):
    parts = []
    for k, v in row:
        if v[0] == "arr": parts.append("%s=[%s]" % (k, ",".join(canon_rows(w, v[1], v[2]))))
        elif v[0] == "obj": parts.append("%s=%s" % (k, canon_row(w, v[1], v[2])))
        else: parts.append("%s=%s" % (k, canon_scalar(v)))
    return "{" + ";".join(parts) + "}"


def canon_rows(w, n, rows):
    node = w.nodes[n]
    visible = [o["name"] for o in node["orders"] if any(s[0] in ("scalar", "agg") and s[1] == o["name"] for s in node["sels"])]
    items = []
    for r in rows:
        d = dict(r)
        items.append((tuple(canon_scalar(d[k]) if k in d and d[k][0] not in ("arr", "obj") else "" for k in visible), canon_row(w, n, r)))
    out, i = [], 0
    while i < len(items):
        j = i + 1
        while j < len(items) and items[j][0] == items[i][0]: j += 1
        out += sorted(x[1] for x in items[i:j])
        i = j
    return out


def root_key(w):
    node = w.nodes[0]
    if node["alias"]: return node["alias"]
    return ("app$E%d" if w.ns else "E%d") % node["ent"]


def json_text(v):
    if v == NULL: return "null"
    if v[0] == "I": return str(v[1])
    if v[0] == "B": return "true" if v[1] else "false"
    return '"' + v[1] + '"'


def eval_groups(w, sw, my_key):
    """count()/min()/max() grouped by the scalar selections of the root"""
    node = w.nodes[0]
    ent = node["ent"]
    aggs = [s[1] for s in node["sels"] if s[0] == "agg"]
    having = [f for f in node["filters"] if f["sel"] and f["name"] in aggs]
    wheres = [f for f in node["filters"] if not (f["sel"] and f["name"] in aggs)]
    ok = [r for r in w.rows if r["ent"] == ent and all(filter_holds(w, sw, ent, r, f) for f in wheres)]
    gfields = [s[2] for s in node["sels"] if s[0] == "scalar"]
    groups = []
    for r in ok:
        key = [r["vals"].get(f, NULL) for f in gfields]
        for g in groups:
            if all(vsame(a, b) for a, b in zip(g[0], key)):
                g[1].append(r); break
        else:
            groups.append((key, [r]))
    if not gfields: groups = [([], ok)]     # no grouping field: exactly one group, even when no row is selected
    rows = []
    for key, g in groups:
        row = []
        for s in node["sels"]:
            if s[0] == "scalar":
                fd = w.fdef(ent, s[2])
                row.append((s[1], selected(sw, fd, g[0]["vals"].get(s[2])) if fd and g else NULL))
            elif s[0] == "agg":
                _, k, fn, f = s
                if fn == "count": row.append((k, ("I", len(g))))
                else:
                    vals = [r["vals"][f] for r in g if f in r["vals"]]
                    if not vals: row.append((k, NULL)); continue
                    if "minmax-compare-text" in sw: lt = lambda a, b: json_text(a) < json_text(b)
                    else: lt = vlt
                    best = vals[0]
                    for v in vals[1:]:
                        if (lt(v, best) if fn == "min" else lt(best, v)): best = v
                    row.append((k, best))
        rows.append(row)
    rows = [row for row in rows if all(compare(f["op"], dict(row).get(f["name"], NULL), f["v"]) for f in having)]
    orders = node["orders"]

    def keys(row):
        d = dict(row)
        return [d.get(o["name"], NULL) for o in orders]
    rows.sort(key=functools.cmp_to_key(lambda a, b: -1 if tuple_lt(orders, keys(a), keys(b)) else (1 if tuple_lt(orders, keys(b), keys(a)) else 0)))
    return rows


def run_query(w, sw):
    if 0 not in w.nodes: return None
    if any(s[0] == "agg" for s in w.nodes[0]["sels"]):
        return "res=[" + ",".join(canon_rows(w, 0, eval_groups(w, sw, root_key(w)))) + "]"
    if refused(w, sw, 0, True): return "err:sql"
    rows = eval_rows(w, sw, root_key(w), 0, w.rows, True)
    return "res=[" + ",".join(canon_rows(w, 0, [project(w, sw, root_key(w), 0, r) for r in rows])) + "]"


def apply_op(w, k, a):
    """updates the world with one op line; returns False for malformed lines"""
    try:
        if k == "ent": w.ents.append([])
        elif k == "fld":
            w.ents[int(a["e"])].append({"kind": a["ty"], "to": int(a.get("to", 0)), "nullable": a["mod"] == "n",
                                       "dflt": parse_val(a["dv"]) if "dv" in a else None, "late": a.get("late") == "1",
                                       "then": parse_val(a["then"]) if "then" in a else None})
        elif k == "upgrade": w.upgraded = True
        elif k == "row":
            e = int(a["e"])
            vals = {}
            for t in (a.get("v") or "").split("|"):
                if t:
                    j, x = t.split(":", 1); vals[int(j)] = parse_val(x)
            refs = {}
            for t in (a.get("r") or "").split("|"):
                if t:
                    j, x = t.split(":", 1)
                    ids = [int(i) for i in x.split(".") if i]
                    fd = w.ents[e][int(j)]
                    if ids: refs[int(j)] = ids[:1] if fd["kind"] == "R" else ids
            for j in range(len(w.ents[e])):
                fd = w.fdef(e, j)
                if fd["dflt"] is not None and j not in vals and (not fd["late"] or w.upgraded): vals[j] = fd["dflt"]
            jsons = {}
            for t in (a.get("j") or "").split("|"):
                if t:
                    j, x = t.split(":", 1); jsons[int(j)] = from_json(json.loads(dec(x)))
            w.rows.append({"id": int(a["id"]), "ent": e, "vals": vals, "refs": refs, "jsons": jsons})
        elif k == "q":
            n = int(a["n"])
            if n == 0: w.nodes = {}
            w.nodes[n] = {"ent": int(a["ent"]), "alias": a.get("alias"), "sels": [], "filters": [], "orders": [],
                          "first": 0, "skip": 0, "after": [], "before": [], "optional": []}
        elif k == "qs":
            nd = w.nodes[int(a["n"])]
            nd["sels"].append(("id", a["key"]) if a["f"] == "id" else ("scalar", a["key"], int(a["f"])))
        elif k == "qe": w.nodes[int(a["n"])]["sels"].append(("sub", a["key"], int(a["f"]), int(a["child"])))
        elif k == "qg": w.nodes[int(a["n"])]["sels"].append(("agg", a["key"], a["fn"], int(a["f"])))
        elif k == "qj": w.nodes[int(a["n"])]["sels"].append(("json", a["key"], int(a["f"]), parse_path(a["path"])))
        elif k == "qf":
            w.nodes[int(a["n"])]["filters"].append({"name": a["name"], "sel": a["sel"] == "1", "f": int(a["f"]), "op": a["op"],
                                                   "v": parse_val(a["v"]), "var": a.get("var") == "1", "ref": a.get("ref") == "1",
                                                   "jpath": parse_path(a["jpath"]) if "jpath" in a else None})
        elif k == "qo":
            w.nodes[int(a["n"])]["orders"].append({"name": a["name"], "sel": a["sel"] == "1", "f": int(a["f"]), "desc": a["dir"] == "desc"})
        elif k == "ql":
            nd = w.nodes[int(a["n"])]; nd["first"] = int(a["first"]); nd["skip"] = int(a["skip"])
        elif k == "qa":
            w.nodes[int(a["n"])]["after" if a["kind"] == "after" else "before"] = [parse_val(t) for t in a["v"].split("|")]
        elif k == "qn": w.nodes[int(a["n"])]["optional"].append(a["key"])
        return True
    except (KeyError, ValueError, IndexError):
        return False


SIGNATURE_OF = {
    "cursor-drops-absent-keys": "paging-absent-key-skipped",
    "order-ignores-default": "order-ignores-default",
    "bool-default-as-number": "bool-default-returned-as-number",
    "null-param-never-matches": "null-param-filter-no-match",
    "explicit-null-hides-default": "explicit-null-hides-default",
    "skip-without-first-fails": "skip-without-first-refused",
    "same-key-shadows-parent": "nested-same-key-shadowing",
    "minmax-compare-text": "aggregate-minmax-compare-text",
    "ref-filter-needs-selection": "reference-filter-needs-selection",
}


def explain(w, impl):
    """which deviation(s) of the code explain an implementation result that differs from the intended one"""
    allsw = SWITCHES + FIXED_SWITCHES
    for s in allsw:
        if run_query(w, {s}) == impl: return [SIGNATURE_OF[s]]
    for i, s in enumerate(allsw):
        for t in allsw[i + 1:]:
            if run_query(w, {s, t}) == impl: return [SIGNATURE_OF[s], SIGNATURE_OF[t]]
    for base in (set(SWITCHES), set(allsw)):
        if run_query(w, base) == impl:
            # several at once: name those whose removal changes the result
            return [SIGNATURE_OF[s] for s in sorted(base) if run_query(w, base - {s}) != impl] or ["query-result-mismatch"]
    return None


class C05(Cfg):
    prop = "C05"
    prop_module = "DiscretModel.Props.C05"
    lean_targets = ["dmodel_query"]
    harness_pkg = "dv-query"
    model_exe = "dmodel_query"
    design_ref = "DESIGN.md §6 C05"
    technique = ("Lean 4: (1) reference evaluator of the query language with proved laws (limits, filters, paging); (2) a literal model of the SQL "
                 "generator of query.rs for entity selections with one level of sub-selections and for root-level aggregate queries count/min/max with GROUP BY / HAVING (SQL tree + printer) and a denotational semantics of that SQL fragment, "
                 "with the theorem that the generated statement computes the evaluator's result for the code as it is; "
                 "+ differential runs: generated data models, data sets and queries evaluated by the compiled evaluator and by the real "
                 "QueryParser/PreparedQueries/Query::read on SQLite, results compared structurally; for the fragment also the SQL text and the bound "
                 "values byte for byte, the rows predicted by the SQL semantics, and the stored _node table")
    level_text = (
        "A reference evaluator eval : Schema -> Data -> Query -> rows written in Lean 4 from the meaning of the language (it never mentions SQL), with theorems that make it a readable specification: "
        "first/skip are take/drop of the ordered list; a row is selected iff it satisfies every filter and every mandatory sub-selection selects something (filters are List.filter and commute); "
        "and the paging theorem, for every data set, every query of the covered subset and every page size n>=1: if the selected rows have strictly increasing (i.e. pairwise different, the result being sorted) "
        "key tuples and no absent key, iterating `first n, after(keys of the last row)` from the start yields the selected rows in order, each exactly once (induction on the sorted list, no bound). "
        "Counter-examples (decide-checked) for ties, for absent keys and for a sub-selection that has the same key as its parent. "
        "PROVED (C05_compile_correct, C05_compile_correct_sub; no bound on schema, data or query): Model/SqlGen.lean + SqlGenSub.lean are a literal model of SingleQuery::build / get_entity_query / get_fields / get_where_filters / get_paging / get_order / get_limit / add_param "
        "and of get_sub_entity_query / get_sub_group_array / get_exists_query (a SQL tree: json_object projection incl. scalar sub-queries and json_group_array sub-selects over `_edge JOIN _node`, EXISTS conjuncts, WHERE conjuncts incl. the CASE-default form, paging disjunction, ORDER BY, LIMIT/OFFSET, "
        "one bound-parameter list for the whole statement; `render` / `render1` print it) and Model/SqlSem.lean + SqlSemSub.lean state what SQLite computes for such a tree on the _node and _edge tables; "
        "for every data model, data set (ids are keys), injective short naming, variable naming and every query of the fragment - one entity selection with scalar Integer/String/Boolean fields required/nullable/with default, aliases, the id field; filters = != < <= > >= on aliases and on selected or unselected fields "
        "with literal, null and variable values incl. the default-aware CASE rule; order_by on any number of keys asc/desc on aliases or fields; literal first/skip; before or after with literal values; "
        "and ONE LEVEL of sub-selections through entity and array reference fields, each again with its own selections, filters, order_by, first/skip, cursors, with nullable(key) / nullable fields optional and the others mandatory (EXISTS) - "
        "SqlSem.run (tables of data) (compile q) params = eval Defects.asImplemented data q as lists of JSON objects (nested objects and arrays included), same order (undefined order = order of the data list on both sides; holds for every order of that list). "
        "The code's deviations (order-ignores-default, explicit-null-hides-default, bool-default-returned-as-number, null-param-filter-no-match, cursors dropping absent keys) are derived from the generated SQL, not assumed. "
        "Also PROVED (C05_compile_correct_agg): AGGREGATE queries at the root - group-by scalar fields (without default) next to count(), min(f), max(f), WHERE filters on fields (literal / null / variable, CASE-default rule), "
        "HAVING filters on aggregate aliases, order_by on selected group fields and on aliases (Model/SqlGenAgg.lean: aggregate get_fields, get_group_by, get_having_filters; Model/SqlSemAgg.lean: GROUP BY on SQL values, count/min/max over non-NULL values with NULL < numbers < texts, bare columns, HAVING) - "
        "SqlSem.runA = eval (evalGroups) for every data set whose min/max fields store numbers or texts only; the fragment stops at: first/skip/cursors on grouped queries (the evaluator has none), avg()/sum() (floats, not in the evaluator), group fields with a default, WHERE filters on aliases. "
        "Tie of these theorems to the code, on every run: for every generated query of the fragment the text printed by `render (compile q)` equals SingleQuery.sql_query byte for byte, the bound values equal those of build_query_params, "
        "the rows SqlSem.run predicts equal the rows the real SQLite returns (tie groups as multisets), and the modelled _node and _edge tables equal the stored ones (signatures sql-text-mismatch, sql-semantics-mismatch). "
        "Outside the fragment (sub-selections deeper than one level or whose key is the alias of the parent table, aggregates, json selectors, reference null tests, search) the statement `the SQL compiler implements eval` is NOT proved: it is decided by the differential run of every check: generated data models "
        "(namespaces, Integer/String/Boolean fields required/nullable/with default/added in a later model version, entity and array references incl. self references), data sets with ties and absent values on purpose, "
        "and type-directed queries (aliases, nesting depth <= 3, filters on selected and unselected fields with literals and parameters, 1-3 order keys, first/skip, before/after, nullable(), id, reference null tests, json selectors, count/min/max with grouping and having-filters) are evaluated by the compiled Lean evaluator "
        "and by the real QueryParser + PreparedQueries + Query::read on SQLite; the JSON results are compared structurally (rows that tie on every visible order key as multisets). "
        "An independent second evaluator of the intended semantics (Python) is the oracle: every difference between it and the implementation must be explained by a listed deviation.")
    level_note = (
        "Proved: laws of the evaluator, and - for root-level aggregate queries (count/min/max, group fields, WHERE, HAVING, order_by; no limits) and for entity selections with at most one level of sub-selections through reference fields (no json selector, no search, no reference null test; literal first/skip and cursor values; sub-selection keys other than the root alias) - that the SQL the compiler MODEL generates means the evaluator's result "
        "under the trusted SQL semantics Model/SqlSem.lean + SqlSemSub.lean + SqlSemAgg.lean (three-valued comparisons, NULL < numbers < texts, -> / ->> / Ifnull / json_object on JSON scalars, WHERE alias `value`, stable ORDER BY, LIMIT/OFFSET, `_edge JOIN _node` correlated on the parent row, scalar sub-query / json_group_array / EXISTS; GROUP BY, count/min/max, bare columns from the first row of a group, HAVING). "
        "What ties the compiler model and the SQL semantics to query.rs and to SQLite is differential (sampled): text and bound values byte for byte, predicted rows vs real rows. The parser (query text -> EntityQuery: names, is_selected, typing) is not modelled: "
        "the fragment predicate `inFragment` states what it guarantees (distinct keys, aliases name a scalar selection, null literal only on nullable fields, cursor arity). "
        "Everything outside the fragment is differential only. "
        "Language subset covered by the differential run: scalar selection (Integer, String, Boolean; required, nullable, default, late fields), id, aliases, entity/array sub-selections to depth 3, nullable(), "
        "filters = != < <= > >= (literal, parameter, null) on fields and aliases with the default-aware rule, order_by (1-3 keys, asc/desc), first/skip, before/after; "
        "`= null` / `!= null` on reference fields; Json fields selected as a whole or through json selectors (`f->$.a.b[0]`, `f->2`, `f->$`) and filtered through them; "
        "at the root also count()/min()/max() over required Integer fields grouped by 0-2 plain scalar fields, with filters on fields, having-filters on aggregate aliases and order_by on group fields or aggregate aliases. "
        "NOT covered: Float and Base64 fields, Json values with escapes/floats/null and Json defaults, avg()/sum() (floats), limits/cursors/sub-selections on grouped queries, search() (FTS5 ranking), ordering on Json fields, parameters in json filters, room/author/date system fields, several root selections in one query, the service API (covered in C04). "
        "The paging theorem's hypothesis is that the order-key tuples of the selected rows are pairwise different (and present, for the code as it is); that the result is sorted is a theorem (C05_result_sorted).")
    trusted_base = [
        "hand-written evaluator lean/DiscretModel/Model/Query.lean, tied to the code by the differential run (dv-query vs dmodel_query)",
        "lean/DiscretModel/Model/SqlSem.lean, SqlSemSub.lean, SqlSemAgg.lean: the semantics of the generated SQL fragment (our statement of what SQLite does), validated against the real SQLite by the sqlck stream",
        "lean/DiscretModel/Model/SqlGen.lean, SqlGenSub.lean, SqlGenAgg.lean: model of the SQL generator, validated byte for byte (text and bound values) against PreparedQueries::build by the sqlck stream",
        "harness/query: builds the data model, rows and query text from the op lines, canonicalises the JSON result (uids -> row numbers, tie runs sorted)",
        "checks/C05.py: the second (Python) evaluator used as oracle",
        "SQLite 3.45.3 (ORDER BY on mixed types, json functions) as observed",
    ]
    assumptions = [
        "the meaning of a comparison with an absent value is 'not satisfied' (SQL three-valued logic) - taken as the language's meaning",
        "ordering of values: absent < numbers (booleans as 0/1) < texts by code point",
        "where the language defines no order (no order_by, ties) results are compared as multisets",
        "C05_compile_correct: the short names of entities and fields are injective (the data model numbers them); SQLite's sort keeps the scan order of ties (only used up to permutation inside tie groups by the comparison)",
    ]

    def streams(self, tier, seed, work, dv):
        n = 900 if tier == "quick" else 3500
        path = os.path.join(work, "queries.ops")
        lib.sh([dv, "gen", "--prop", "C05", "--seed", str(seed), "--n", str(n), "--tier", tier, "--out", path], check=True)
        # the fragment of the SQL compiler theorem: text, bound values, predicted rows, stored table
        m = 250 if tier == "quick" else 5000
        path2 = os.path.join(work, "sqlck.ops")
        lib.sh([dv, "gen", "--prop", "C05sql", "--seed", str(seed), "--n", str(m), "--tier", tier, "--out", path2], check=True)
        self._work = work
        # the model's answers for the whole stream, computed once (a driver start costs about a second): looked up per case by
        # the oracle; a case that is not in the table (a shrunk replay) is run on its own
        self._model_cache = {}
        try:
            lib.run_model(lib.model_bin(self.model_exe), path2, path2 + ".model0", timeout=1200)
            ops2 = lib.read_lines(path2)
            for cops, mouts in lib.split_cases(ops2, lib.read_lines(path2 + ".model0")):
                self._model_cache["\n".join(cops)] = mouts
        except (lib.CheckError, OSError, subprocess.TimeoutExpired):
            pass
        return [("queries seed=%d cases=%d" % (seed, n), path, False),
                ("sqlck seed=%d cases=%d" % (seed, m), path2, False)]

    def nontrivial(self, ops, outs):
        return any(o.startswith("res=[{") for o in outs)

    # ---- the tie of C05_compile_correct: the compiled Lean model (SqlGen.render/compile, SqlSem.run) on the same case
    def _model_outs(self, ops):
        hit = getattr(self, "_model_cache", {}).get("\n".join(ops))
        if hit is not None: return hit
        work = getattr(self, "_work", None) or os.path.join(lib.OUT, "work", self.prop)
        os.makedirs(work, exist_ok=True)
        p = os.path.join(work, "sqlck_case.ops")
        with open(p, "w") as f: f.write("\n".join(ops) + "\n")
        try:
            lib.run_model(lib.model_bin(self.model_exe), p, p + ".model", timeout=600)
        except (lib.CheckError, OSError, subprocess.TimeoutExpired):
            return None
        return lib.read_lines(p + ".model")

    def sql_oracle(self, ops, outs):
        if not any(o.split(" ", 1)[0] in ("sqlck", "sqltbl", "sqledge") for o in ops): return []
        mod = self._model_outs(ops)
        if mod is None or len(mod) != len(outs):
            return [("sql-text-mismatch", "the model driver gave no answer for the case")]
        res = []
        for op, out, m in zip(ops, outs, mod):
            k = op.split(" ", 1)[0]
            if k in ("sqltbl", "sqledge") and out != m and (out.startswith(("tbl=", "edges=")) or m.startswith(("tbl=", "edges="))):
                res.append(("sql-semantics-mismatch", "stored %s table: impl %s model %s" % ("_node" if k == "sqltbl" else "_edge", out[:150], m[:150])))
            if k != "sqlck" or out == m: continue
            fi = dict(x.split("=", 1) for x in out.split(" ") if "=" in x)
            fm = dict(x.split("=", 1) for x in m.split(" ") if "=" in x)
            if "sql" not in fi and "sql" not in fm:
                continue        # neither side has a statement (malformed case): left to the line-by-line comparison of the engine
            if "sql" not in fi or "sql" not in fm:
                res.append(("sql-text-mismatch", "only one side produced a statement: code %s model %s" % (out[:120], m[:120])))
                continue
            if fi.get("sql") != fm.get("sql"):
                a, b = urllib.parse.unquote(fi["sql"]), urllib.parse.unquote(fm["sql"])
                i = next((j for j in range(min(len(a), len(b))) if a[j] != b[j]), min(len(a), len(b)))
                res.append(("sql-text-mismatch", "statement text differs at byte %d: code ...%r model ...%r" % (i, a[max(0, i - 30):i + 40], b[max(0, i - 30):i + 40])))
            elif fi.get("par") != fm.get("par"):
                res.append(("sql-text-mismatch", "bound values differ: code %s model %s" % (fi.get("par"), fm.get("par"))))
            if fi.get("rows") != fm.get("rows"):
                res.append(("sql-semantics-mismatch", "rows of the statement: SQLite %s SqlSem.run %s" % ((fi.get("rows") or "")[:150], (fm.get("rows") or "")[:150])))
        return res

    def oracle(self, ops, outs):
        res = []
        k, c = kv(ops[0])
        if k != "case" or c.get("e") != "c05": return res
        w = World(); w.ns = c.get("ns") == "1"
        last_full = None
        for op, out in zip(ops[1:], outs[1:]):
            k, a = kv(op)
            if k == "run":
                last_full = out if out.startswith("res=") else None
                if out == "panic":
                    res.append(("panic", "query made the engine panic")); continue
                if out == "bad-op" or 0 not in w.nodes: continue
                want = run_query(w, set())
                if want != out:
                    sigs = explain(w, out)
                    if sigs is None:
                        res.append(("query-result-mismatch", "intended %s got %s" % (want[:150], out[:150])))
                    else:
                        for s in sigs: res.append((s, "intended %s got %s" % (want[:120], out[:120])))
            elif k == "pages":
                node = w.nodes.get(0, {})
                if out.startswith("pages=") and out != "pages=*" and last_full is not None and node.get("orders"):
                    body = out[6:].split(" note=")[0]
                    got = ",".join(p for p in body.split("/") if p)
                    if "res=[" + got + "]" != last_full:
                        absent = any(("%s=N" % o["name"]) in last_full for o in node["orders"])
                        defaulted = any((not o["sel"]) and (w.fdef(node["ent"], o["f"]) or {}).get("dflt") is not None for o in node["orders"])
                        sig = "paging-absent-key-skipped" if absent else "paging-broken"
                        if defaulted: sig = "order-ignores-default"      # rows that lack the field are ordered and paged as absent
                        if "note=err:pagingtype" in out: sig = "bool-default-returned-as-number"
                        res.append((sig, "pages %s do not add up to %s" % (out[:120], last_full[:120])))
            else:
                apply_op(w, k, a)
        res += self.sql_oracle(ops, outs)
        seen, uniq = set(), []
        for s, d in res:
            if s not in seen:
                seen.add(s); uniq.append((s, d))
        return uniq


CHECK = C05()
