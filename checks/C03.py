"""C03 — synchronisation converges: all members end with the same room content."""
import os
from . import lib
from .engine import Cfg
from . import synclib


class C03(Cfg):
    prop = "C03"
    prop_module = "DiscretModel.Props.C03"
    lean_targets = ["dmodel_sync"]
    harness_pkg = "dv-sync"
    model_exe = "dmodel_sync"
    design_ref = "DESIGN.md §6 C03, App. A.5, A.6"
    technique = ("Lean 4 order/semilattice/convergence proofs about the last-writer-wins join + a literal executable model of "
                 "synchronise_room (day selection from the daily logs, deletion records, filter_existing, validate_node, references) "
                 "run against 2-4 real GraphDatabaseService instances wired back to back through the real pull and serve code "
                 "(in-memory channels, logical clock) + an independent oracle on the peers' tables after quiescence")
    level_text = ("Theorems (Lean 4; any number of peers, rows, days, any schedule length): (mdate, signature) lexicographic is a total order; "
                  "keeping the greater version is an idempotent, commutative, associative merge; the replica join (greater version wins, deletion records united, "
                  "a deletion record removes every version of its row) is a semilattice; for any finite set of replicas and any sequence of directed pulls, when a full round "
                  "of all ordered pairs changes nothing all replicas are equal, a further pull transfers nothing, every replica holds the join of all initial replicas "
                  "(hence the same state for every schedule and arrival order) and the version shown for a row is the maximum of all versions any replica held, or nothing if the row was deleted. "
                  "Refinement (proved): for the executable model of synchronise_room with four switches off (#18 ingestion consults deletion records, synchronised deletion not room-scoped, "
                  "deletion records not keyed by row id, room summary covering every entity) and every other switch as in the code (#30 references only for fetched rows included: immaterial for rows and records), "
                  "one pull changes the puller's rows and node deletion records to join(puller, source restricted to the room) - for replicas whose logs are the logs of their content (C09), "
                  "with unique row ids, no stored row carrying a deletion record (C11), a signature standing for the record it signs, and members holding every right (C03_refines_pull); without the log hypothesis "
                  "the pull is the sequence of joins with the days whose daily hash differs. The same equation with the room-scoped deletion and the batches keyed by row id LEFT AS IN THE CODE, as conditions on the data: "
                  "rows keep their room, the source holds no two deletion records of one row on one day (C03_refines_pull_code; the puller afterwards again satisfies C11's invariant and the room condition). "
                  "What separates the code as it is (#18 repaired) from this equation: the room summary of one entity, members without the all-rows right (#19), the daily-log findings of C09. "
                  "NOT proved: that these hypotheses are re-established after every pull inside one induction over schedules (pieces exist: C09_model_*, C11_invariant), the references, members with the own-rows right only (#19), "
                  "and the partial convergence theorem for the code as it is. For the code as it is statement C03 is refuted by decide-checked model traces, each replayed on real instances: "
                  "right required depends on the local author (#19), references fetched only for winning rows and absent from the daily hash (#30), deletion records of one answer keyed by row id (new), "
                  "room summary comparing the first entity only (new); and, for the code before the repair of #18, converged state depending on the pull order because ingestion ignored deletion records (regression witness). "
                  "The executable model (Defects.asImplemented) is tied to /repo by running both on the same generated multi-peer histories and comparing all tables of all peers after every op.")
    level_note = ("Trusted: Lean kernel (+propext, Classical.choice, Quot.sound), the hand-written model lean/DiscretModel/Model/Sync.lean (+DailyLog.lean) and the harness. "
                  "Modelled and exercised: synchronise_room / synchronise_day, process_inbound's data queries, filter_existing, add_nodes/validate_node, add_edges, delete_nodes, delete_edges, the daily log. "
                  "Not covered: room-definition changes during a case, QUIC transport, batching by byte size (cases are small), interruption between batches; "
                  "the refinement pull = join is proved per pull under stated hypotheses (C03_refines_pull), not yet as one induction over whole schedules.")
    trusted_base = [
        "hand-written model lean/DiscretModel/Model/Sync.lean, tied by the correspondence run (dv-sync vs dmodel_sync)",
        "harness/sync: real instances; the puller's QueryService is connected by tokio channels to InboundQueryService::process_inbound of the serving instance; add-only hook LocalPeerService::verif_synchronise_room",
        "signatures of two same-date versions of one row are made to compare like the symbolic numbers of the op file (re-signing with another salt)",
    ]
    assumptions = [
        "rooms, members and rights are fixed during a case; every row carries a room",
        "convergence theorems are about the join; the model's pull with five switches off is proved equal to it (C03_refines_pull); the code as it is is related to it by the correspondence run and the witnesses",
    ]

    def streams(self, tier, seed, work, dv):
        res = []
        n, ln = (22, 18) if tier == "quick" else (1200, 26)
        path = os.path.join(work, "hist_C03.ops")
        lib.sh([dv, "gen", "--prop", "C03", "--seed", str(seed), "--n", str(n), "--len", str(ln), "--out", path], check=True)
        res.append(("histories C03 seed=%d n=%d" % (seed, n), path, False))
        # deletions racing with pulls (the paths repaired for #18): after quiescence same rows, records and references
        n = 6 if tier == "quick" else 200
        path = os.path.join(work, "del_C03.ops")
        lib.sh([dv, "gen", "--prop", "C11del", "--seed", str(seed + 5), "--n", str(n), "--out", path], check=True)
        res.append(("deletion scenarios seed=%d n=%d" % (seed + 5, n), path, False))
        # every arrival order: all sequences of k directed pulls among three peers after the same concurrent writes
        bases, k = (1, 2) if tier == "quick" else (3, 3)
        path = os.path.join(work, "orders_C03.ops")
        lib.sh([dv, "gen", "--prop", "orders", "--seed", str(seed), "--n", str(bases), "--len", str(k), "--out", path], check=True)
        res.append(("all pull orders len=%d bases=%d seed=%d" % (k, bases, seed), path, True))
        return res

    def nontrivial(self, ops, outs):
        return synclib.c03_nontrivial(ops, outs)

    def oracle(self, ops, outs):
        return synclib.c03_oracle(ops, outs)


CHECK = C03()
